/-
  ValidaProofs.Lemmas.C11RoundLeaf — the round trip of one condition, by the shape of the
  constructor's signature, from the closed facts about the tables (`Facts`).
-/
import Valida.Spec.Ser
import ValidaProofs.Lemmas.C11RoundFacts
import ValidaProofs.Lemmas.C11RoundBuild
import ValidaProofs.Lemmas.C11RoundSniff
import ValidaProofs.Lemmas.C11RoundSer
namespace ValidaProofs.C11R
open Valida ValidaGen

/-! ### the rest of the parser, by shape -/

theorem tail_nullary (fuel : Nat) (cls : CClass) (c : Ctor) (v : PyVal) (sn : Sniffed) (l : Leaf Arg)
    (hp : c.params = []) (hvp : c.varPos = none) (hvk : c.varKw = none)
    (hsn : sniffArg fuel v = .ok sn) (hb : buildLeaf Arg.lit cls c [] [] = .ok l) :
    parseTail fuel cls c v = .ok (.leaf l) := by
  simp [parseTail, Ctor.kinds, hp, hvp, hvk, hsn, hb, bind, Except.bind, pure, Except.pure]

theorem tail_single (fuel : Nat) (cls : CClass) (c : Ctor) (v : PyVal) (sn : Sniffed) (l : Leaf Arg) (p : String)
    (hp : c.params = [p]) (hvp : c.varPos = none) (hvk : c.varKw = none)
    (hsn : sniffArg fuel v = .ok sn) (hb : buildLeaf Arg.lit cls c [sn.toArg] [] = .ok l) :
    parseTail fuel cls c v = .ok (.leaf l) := by
  simp [parseTail, Ctor.kinds, hp, hvp, hvk, hsn, hb, bind, Except.bind, pure, Except.pure]

theorem tail_multi (fuel : Nat) (cls : CClass) (c : Ctor) (v : PyVal) (items : List (PyVal × SElem))
    (kws : List (String × Arg)) (l : Leaf Arg) (p q : String) (r : List String)
    (hp : c.params = p :: q :: r) (hvp : c.varPos = none) (hvk : c.varKw = none)
    (hsn : sniffArg fuel v = .ok (.dictS items)) (hk : strKeysS items = .ok kws)
    (hb : buildLeaf Arg.lit cls c [] kws = .ok l) :
    parseTail fuel cls c v = .ok (.leaf l) := by
  simp [parseTail, Ctor.kinds, hp, hvp, hvk, hsn, hk, hb, bind, Except.bind, pure, Except.pure]

theorem tail_varpos (fuel : Nat) (cls : CClass) (c : Ctor) (v : PyVal) (xs : List SElem) (l : Leaf Arg)
    (hp : c.params = []) (hvp : c.varPos.isSome = true) (hvk : c.varKw = none)
    (hsn : sniffArg fuel v = .ok (.listS xs)) (hb : buildLeaf Arg.lit cls c (xs.map SElem.toArg) [] = .ok l) :
    parseTail fuel cls c v = .ok (.leaf l) := by
  simp [parseTail, Ctor.kinds, hp, hvp, hvk, hsn, hb, bind, Except.bind, pure, Except.pure]

theorem tail_varkw (fuel : Nat) (cls : CClass) (c : Ctor) (v : PyVal) (items : List (PyVal × SElem))
    (kws : List (String × Arg)) (l : Leaf Arg)
    (hp : c.params = []) (hvp : c.varPos = none) (hvk : c.varKw.isSome = true)
    (hsn : sniffArg fuel v = .ok (.dictS items)) (hk : strKeysS items = .ok kws)
    (hb : buildLeaf Arg.lit cls c [] kws = .ok l) :
    parseTail fuel cls c v = .ok (.leaf l) := by
  simp [parseTail, Ctor.kinds, hp, hvp, hvk, hsn, hk, hb, bind, Except.bind, pure, Except.pure]

/-- a literal argument whose value has property `P` -/
def LitP (P : PyVal → Bool) (a : Arg) : Prop := ∃ v, a = .lit v ∧ P v = true

theorem strKeysS_lits (P : PyVal → Bool) (kwA : List (String × Arg)) (h : ∀ kv ∈ kwA, LitP P kv.2) :
    strKeysS ((kwA.map (fun kv => (PyVal.str kv.1, argOut kv.2))).map (fun kv => (kv.1, SElem.val kv.2))) =
      .ok kwA := by
  unfold strKeysS
  rw [List.map_map, List.mapM_map, mapM_pointwise _ id kwA, List.map_id]
  intro kv hkv
  obtain ⟨v, hv, _⟩ := h kv hkv
  obtain ⟨k, a⟩ := kv
  simp only at hv
  subst hv
  rfl

theorem elems_lits (P : PyVal → Bool) (posA : List Arg) (h : ∀ a ∈ posA, LitP P a) :
    ((posA.map argOut).map SElem.val).map SElem.toArg = posA := by
  rw [List.map_map, List.map_map]
  conv => rhs; rw [← List.map_id posA]
  apply List.map_congr_left
  intro a ha
  obtain ⟨v, rfl, _⟩ := h a ha
  rfl

/-- the stored form round-trips exactly (`LeafRT` of `C11Round.lean`) -/
def RT (l : Leaf Arg) : Prop :=
  ∃ js, leafToJson l = .ok js ∧ ∀ fuel, parseCond (fuel + 3) js = .ok (.leaf l)

/-- scalar literal arguments, no type names written -/
theorem rt_plain (cls : CClass) (info : CondClassInfo) (c : Ctor) (hinfo : cls.info = .ok info)
    (hnull : (cls == .null) = false) (hf : Facts cls info c)
    (hcast : (info.pre == "type" || isInst c.target) = false)
    (posA : List Arg) (kwA : List (String × Arg)) (l : Leaf Arg)
    (hpos : ∀ a ∈ posA, LitP scalarB a) (hkw : ∀ kv ∈ kwA, LitP scalarB kv.2)
    (hkeys : c.varKw.isSome = true → KeysOK (kwA.map (·.1)))
    (hl : buildLeaf Arg.lit cls c posA kwA = .ok l) : RT l := by
  obtain ⟨hfront, hshape, ⟨hsig, hsl, hsvp, hsvk⟩, hcastA⟩ := hf
  unfold CastAgrees keyOf at hcastA
  rw [hcast] at hcastA
  have hpre : (info.pre == "type") = false := by
    cases h : (info.pre == "type") <;> simp_all
  have hins : isInst c.target = false := by
    cases h : isInst c.target <;> simp_all
  have hparse : ∀ fuel val, parseCond (fuel + 3) (.dict [(.str (info.label ++ "." ++ c.target), val)]) =
      parseTail (fuel + 2) cls c val := by
    intro fuel val
    have := hfront (fuel + 2) val
    rw [hpre, hins] at this
    exact this
  rcases buildLeaf_cases Arg.lit cls c hshape posA kwA l hl with
    ⟨hvp, hvk, bound, hb, rfl⟩ | ⟨hvp, hvk, hp, hkw0, rfl⟩ | ⟨hvp, hvk, hp, hpos0, hres, rfl⟩
  · -- no var-parameters
    have hk := bind_keys Arg.lit c.defaults _ _ _ _ hb
    have hvals : ∀ b ∈ bound, LitP scalarB b.2 :=
      bind_vals Arg.lit c.defaults (LitP scalarB) _ _ _ _
        (fun a ha => hpos a (List.mem_of_mem_take ha)) hkw
        (fun d hd => ⟨d.2, rfl, hshape.2.2.2.2.2.2.2.1 d hd⟩) hb
    rw [hvp] at hsvp; rw [hvk] at hsvk
    simp only [Option.isSome_none] at hsvp hsvk
    have hre := rebuild_novar Arg.lit cls c hshape hvp hvk bound hk
    match hps : c.params, hk, hsl with
    | [], hk, hsl =>
      have hb0 : bound = [] := by simpa using hk
      subst hb0
      have hsp : (sigD c.target).params = [] := by simpa using hsl
      refine ⟨_, ser_nullary cls c.target info _ [] [] hnull hinfo hsig hsp hsvp hsvk, ?_⟩
      intro fuel
      rw [hparse]
      exact tail_nullary _ cls c _ _ _ hps hvp hvk (sniff_atom _ _ rfl) hre
    | [p], hk, hsl =>
      obtain ⟨⟨p', a⟩, rfl⟩ : ∃ x, bound = [x] := by
        match bound, hk with
        | [x], _ => exact ⟨x, rfl⟩
      simp only [List.map_cons, List.map_nil, List.cons.injEq, and_true] at hk
      subst hk
      obtain ⟨v, rfl, hv⟩ := hvals (p', a) (by simp)
      have hser := ser_single cls c.target info _ [] p' (.lit v) [] false hnull hinfo hsig
        (by simpa using hsl) hsvp hsvk hcastA (by intro xs h; cases v <;> simp_all [argOut, scalarB])
      refine ⟨_, hser, ?_⟩
      intro fuel
      simp only [argOut]
      rw [hparse]
      exact tail_single _ cls c _ _ _ p' hps hvp hvk (sniff_atom _ _ (atom_of_scalar hv))
        (rebuild_single Arg.lit cls c hshape hvp hvk p' hps _)
    | p :: q :: r, hk, hsl =>
      have hser := ser_kw cls c.target info _ [] bound hnull hinfo hsig
        (Or.inl ⟨by rw [hsl]; simp, hsvp, hsvk⟩) hcastA
      refine ⟨_, hser, ?_⟩
      intro fuel
      rw [hparse]
      have hkeysOK : KeysOK (bound.map (·.1)) := by
        rw [hk]
        refine ⟨fun k hk' => hshape.2.2.2.2.2.2.2.2 k (by rw [hps]; exact hk'), ?_⟩
        intro k hk'; simp at hk'
      have hsn := sniff_dict fuel (bound.map (fun kv => (PyVal.str kv.1, argOut kv.2)))
        (by
          intro kv hkv
          obtain ⟨b, hb', rfl⟩ := List.mem_map.mp hkv
          obtain ⟨v, hv, hs⟩ := hvals b hb'
          simp only [hv, argOut]
          exact atom_of_scalar hs)
        (pps_kw fuel bound hkeysOK)
      exact tail_multi _ cls c _ _ bound _ p q r hps hvp hvk hsn (strKeysS_lits scalarB bound hvals) hre
  · -- var-positional
    have hvpn : c.varPos.isSome = true := hvp
    rw [hvp] at hsvp; rw [hvk] at hsvk; rw [hp] at hsl
    simp only [Option.isSome_none] at hsvk
    have hsp : (sigD c.target).params = [] := by simpa using hsl
    have hys : (posA.map argOut).mapM (fun v => if false then invDtypeLenient v else pure v) =
        .ok (posA.map argOut) := by
      have := mapM_pointwise (fun v => if false then invDtypeLenient v else pure v) id (posA.map argOut)
        (fun _ _ => rfl)
      rw [List.map_id] at this
      exact this
    refine ⟨_, ser_varpos cls c.target info _ posA [] false _ hnull hinfo hsig hsp hsvp hsvk hcastA hys, ?_⟩
    intro fuel
    rw [hparse]
    have hsn := sniff_list fuel (posA.map argOut) (by
      intro x hx
      obtain ⟨a, ha, rfl⟩ := List.mem_map.mp hx
      obtain ⟨v, rfl, hs⟩ := hpos a ha
      exact atom_of_scalar hs)
    refine tail_varpos _ cls c _ _ _ hp hvpn hvk hsn ?_
    rw [elems_lits scalarB posA hpos]
    exact rebuild_varpos Arg.lit cls c hshape hvpn hvk hp posA
  · -- var-keyword
    have hvkn : c.varKw.isSome = true := hvk
    rw [hvp] at hsvp; rw [hvk] at hsvk; rw [hp] at hsl
    simp only [Option.isSome_none] at hsvp
    have hsp : (sigD c.target).params = [] := by simpa using hsl
    have hser := ser_kw cls c.target info _ [] kwA hnull hinfo hsig (Or.inr ⟨hsp, hsvp, hsvk⟩) hcastA
    refine ⟨_, hser, ?_⟩
    intro fuel
    rw [hparse]
    have hsn := sniff_dict fuel (kwA.map (fun kv => (PyVal.str kv.1, argOut kv.2)))
      (by
        intro kv hkv
        obtain ⟨b, hb', rfl⟩ := List.mem_map.mp hkv
        obtain ⟨v, hv, hs⟩ := hkw b hb'
        simp only [hv, argOut]
        exact atom_of_scalar hs)
      (pps_kw fuel kwA (hkeys hvkn))
    exact tail_varkw _ cls c _ _ kwA _ hp hvp hvkn hsn (strKeysS_lits scalarB kwA hkw)
      (rebuild_varkw Arg.lit cls c hshape hvp hvkn hp kwA hres)

/-! ### type objects -/

/-- a value written as a type name that is read back as the value -/
def TypeRT (v : PyVal) : Prop := ∃ n, invDtype v = .ok (.str n) ∧ convType (.str n) = .ok v ∧ atomB v = true

def namedRTB (tn : PyType × String) : Bool :=
  (match invDtype (.type tn.1) with
   | .ok (.str s) => s == tn.2
   | _ => false) &&
  (match convType (.str tn.2) with
   | .ok (.type t) => t == tn.1
   | _ => false)

theorem named_all : invDtypeLookup.all namedRTB = true := by decide +kernel

theorem typeRT_of_named (t : PyType) (n : String) (h : (t, n) ∈ invDtypeLookup) : TypeRT (.type t) := by
  have := List.all_eq_true.mp named_all (t, n) h
  simp only [namedRTB, Bool.and_eq_true] at this
  obtain ⟨h1, h2⟩ := this
  refine ⟨n, ?_, ?_, rfl⟩
  · split at h1
    · rename_i s hs
      simp only [beq_iff_eq] at h1
      rw [hs, h1]
    · cases h1
  · split at h2
    · rename_i t' ht
      simp only [beq_iff_eq] at h2
      rw [ht, h2]
    · cases h2

/-- the name written for a value (`INV_DTYPE_LOOKUP[v]` where there is one) -/
def nameOf (v : PyVal) : PyVal :=
  match invDtype v with
  | .ok s => s
  | .error _ => v

theorem lenient_typeRT (v : PyVal) (h : TypeRT v) : invDtypeLenient v = .ok (nameOf v) := by
  obtain ⟨n, h1, _, _⟩ := h
  simp [invDtypeLenient, nameOf, h1]

theorem conv_nameOf (v : PyVal) (h : TypeRT v) : convType (nameOf v) = .ok v := by
  obtain ⟨n, h1, h2, _⟩ := h
  simp [nameOf, h1, h2]

theorem mapM_conv_names : ∀ (xs : List PyVal), (∀ x ∈ xs, TypeRT x) → (xs.map nameOf).mapM convType = .ok xs
  | [], _ => rfl
  | x :: xs, h => by
      simp only [List.map_cons, List.mapM_cons, conv_nameOf x (h x List.mem_cons_self),
        mapM_conv_names xs (fun y hy => h y (List.mem_cons_of_mem _ hy)), bind, Except.bind, pure, Except.pure]

/-- `equal_to(T)` / `not_equal_to(T)` of a dtype class -/
theorem rt_types_eq (cls : CClass) (info : CondClassInfo) (c : Ctor) (hinfo : cls.info = .ok info)
    (hnull : (cls == .null) = false) (hf : Facts cls info c)
    (hpre : info.pre = "type") (htarget : c.target = "equal_to" ∨ c.target = "not_equal_to")
    (x : Arg) (l : Leaf Arg) (hx : ∃ v, x = .lit v ∧ TypeRT v)
    (hl : buildLeaf Arg.lit cls c [x] [] = .ok l) : RT l := by
  obtain ⟨hfront, hshape, ⟨hsig, hsl, hsvp, hsvk⟩, hcastA⟩ := hf
  unfold CastAgrees keyOf at hcastA
  have hpreb : (info.pre == "type") = true := by simp [hpre]
  have hins : isInst c.target = false := by rcases htarget with h | h <;> rw [h] <;> decide
  have hsd : (sigD c.target).params.length = 1 ∧ (sigD c.target).varPos = false ∧ (sigD c.target).varKw = false := by
    rcases htarget with h | h <;> rw [h] <;> decide
  rw [hpreb, Bool.true_or] at hcastA
  rw [hsd.1] at hsl; rw [hsd.2.1] at hsvp; rw [hsd.2.2] at hsvk
  have hvp : c.varPos = none := by
    cases h : c.varPos with
    | none => rfl
    | some k => rw [h] at hsvp; simp at hsvp
  have hvk : c.varKw = none := by
    cases h : c.varKw with
    | none => rfl
    | some k => rw [h] at hsvk; simp at hsvk
  obtain ⟨p, hps⟩ : ∃ p, c.params = [p] := by
    match h : c.params, hsl with
    | [p], _ => exact ⟨p, rfl⟩
  obtain ⟨v, rfl, n, hinv, hconv, hatom⟩ := hx
  have hre := rebuild_single Arg.lit cls c hshape hvp hvk p hps (.lit v)
  rw [hre] at hl
  cases hl
  have hser := ser_single cls c.target info _ [] p (.lit v) [] true hnull hinfo hsig
    hsd.1 hsd.2.1 hsd.2.2 hcastA (by intro xs h; simp only [argOut] at h; subst h; simp [atomB] at hatom)
  simp only [if_true, argOut, hinv, bind, Except.bind, pure, Except.pure] at hser
  refine ⟨_, hser, ?_⟩
  intro fuel
  have := hfront (fuel + 2) (.str n)
  rw [hpreb, hins] at this
  simp only [if_true, convTypes, hconv, bind, Except.bind, pure, Except.pure] at this
  unfold keyOf at this
  rw [this]
  exact tail_single _ cls c _ _ _ p hps hvp hvk (sniff_atom _ _ hatom) hre

/-- `is_instance(T…)` / `keys_is_instance(T…)` -/
theorem rt_types_inst (cls : CClass) (info : CondClassInfo) (c : Ctor) (hinfo : cls.info = .ok info)
    (hnull : (cls == .null) = false) (hf : Facts cls info c)
    (hpre : info.pre ≠ "type") (htarget : c.target = "is_instance" ∨ c.target = "keys_is_instance")
    (posA : List Arg) (l : Leaf Arg) (hpos : ∀ a ∈ posA, ∃ v, a = .lit v ∧ TypeRT v)
    (hl : buildLeaf Arg.lit cls c posA [] = .ok l) : RT l := by
  obtain ⟨hfront, hshape, ⟨hsig, hsl, hsvp, hsvk⟩, hcastA⟩ := hf
  unfold CastAgrees keyOf at hcastA
  have hpreb : (info.pre == "type") = false := by simp [hpre]
  have hins : isInst c.target = true := by rcases htarget with h | h <;> rw [h] <;> decide
  have hsd : (sigD c.target).params = [] ∧ (sigD c.target).varPos = true ∧ (sigD c.target).varKw = false := by
    rcases htarget with h | h <;> rw [h] <;> decide
  rw [hins, Bool.or_true] at hcastA
  rw [hsd.1] at hsl; rw [hsd.2.1] at hsvp; rw [hsd.2.2] at hsvk
  have hvp : c.varPos.isSome = true := hsvp.symm
  have hvk : c.varKw = none := by
    cases h : c.varKw with
    | none => rfl
    | some k => rw [h] at hsvk; simp at hsvk
  have hp : c.params = [] := by simpa using hsl.symm
  have hre := rebuild_varpos Arg.lit cls c hshape hvp hvk hp posA
  rw [hre] at hl
  cases hl
  have hlit : ∀ a ∈ posA, LitP atomB a := by
    intro a ha
    obtain ⟨v, hv, _, _, _, hat⟩ := hpos a ha
    exact ⟨v, hv, hat⟩
  have hvals : ∀ x ∈ posA.map argOut, TypeRT x := by
    intro x hx
    obtain ⟨a, ha, rfl⟩ := List.mem_map.mp hx
    obtain ⟨v, rfl, hv⟩ := hpos a ha
    exact hv
  have hys : (posA.map argOut).mapM (fun v => if true then invDtypeLenient v else pure v) =
      .ok ((posA.map argOut).map nameOf) :=
    mapM_pointwise _ nameOf _ (fun x hx => lenient_typeRT x (hvals x hx))
  refine ⟨_, ser_varpos cls c.target info _ posA [] true _ hnull hinfo hsig hsd.1 hsd.2.1 hsd.2.2 hcastA hys, ?_⟩
  intro fuel
  have := hfront (fuel + 2) (.list ((posA.map argOut).map nameOf))
  rw [hpreb, hins] at this
  simp only [if_true, Bool.false_eq_true, if_false, convTypes, mapM_conv_names _ hvals, bind, Except.bind, pure,
    Except.pure] at this
  unfold keyOf at this
  rw [this]
  have hsn := sniff_list fuel (posA.map argOut) (fun x hx => (hvals x hx).choose_spec.2.2)
  refine tail_varpos _ cls c _ _ _ hp hvp hvk hsn ?_
  rw [elems_lits atomB posA hlit]
  exact hre

end ValidaProofs.C11R
