/-
  C17 – a data-path argument means the value at that path in the validated document.
-/
import Valida.Rule
import Valida.Spec.Parse
import ValidaProofs.Lemmas.Basic
import ValidaProofs.Lemmas.C17Lemmas
import ValidaProofs.C01
namespace ValidaProofs
open Valida ValidaGen

/-- literals are passed as they are; a path is resolved against the source document (without paths);
    without a source document the path object itself is passed on -/
theorem C17_resolve (doc : PyVal) (v : PyVal) (p : Path) :
    resolveArg (some doc) (.lit v) = .ok v ∧ resolveArg none (.lit v) = .ok v ∧
    resolveArg (some doc) (.path p) = p.getData (some doc) false ∧
    resolveArg none (.path p) = .ok (.obj 0) :=
  ⟨rfl, rfl, rfl, rfl⟩

/-- replacing a path argument by what the path selects in the document -/
def substArg (doc : PyVal) : Arg → Arg
  | .lit v => .lit v
  | .path p => match p.getData (some doc) false with
      | .ok v => .lit v
      | .error _ => .path p

/-- the condition with every resolvable path argument replaced by the selected value behaves, on this
    document, exactly like the original: same resolved condition, hence same rule test – in every leaf
    of a combination, at every depth, positional and keyword arguments alike -/
theorem C17_substitute (c : Cond Arg) (doc : PyVal) :
    (c.mapArgs (substArg doc)).resolve (some doc) = c.resolve (some doc) := by
  have point : ∀ a, resolveArg (some doc) (substArg doc a) = resolveArg (some doc) a := by
    intro a
    cases a with
    | lit v => rfl
    | path p =>
      simp only [substArg]
      cases h : p.getData (some doc) false <;> simp [resolveArg, h]
  unfold Cond.resolve
  rw [C17L.mapArgs_mapArgs]
  exact C17L.mapArgs_congr _ _ point c

theorem C17_substitute_rule (r : RuleM) (doc : PyVal) :
    ruleTestOn { r with cond := r.cond.mapArgs (substArg doc) } doc = ruleTestOn r doc := by
  simp only [ruleTestOn, C17_substitute]

/-- the same source document reaches every leaf of a combination -/
theorem C17_all_leaves (op : BinOp) (a b : Cond Arg) (src : Option PyVal) :
    (Cond.bin op a b).resolve src = .bin op (a.resolve src) (b.resolve src) :=
  rfl

/-- a concrete path that is absent resolves to `None`, a non-concrete one to `[]` -/
theorem C17_absent (p : Path) (doc : PyVal) (paths : List (List PyVal))
    (hsrc : p.source = none) (hdoc : PyVal.truthy doc = true) (hne : p.parts ≠ [])
    (h : walkParts p.parts true [doc] [] = .ok ([], paths)) :
    p.getData (some doc) false = .ok (if p.concrete then .none else .list []) := by
  simp [Path.getData, hsrc, hdoc, hne, h, bind, Except.bind, pure, Except.pure]

/-- resolution happens inside the callable's `try`: when it raises an exception the `except` clause
    catches (`single()` with several matches: ValueError; a datum modifier undefined on the node:
    TypeError / AttributeError) the item fails and nothing escapes -/
theorem C17_resolution_error_fails_item (pre fn : String) (args : List RArg) (kwargs : List (String × RArg))
    (datum processed : PyVal) (e : Exc) (hp : applyPre pre datum = .ok processed)
    (he : e = .valueError ∨ e = .typeError ∨ e = .attributeError)
    (ha : resolveAll args = .error e) :
    evalItem pre fn args kwargs datum = .ok ⟨false, true, false⟩ := by
  have hc : caughtBy catchesFilterCallable e = true := by
    rcases he with rfl | rfl | rfl <;> decide
  simp [evalItem, hp, callLeaf, ha, bind, Except.bind, hc]

/-- a literal mapping written with the escaped key is compared literally: the parser un-escapes the key
    and does not build a data path -/
theorem C17_escaped (fuel : Nat) (v : PyVal) :
    (match parsePathSpec (fuel + 1) (.dict [(.str "\\path", v)]) with
     | .ok s => s.toArg
     | .error _ => Arg.lit .none) = Arg.lit (.dict [(.str "path", v)]) ∧
    parseCond (fuel + 4) (.dict [(.str "value.equal_to", .dict [(.str "\\path", v)])]) =
      .ok (.leaf { cls := .value, fn := "equal_to", args := [], kwargs := [("value", .lit (.dict [(.str "path", v)]))] }) := by
  constructor
  · rw [C17L.pathSpec_escaped]; rfl
  · rw [C17L.parse_value_equal_to (fuel + 3) _ _ (C17L.sniff_escaped _ v)]; rfl

/-- … whereas the un-escaped spelling is a data path -/
theorem C17_path_spec_argument (fuel : Nat) (s : String) (p : Path)
    (hp : fromPartSpecs (fuel + 2) [.str s] = .ok p) :
    parseCond (fuel + 5) (.dict [(.str "value.equal_to", .dict [(.str "path", .list [.str s])])]) =
      .ok (.leaf { cls := .value, fn := "equal_to", args := [], kwargs := [("value", .path p)] }) := by
  rw [C17L.parse_value_equal_to (fuel + 4) _ _ (C17L.sniff_path _ s p hp)]; rfl

end ValidaProofs
