/-
  C13 (headline) – a rule, and a schema, of the serialisable fragment written with `to_json_like()` and
  rebuilt with `from_spec` / `from_json_like` is equal (`Rule.__eq__`, `Schema.__eq__`) to the original,
  casts included.

  The pieces: C11 (`C11_tree_roundtrip`: the condition tree is read back as the very same tree),
  C12 (`C12_roundtrip`: the part specs rebuild a path with pairwise equal parts), C13 (`C13.lean`: the
  cast block, the shape of the written rule, the stable sort).
-/
import Valida.Spec.Parse
import Valida.Spec.Ser
import Valida.Eq
import ValidaProofs.Lemmas.C13Schema
import ValidaProofs.C11Round
import ValidaProofs.C12
import ValidaProofs.C13
namespace ValidaProofs
open Valida ValidaGen

-- STATEMENT CHANGED (with respect to the planned fields cast / wf / leaves / path / built): field `self`
-- added.  `Rule.__eq__` compares the conditions with `Condition.__eq__`, and the rebuilt condition is
-- the very same tree as the original (C11), so `ruleEq` of the rebuilt rule and the original needs the
-- original condition to equal *itself*.  In the model that does not follow from the other fields:
-- keyword arguments are an association list, compared by lookup of each name, so a list with a repeated
-- name is not equal to itself.  Counterexample (evaluated on the model, see the `example` after
-- `RuleRT`): the single condition with `fn := "items_contain"` and
-- `kwargs := [("a", 1), ("a", 2)]` is written as `{"value.items_contain": {"a": 1, "a": 2}}`, read
-- back as the very same condition (so it can satisfy `leaves`), and `condEq` of it with itself is
-- `false`.  (Not a state Python can reach: there `kwargs` is a dict.  Likewise a literal mapping
-- argument with a repeated key is not `pyEq` to itself.)  `C13S.condEq_self` gives the sufficient
-- condition that covers the fragment of C11: keyword names distinct and every stored argument a
-- hashable literal (None, bool, int, float, str, type object).  `C13_rule_roundtrip_parts` below states
-- the round trip without the field: same condition tree, same casts, equal path.
/-- a rule of the serialisable fragment -/
structure RuleRT (r : RuleM) : Prop where
  /-- no cast, or one of the casts of the source tables -/
  cast : r.cast = [] ∨ r.cast = [(PyType.str, "int")] ∨ r.cast = [(PyType.str, "cast_string_to_bool")]
  /-- the condition is a tree as the constructors build it … -/
  wf : WFTree r.cond
  /-- … of single conditions that round-trip (C11: every DSL condition with scalar literal arguments) -/
  leaves : ∀ l ∈ r.cond.leaves, LeafRT l
  /-- the condition equals itself (see `C13S.condEq_self`) -/
  self : condEq r.cond r.cond = true
  /-- the path can be written (C12: plain keys / indices and bare parts, no modifiers) -/
  path : ∃ specs, toPartSpecs r.path = .ok specs
  /-- the path is one that `DataPath(...)` builds (concrete iff every part was given as a key / index) -/
  built : ∃ args, Path.mk' args = .ok r.path

/-- the counterexample behind the field `self`: a keyword list with a repeated name -/
example :
    let l : Leaf Arg := { cls := .value, fn := "items_contain", args := [],
                          kwargs := [("a", .lit (.int 1)), ("a", .lit (.int 2))] }
    condEq (.leaf l) (.leaf l) = false := by decide +kernel

/-- **Rules**: a rule of the serialisable fragment is written, read back (with any fuel from the depth
    of its condition tree plus 3 on), and the rebuilt rule equals the original: same casts, the same
    condition tree, an equal path. -/
theorem C13_rule_roundtrip_eq (r : RuleM) (h : RuleRT r) :
    ∃ js, ruleToJson r = .ok js ∧
      ∀ fuel, ∃ pr, parseRule (fuel + Cond.depthA r.cond + 3) js = .ok pr ∧ ruleEq pr.rule r = true := by
  obtain ⟨c, hc1, hc2⟩ := C11_tree_roundtrip r.cond h.wf h.leaves
  obtain ⟨specs, hs⟩ := h.path
  have key : ∀ cast, C13L.castJson r.cast = .ok cast → parseCasts (some cast) = .ok r.cast →
      ∃ js, ruleToJson r = .ok js ∧
        ∀ fuel, ∃ pr, parseRule (fuel + Cond.depthA r.cond + 3) js = .ok pr ∧ ruleEq pr.rule r = true := by
    intro cast h1 h2
    refine ⟨_, C13L.ruleToJson_of r c cast specs h1 hc1 hs, ?_⟩
    intro fuel
    obtain ⟨p', hp1, hp2⟩ := C13S.path_roundtrip_eq (fuel + Cond.depthA r.cond + 1) r.path specs hs h.built
    refine ⟨_, C13L.parseRule_json _ c cast specs r.cond p' r.cast (hc2 fuel) hp1 h2, ?_⟩
    simp only [ruleEq, hp2, h.self, C13S.castEq_self r.cast h.cast, Bool.and_self]
  rcases h.cast with hk | hk | hk
  · exact key .none (by rw [hk]; exact C13L.castJson_nil) (by rw [hk]; exact C13L.parseCasts_none)
  · exact key _ (by rw [hk]; exact C13L.castJson_str_int) (by rw [hk]; exact C13L.parseCasts_str_int)
  · exact key _ (by rw [hk]; exact C13L.castJson_str_bool) (by rw [hk]; exact C13L.parseCasts_str_bool)

/-- … more precisely: the rebuilt rule has the *same* condition tree and the same casts, and a path
    equal to the original's (`DataPath.__eq__`) – without the `self` hypothesis -/
theorem C13_rule_roundtrip_parts (r : RuleM)
    (hcast : r.cast = [] ∨ r.cast = [(PyType.str, "int")] ∨ r.cast = [(PyType.str, "cast_string_to_bool")])
    (hwf : WFTree r.cond) (hleaves : ∀ l ∈ r.cond.leaves, LeafRT l)
    (hpath : ∃ specs, toPartSpecs r.path = .ok specs) (hbuilt : ∃ args, Path.mk' args = .ok r.path) :
    ∃ js, ruleToJson r = .ok js ∧
      ∀ fuel, ∃ pr, parseRule (fuel + Cond.depthA r.cond + 3) js = .ok pr ∧
        pr.rule.cond = r.cond ∧ pr.rule.cast = r.cast ∧ pathEq pr.rule.path r.path = true ∧ pr.doc = none := by
  obtain ⟨c, hc1, hc2⟩ := C11_tree_roundtrip r.cond hwf hleaves
  obtain ⟨specs, hs⟩ := hpath
  have key : ∀ cast, C13L.castJson r.cast = .ok cast → parseCasts (some cast) = .ok r.cast →
      ∃ js, ruleToJson r = .ok js ∧
        ∀ fuel, ∃ pr, parseRule (fuel + Cond.depthA r.cond + 3) js = .ok pr ∧
          pr.rule.cond = r.cond ∧ pr.rule.cast = r.cast ∧ pathEq pr.rule.path r.path = true ∧ pr.doc = none := by
    intro cast h1 h2
    refine ⟨_, C13L.ruleToJson_of r c cast specs h1 hc1 hs, ?_⟩
    intro fuel
    obtain ⟨p', hp1, hp2⟩ := C13S.path_roundtrip_eq (fuel + Cond.depthA r.cond + 1) r.path specs hs hbuilt
    exact ⟨_, C13L.parseRule_json _ c cast specs r.cond p' r.cast (hc2 fuel) hp1 h2, rfl, rfl, hp2, rfl⟩
  rcases hcast with hk | hk | hk
  · exact key .none (by rw [hk]; exact C13L.castJson_nil) (by rw [hk]; exact C13L.parseCasts_none)
  · exact key _ (by rw [hk]; exact C13L.castJson_str_int) (by rw [hk]; exact C13L.parseCasts_str_int)
  · exact key _ (by rw [hk]; exact C13L.castJson_str_bool) (by rw [hk]; exact C13L.parseCasts_str_bool)

/-- fuel that reads every rule of the schema back: the deepest condition tree plus 3 -/
def schemaFuel (rs : List RuleM) : Nat := (rs.map (fun r => Cond.depthA r.cond)).foldr max 0 + 3

theorem depth_le_schemaFuel (rs : List RuleM) (r : RuleM) (hr : r ∈ rs) :
    Cond.depthA r.cond + 3 ≤ schemaFuel rs := by
  unfold schemaFuel
  induction rs with
  | nil => cases hr
  | cons x xs ih =>
    simp only [List.map_cons, List.foldr_cons]
    rcases List.mem_cons.1 hr with rfl | hr
    · omega
    · have := ih hr; omega

/-- **Schemas**: a schema (its rules in applied order, as `Schema.__init__` keeps them) of rules of the
    serialisable fragment is written rule by rule, read back and re-sorted by `Schema.__init__`, and
    the rebuilt schema equals the original (`Schema.__eq__`: the rules pairwise equal, in order). -/
theorem C13_schema_roundtrip (rs : List RuleM) (h : ∀ r ∈ rs, RuleRT r) (hsorted : Schema.mk' rs = rs) :
    ∃ js, schemaToJson rs = .ok js ∧
      ∀ fuel, ∃ rs', parseSchema (fuel + schemaFuel rs) js = .ok rs' ∧ schemaEq rs' rs = true := by
  obtain ⟨jss, hj⟩ := C13S.mapM_ok_of_forall ruleToJson rs (fun r hr => by
    obtain ⟨js, h1, _⟩ := C13_rule_roundtrip_eq r (h r hr)
    exact ⟨js, h1⟩)
  refine ⟨.list jss, by rw [C13_schema_json, hj]; rfl, ?_⟩
  intro fuel
  have hall : ∀ r ∈ rs, ∀ js, ruleToJson r = .ok js →
      ∃ pr, parseRule (fuel + schemaFuel rs) js = .ok pr ∧ ruleEq pr.rule r = true := by
    intro r hr js hjs
    obtain ⟨js', g1, g2⟩ := C13_rule_roundtrip_eq r (h r hr)
    rw [hjs] at g1; cases g1
    have hle := depth_le_schemaFuel rs r hr
    obtain ⟨pr, g3, g4⟩ := g2 (fuel + schemaFuel rs - (Cond.depthA r.cond + 3))
    rw [show fuel + schemaFuel rs - (Cond.depthA r.cond + 3) + Cond.depthA r.cond + 3 = fuel + schemaFuel rs by
      omega] at g3
    exact ⟨pr, g3, g4⟩
  obtain ⟨rs', h1, h2⟩ := C13S.rules_roundtrip (fuel + schemaFuel rs) rs jss hj hall
  refine ⟨rs', ?_, h2⟩
  rw [C13S.parseSchema_eq, h1]
  simp only [bind, Except.bind, pure, Except.pure, C13S.sorted_of_listEq rs' rs h2 hsorted]

/-- … for any list of rules of the fragment, the schema `Schema(rules)` (which sorts them) round-trips -/
theorem C13_schema_roundtrip_sorted (rs : List RuleM) (h : ∀ r ∈ rs, RuleRT r) :
    ∃ js, schemaToJson (Schema.mk' rs) = .ok js ∧
      ∀ fuel, ∃ rs', parseSchema (fuel + schemaFuel (Schema.mk' rs)) js = .ok rs' ∧
        schemaEq rs' (Schema.mk' rs) = true :=
  C13_schema_roundtrip (Schema.mk' rs) (fun r hr => h r ((C06L.mk'_perm rs).mem_iff.1 hr))
    (C13_sort_idempotent rs)

/-! ### non-vacuity: a concrete two-rule schema of the fragment -/

/-- `Rule(path=("b",), condition=Value.in_range(1, 5) & Value.truthy())` -/
def exRuleB : RuleM :=
  { path := { parts := [{ kind := .map, cond := eqLeaf .key (.str "b"), listCond := Cond.null, mapCond := Cond.null, label := none }],
              concrete := true, datum := .none, multi := .none, source := none },
    cond := .bin .and
      (.leaf { cls := .value, fn := "in_range", args := [],
               kwargs := [("lower", .lit (.int 1)), ("upper", .lit (.int 5))] })
      (.leaf { cls := .value, fn := "truthy", args := [], kwargs := [] }),
    cast := [] }

/-- `Rule(path=("a", ListValue()), condition=Value.less_than(3), cast={str: int})` -/
def exRuleA : RuleM :=
  { path := { parts := [{ kind := .map, cond := eqLeaf .key (.str "a"), listCond := Cond.null, mapCond := Cond.null, label := none },
                        barePart .list],
              concrete := false, datum := .none, multi := .none, source := none },
    cond := .leaf { cls := .value, fn := "less_than", args := [], kwargs := [("value", .lit (.int 3))] },
    cast := [(PyType.str, "int")] }

/-- a single condition built by a DSL call whose hypotheses hold round-trips -/
theorem leafRT_of_call (cls : CClass) (name : String) (pos : List PyVal) (l : Leaf Arg)
    (h : leafHypsB cls name pos [] = true)
    (hl : Dsl.call Arg.lit cls name (pos.map Arg.lit) [] = .ok (.leaf l)) : LeafRT l := by
  obtain ⟨l', h1, h2⟩ := C11_call_roundtrip cls name pos [] h
  rw [show ([] : List (String × PyVal)).map (fun kv => (kv.1, Arg.lit kv.2)) = [] from rfl, hl] at h1
  cases h1
  exact h2

theorem exRuleB_rt : RuleRT exRuleB where
  cast := Or.inl rfl
  wf := ⟨trivial, trivial, rfl, rfl, rfl⟩
  leaves := by
    intro l hl
    simp only [exRuleB, Cond.leaves, List.cons_append, List.nil_append, List.mem_cons, List.not_mem_nil,
      or_false] at hl
    rcases hl with rfl | rfl
    · exact leafRT_of_call .value "in_range" [.int 1, .int 5] _ (by decide +kernel) rfl
    · exact leafRT_of_call .value "truthy" [] _ (by decide +kernel) rfl
  self := by decide +kernel
  path := ⟨[.str "b"], C12_prims_roundtrip [.str "b"] _ (by simp) rfl⟩
  built := ⟨[.prim (.str "b")], rfl⟩

theorem exRuleA_rt : RuleRT exRuleA where
  cast := Or.inr (Or.inl rfl)
  wf := trivial
  leaves := by
    intro l hl
    simp only [exRuleA, Cond.leaves, List.mem_cons, List.not_mem_nil, or_false] at hl
    subst hl
    exact leafRT_of_call .value "less_than" [.int 3] _ (by decide +kernel) rfl
  self := by decide +kernel
  path := ⟨[.str "a", .dict [(.str "type", .str "list_value")]], by
    refine (C12L.toPartSpecs_ok _ _).2 ⟨⟨rfl, rfl, rfl⟩, rfl, ?_, Or.inr rfl⟩
    refine (C12L.mapM_cons_ok _ _ _ _).2 ⟨_, _, C12L.emit_str "a", ?_, rfl⟩
    rfl⟩
  built := ⟨[.prim (.str "a"), .part (barePart .list)], rfl⟩

/-- the schema `[exRuleB, exRuleA]` (in applied order: shorter path first) is written, read back with
    fuel 4 or more, and the rebuilt schema equals it -/
theorem C13_schema_roundtrip_example :
    ∃ js, schemaToJson [exRuleB, exRuleA] = .ok js ∧
      ∀ fuel, ∃ rs', parseSchema (fuel + 4) js = .ok rs' ∧ schemaEq rs' [exRuleB, exRuleA] = true := by
  refine C13_schema_roundtrip [exRuleB, exRuleA] ?_ ?_
  · intro r hr
    simp only [List.mem_cons, List.not_mem_nil, or_false] at hr
    rcases hr with rfl | rfl
    · exact exRuleB_rt
    · exact exRuleA_rt
  · unfold Schema.mk'
    refine List.mergeSort_of_pairwise ?_
    simp [exRuleB, exRuleA, ruleLe]

end ValidaProofs
