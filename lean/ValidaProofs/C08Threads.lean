/-
  C08 (schedules) – "validating several documents against one schema in any order or interleaving
  gives the same results as doing each on freshly built objects … hence any thread schedule, since
  only reads are shared".

  For the store model: any number of validations, each a program `alloc doc :: writes` (Valida.Sched),
  interleaved in ANY schedule over one store, leave every cell the caller had as it was, and each
  thread's working copy ends up denoting exactly the value it denotes when that validation runs alone.
  (What is not modelled: the interpreter – the theorem is about allocation and write actions as atomic
  steps; CPython's GIL makes each bytecode atomic, and since no action of one thread touches what another
  reads, a finer granularity interleaves the same commuting steps.)
-/
import Valida.Sched
import ValidaProofs.C08
import ValidaProofs.Lemmas.C08ThreadsRun
namespace ValidaProofs
open Valida Valida.Sched

/-- every thread of the list has finished -/
def AllDone (ts : List Thread) : Prop := ∀ t ∈ ts, t.pending = []

/-- the initial threads: one validation program per (document value, write list) -/
def initial (jobs : List (PyVal × List (List PyVal × PyVal))) : List Thread :=
  jobs.map (fun j => { pending := program j.1 j.2, root := none })

/-- **The caller's cells are never written, whatever the schedule.** -/
theorem C08_interleaving_callers_cells (fuel : Nat) (s0 : Store)
    (jobs : List (PyVal × List (List PyVal × PyVal))) (sched : List Nat) :
    ∀ i, i < s0.size → (run fuel s0 (initial jobs) sched).1[i]? = s0[i]? := by
  obtain ⟨A, Φ, I⟩ := C08T.inv_run fuel s0 jobs sched _ _ _ _ (C08T.inv_init fuel s0 jobs)
  exact I.below

/-- **Any complete schedule gives every validation the result it has alone**: once all threads have
    finished, the k-th thread's working copy denotes the value that the same program produces when run
    alone from the initial store. -/
theorem C08_interleaving_same_results (fuel fuel' : Nat) (s0 : Store)
    (jobs : List (PyVal × List (List PyVal × PyVal))) (sched : List Nat)
    (hdone : AllDone (run fuel s0 (initial jobs) sched).2) :
    ∀ k (hk : k < jobs.length), ∃ t r,
      (run fuel s0 (initial jobs) sched).2[k]? = some t ∧ t.root = some r ∧
      Store.read (run fuel s0 (initial jobs) sched).1 fuel' r =
        Store.read (alone fuel s0 jobs[k].1 jobs[k].2).1 fuel' (alone fuel s0 jobs[k].1 jobs[k].2).2 := by
  obtain ⟨A, Φ, I⟩ := C08T.inv_run fuel s0 jobs sched _ _ _ _ (C08T.inv_init fuel s0 jobs)
  intro k hk
  exact C08T.inv_done I hdone k hk fuel'

/-- in particular two schedules agree on every thread's result -/
theorem C08_schedule_independent (fuel fuel' : Nat) (s0 : Store)
    (jobs : List (PyVal × List (List PyVal × PyVal))) (sched₁ sched₂ : List Nat)
    (h₁ : AllDone (run fuel s0 (initial jobs) sched₁).2) (h₂ : AllDone (run fuel s0 (initial jobs) sched₂).2) :
    ∀ k (hk : k < jobs.length), ∃ r₁ r₂,
      ((run fuel s0 (initial jobs) sched₁).2[k]?).bind (·.root) = some r₁ ∧
      ((run fuel s0 (initial jobs) sched₂).2[k]?).bind (·.root) = some r₂ ∧
      Store.read (run fuel s0 (initial jobs) sched₁).1 fuel' r₁ =
        Store.read (run fuel s0 (initial jobs) sched₂).1 fuel' r₂ := by
  intro k hk
  obtain ⟨t₁, r₁, e₁, q₁, v₁⟩ := C08_interleaving_same_results fuel fuel' s0 jobs sched₁ h₁ k hk
  obtain ⟨t₂, r₂, e₂, q₂, v₂⟩ := C08_interleaving_same_results fuel fuel' s0 jobs sched₂ h₂ k hk
  exact ⟨r₁, r₂, by rw [e₁]; exact q₁, by rw [e₂]; exact q₂, by rw [v₁, v₂]⟩

/-! ### non-vacuity -/

namespace C08T.Example

/-- the caller's document `{"a": "1", "b": ["2"]}` -/
def doc : PyVal := .dict [(.str "a", .str "1"), (.str "b", .list [.str "2"])]

/-- two validations of it: one casts `a` to `1`, the other casts `b[0]` to `2` and `a` to `True` -/
def jobs : List (PyVal × List (List PyVal × PyVal)) :=
  [(doc, [([.str "a"], .int 1)]),
   (doc, [([.str "b", .int 0], .int 2), ([.str "a"], .bool true)])]

def isStr (s : String) : PyVal → Bool
  | .str t => t == s
  | _ => false

def isInt (n : Int) : PyVal → Bool
  | .int m => m == n
  | _ => false

def isTrue : PyVal → Bool
  | .bool b => b
  | _ => false

/-- the value is exactly `{"a": x, "b": [y]}` with `pa x` and `pb y` (structural, not Python `==`:
    `1` and `True` are told apart) -/
def shape (o : Option PyVal) (pa pb : PyVal → Bool) : Bool :=
  match o with
  | some (.dict [(.str ka, x), (.str kb, .list [y])]) => ka == "a" && kb == "b" && pa x && pb y
  | _ => false

/-- run the schedule over the store holding the caller's document: all threads finish, the first copy
    reads `{"a": 1, "b": ["2"]}`, the second `{"a": True, "b": [2]}`, the caller's document still
    `{"a": "1", "b": ["2"]}` -/
def ok (sched : List Nat) : Bool :=
  let (s0, root) := Store.alloc #[] 10 doc
  let (s, ts) := run 10 s0 (initial jobs) sched
  ts.all (fun t => t.pending.isEmpty) &&
  shape (Store.read s 10 root) (isStr "1") (isStr "2") &&
  (match ts with
   | [t₁, t₂] =>
     (match t₁.root, t₂.root with
      | some r₁, some r₂ =>
        shape (Store.read s 10 r₁) (isInt 1) (isStr "2") && shape (Store.read s 10 r₂) isTrue (isInt 2)
      | _, _ => false)
   | _ => false)

end C08T.Example

/-- two complete schedules of the two validations – one after the other, and interleaved – give each
    its own result and leave the caller's document as it was; an incomplete schedule is recognised -/
example :
    C08T.Example.ok [0, 0, 1, 1, 1] = true ∧ C08T.Example.ok [1, 0, 1, 0, 1] = true ∧
    C08T.Example.ok [0, 1, 0, 1] = false := by
  decide +kernel

end ValidaProofs
