/-
  C09 (headline) – every condition the Python DSL can build from literal arguments can be written as a
  spec `<datum>[.<pre-processor>].<callable>: args`, and that spec – in any letter case, with the
  aliases type/dtype, len/length, in/in_, eq/lt/…, type names in place of types, the arguments given as
  scalar, list / tuple or mapping as the callable's signature admits, and in and / or / xor lists –
  parses to the very condition the DSL call builds.  Uniformly over the generated tables: every class,
  every constructor of the class (aliases included), every spelling of the key (`SpellingOf`), every
  admitted form of the argument value (`ArgForm`).

  Fragment: the argument values are scalar literals or type objects (`SpecAtom`), a single argument may
  also be a list / tuple of them (`SpecArg`: `in_([1, 2])`); the conversions of type names
  (`value.dtype.…`, `is_instance`, `keys_is_instance`) are the parser's own `convTypes` (`SpecValue`):
  any value it accepts – a name in any case, `map` for `dict`, a type object, a list of these – is
  covered.  Outside: mappings / nested lists / data paths as arguments (finding D11), and DSL calls
  that mix positional and keyword arguments (a spec gives either all positionals or all keywords).
-/
import Valida.Spec.Parse
import Valida.Dsl
import ValidaProofs.Lemmas.Basic
import ValidaProofs.Lemmas.C09SpecFront
import ValidaProofs.Lemmas.C09SpecTail
import ValidaProofs.Lemmas.C09SpecFold
import ValidaProofs.C09
import ValidaProofs.C11Round
namespace ValidaProofs
open Valida ValidaGen

/-! ### which keys spell a constructor of a class -/

/-- the callable token names constructor `c`: after `CALLABLE_LOOKUP.get(tok, tok)` (the alias `in` for
    `in_`) it is the lower-cased name of `c` – the classmethod's own name or one of its aliases
    (`eq`, `lt`, …: aliases are constructors of the class in their own right, `ctorsOf`) -/
def CallableTok (c : Ctor) (tok : String) : Prop :=
  c.name.toList.map Char.toLower = ((lookupStr tok callableLookup).getD tok).toList

/-- `k` spells constructor `c` of class `cls`: its dot-tokens, lower-cased (`str.lower`, hence any
    letter case), are
    * `datum.callable` with the datum token (`value` / `key` / `index`) naming `cls` itself, or
    * `datum.pre.callable` with the datum token naming a class `base`, and `pre` any token that
      `PRE_PROC_LOOKUP` maps (`type`/`dtype`, `len`/`length`) to the class property of `base` that
      returns `cls`;
    and the callable token names `c` -/
def SpellingOf (cls : CClass) (c : Ctor) (k : String) : Prop :=
  (∃ d fn, (splitDot k).mapM pyLower = .ok [d, fn] ∧
      lookupStr d conditionDatumTypes = some cls.name ∧ CallableTok c fn) ∨
  (∃ d p fn pp, ∃ (base : CClass) (cp : String × String × String),
      (splitDot k).mapM pyLower = .ok [d, p, fn] ∧
      lookupStr d conditionDatumTypes = some base.name ∧ lookupStr p preProcLookup = some pp ∧
      classProps.find? (fun cp => cp.1 == base.name && cp.2.1 == pp) = some cp ∧ cp.2.2 = cls.name ∧
      CallableTok c fn)

/-! ### which argument values stand for which call -/

/-- the literals of the fragment: scalars and type objects -/
def SpecAtom (v : PyVal) : Prop := ScalarLit v ∨ ∃ t, v = .type t

/-- a single argument: a literal, or a list / tuple of literals (`in_([1, 2])`) -/
def SpecArg (v : PyVal) : Prop :=
  SpecAtom v ∨ ∃ xs, (v = .list xs ∨ v = .tuple xs) ∧ ∀ x ∈ xs, SpecAtom x

/-- the conversions of type names the key asks for: for a dtype class the value (a name, a type, or a
    list of them), and for the two instance tests the value again – the parser's own `convTypes` -/
def SpecValue (info : CondClassInfo) (c : Ctor) (val : PyVal) : R := do
  let v1 ← (if info.pre == "type" then convTypes val else pure val)
  if c.target == "is_instance" || c.target == "keys_is_instance" then convTypes v1 else pure v1

/-- keyword arguments written as a mapping -/
def kwMapping (kw : List (String × PyVal)) : PyVal := .dict (kw.map (fun kv => (PyVal.str kv.1, kv.2)))

/-- the (converted) argument value `val` stands for the call with positional arguments `pos` and
    keyword arguments `kw`, as the signature of `c` admits:
    * no parameter: any literal (it is ignored), for the call without arguments;
    * one parameter: the value itself (a literal or a list / tuple of literals), for the call with it;
    * several parameters: the list or the tuple of the positional literals, or the mapping of the
      keyword literals;
    * `*args`: the list of the literals;
    * `**kwargs`: the mapping of the keyword literals, whose names must not make it look like a
      data-path spec (`PlainKwNames`, finding D11) -/
def ArgForm (c : Ctor) (val : PyVal) (pos : List PyVal) (kw : List (String × PyVal)) : Prop :=
  (c.varPos = none ∧ c.varKw = none ∧ c.params = [] ∧ SpecAtom val ∧ pos = [] ∧ kw = []) ∨
  (c.varPos = none ∧ c.varKw = none ∧ c.params.length = 1 ∧ SpecArg val ∧ pos = [val] ∧ kw = []) ∨
  (c.varPos = none ∧ c.varKw = none ∧ 1 < c.params.length ∧ (val = .list pos ∨ val = .tuple pos) ∧ kw = [] ∧
    ∀ v ∈ pos, SpecAtom v) ∨
  (c.varPos = none ∧ c.varKw = none ∧ 1 < c.params.length ∧ val = kwMapping kw ∧ pos = [] ∧
    ∀ kv ∈ kw, SpecAtom kv.2) ∨
  (c.varPos.isSome = true ∧ val = .list pos ∧ kw = [] ∧ ∀ v ∈ pos, SpecAtom v) ∨
  (c.varKw.isSome = true ∧ val = kwMapping kw ∧ pos = [] ∧ PlainKwNames kw ∧ ∀ kv ∈ kw, SpecAtom kv.2)

/-- **A spec is the DSL call it spells.**  For every class, every constructor of the class, every key
    that spells the constructor, every argument value in a form the signature admits (after the
    conversion of type names the key asks for): the one-key mapping `{k: val}` parses to exactly the
    condition `l` that the DSL call `cls.c(*pos, **kw)` builds. -/
theorem C09_spec_is_dsl (cls : CClass) (info : CondClassInfo) (c : Ctor) (k : String) (val val' : PyVal)
    (pos : List PyVal) (kw : List (String × PyVal)) (l : Leaf Arg)
    (hinfo : cls.info = .ok info) (hcls : cls ≠ .null) (hc : c ∈ ctorsOf info)
    (hk : SpellingOf cls c k)
    (hval : SpecValue info c val = .ok val') (hform : ArgForm c val' pos kw)
    (hl : buildLeaf Arg.lit cls c (pos.map Arg.lit) (kw.map (fun kv => (kv.1, Arg.lit kv.2))) = .ok l) :
    ∀ fuel, parseCond (fuel + 3) (.dict [(.str k, val)]) = .ok (.leaf l) := by
  intro fuel
  have hnull : (cls == .null) = false := by simpa using hcls
  have hshape := (C11R.facts_at cls info c hinfo hnull hc).2.1
  have hat : ∀ v, SpecAtom v → C11R.atomB v = true := by
    intro v hv
    rcases hv with hv | ⟨t, rfl⟩
    · cases v <;> first | rfl | exact hv.elim
    · rfl
  -- the key: class, pre-processor, constructor
  have hfront : parseCond (fuel + 3) (.dict [(.str k, val)]) = C11R.parseTail (fuel + 2) cls c val' := by
    have h : parseCond (fuel + 3) (.dict [(.str k, val)]) =
        (do let v ← SpecValue info c val; C11R.parseTail (fuel + 2) cls c v) := by
      rcases hk with ⟨d, fn, htoks, hd, htok⟩ | ⟨d, p, fn, pp, base, cp, htoks, hd, hp, hcp, hcpn, htok⟩
      · rw [C09S.front_spelling2 cls info c hinfo hc k d fn htoks hd htok (fuel + 2) val]
        simp only [SpecValue, C11R.isInst, bind_assoc]
        rfl
      · rw [C09S.front_spelling3 cls info c hinfo hc k d p fn pp base cp htoks hd hp hcp hcpn htok (fuel + 2) val]
        simp only [SpecValue, C11R.isInst, bind_assoc]
        rfl
    rw [h, hval]; rfl
  rw [hfront]
  -- the argument value
  rcases hform with ⟨hvp, hvk, hp, hv, rfl, rfl⟩ | ⟨hvp, hvk, hp, hv, rfl, rfl⟩ |
    ⟨hvp, hvk, hp, hv | hv, rfl, hpos⟩ | ⟨hvp, hvk, hp, rfl, rfl, hkw⟩ | ⟨hvp, rfl, rfl, hpos⟩ |
    ⟨hvk, rfl, rfl, hplain, hkw⟩
  · exact C09S.form_nullary cls c (fuel) l val' hvp hvk hp (hat _ hv) hl
  · rcases hv with hv | ⟨xs, rfl | rfl, hxs⟩
    · exact C09S.form_single cls c fuel l val' hvp hvk hp (hat _ hv) hl
    · exact C09S.form_single_list cls c fuel l xs (fun x hx => hat x (hxs x hx)) hvp hvk hp hl
    · exact C09S.form_single_tuple cls c fuel l xs (fun x hx => hat x (hxs x hx)) hvp hvk hp hl
  · subst hv; exact C09S.form_multi_list cls c fuel pos l (fun v hv => hat v (hpos v hv)) hvp hvk hp hl
  · subst hv; exact C09S.form_multi_tuple cls c fuel pos l (fun v hv => hat v (hpos v hv)) hvp hvk hp hl
  · exact C09S.form_multi_dict cls info c hc hshape fuel kw l (fun kv hkv => hat _ (hkw kv hkv)) hvp hvk hp hl
  · exact C09S.form_varpos cls c hshape fuel pos l (fun v hv => hat v (hpos v hv)) hvp hl
  · refine C09S.form_varkw cls c hshape fuel kw l (fun kv hkv => hat _ (hkw kv hkv)) hvk ?_ hl
    obtain ⟨h1, h2⟩ := hplain
    refine ⟨?_, ?_⟩
    · intro k hk
      obtain ⟨kv, hkv, rfl⟩ := List.mem_map.mp hk
      exact h1 kv hkv
    · intro k hk
      match kw, hk, h2 with
      | [(k', v)], hk, h2 =>
        simp only [List.map_cons, List.map_nil, List.cons.injEq, and_true] at hk
        subst hk
        exact h2 k' v rfl

/-- … stated against `Dsl.call`: the spec parses to what the DSL call by the constructor's name returns -/
theorem C09_spec_is_dsl_call (cls : CClass) (info : CondClassInfo) (c : Ctor) (k : String) (val val' : PyVal)
    (pos : List PyVal) (kw : List (String × PyVal)) (l : Leaf Arg)
    (hinfo : cls.info = .ok info) (hcls : cls ≠ .null) (hc : c ∈ ctorsOf info)
    (hk : SpellingOf cls c k)
    (hval : SpecValue info c val = .ok val') (hform : ArgForm c val' pos kw)
    (hl : buildLeaf Arg.lit cls c (pos.map Arg.lit) (kw.map (fun kv => (kv.1, Arg.lit kv.2))) = .ok l) :
    ∀ fuel, parseCond (fuel + 3) (.dict [(.str k, val)]) =
      Dsl.call Arg.lit cls c.name (pos.map Arg.lit) (kw.map (fun kv => (kv.1, Arg.lit kv.2))) := by
  intro fuel
  rw [C09_spec_is_dsl cls info c k val val' pos kw l hinfo hcls hc hk hval hform hl fuel]
  have hnull : (cls == .null) = false := by simpa using hcls
  have hfind := C09S.find_by_name info c hc
  simp [Dsl.call, findCtor, hinfo, hnull, hfind, hl, bind, Except.bind, pure, Except.pure]

/-! ### and / or / xor lists -/

/-- an operator list (or tuple) of specs that parse to `c₁ … cₙ` parses to the left fold of `&` / `|` /
    `^` over them, starting from the null condition (`C09_fold`, for any operator and any items) -/
theorem C09_spec_fold (fuel : Nat) (op : BinOp) (specs : List PyVal) (cs : List (Cond Arg))
    (h : C09S.AllParse fuel specs cs) :
    parseCond (fuel + 1) (.dict [(.str op.symbol, .list specs)]) =
      cs.foldlM (fun acc c => Cond.mkBin op acc c) Cond.null ∧
    parseCond (fuel + 1) (.dict [(.str op.symbol, .tuple specs)]) =
      cs.foldlM (fun acc c => Cond.mkBin op acc c) Cond.null := by
  rw [C09S.parse_op_list, C09S.parse_op_tuple, C09S.fold_parsed fuel op specs cs _ h]
  exact ⟨rfl, rfl⟩

mutual
/-- spec trees and the conditions they denote: a leaf spec that parses (with any fuel from 3 on) to a
    single condition – what `C09_spec_is_dsl` provides –, or an operator list of spec trees, denoting
    the left fold of the DSL's `&` / `|` / `^` (`Cond.mkBin`) over what the items denote -/
inductive SpecTree : PyVal → Cond Arg → Prop
  | leaf (s : PyVal) (l : Leaf Arg) (h : ∀ fuel, parseCond (fuel + 3) s = .ok (.leaf l)) : SpecTree s (.leaf l)
  | node (op : BinOp) (specs : List PyVal) (cs : List (Cond Arg)) (c : Cond Arg)
      (hs : SpecTrees specs cs) (hc : cs.foldlM (fun acc c => Cond.mkBin op acc c) Cond.null = .ok c) :
      SpecTree (.dict [(.str op.symbol, .list specs)]) c
inductive SpecTrees : List PyVal → List (Cond Arg) → Prop
  | nil : SpecTrees [] []
  | cons (s : PyVal) (c : Cond Arg) (ss : List PyVal) (cs : List (Cond Arg))
      (h : SpecTree s c) (hs : SpecTrees ss cs) : SpecTrees (s :: ss) (c :: cs)
end

mutual
/-- **Spec trees**: a spec tree parses (given enough fuel for its depth) to the condition it denotes,
    i.e. to the tree the DSL builds from the DSL-built leaves -/
theorem C09_spec_tree : ∀ {s : PyVal} {c : Cond Arg}, SpecTree s c →
    ∃ N, ∀ fuel, parseCond (fuel + N) s = .ok c
  | _, _, .leaf s l h => ⟨3, h⟩
  | _, _, .node op specs cs c hs hc => by
      obtain ⟨N, hN⟩ := C09_spec_trees hs
      refine ⟨N + 1, fun fuel => ?_⟩
      rw [← Nat.add_assoc, (C09_spec_fold (fuel + N) op specs cs (hN fuel)).1, hc]
theorem C09_spec_trees : ∀ {ss : List PyVal} {cs : List (Cond Arg)}, SpecTrees ss cs →
    ∃ N, ∀ fuel, C09S.AllParse (fuel + N) ss cs
  | _, _, .nil => ⟨0, fun _ => trivial⟩
  | _, _, .cons s c ss cs h hs => by
      obtain ⟨N1, h1⟩ := C09_spec_tree h
      obtain ⟨N2, h2⟩ := C09_spec_trees hs
      refine ⟨N1 + N2, fun fuel => ⟨?_, ?_⟩⟩
      · have := h1 (fuel + N2)
        rwa [show fuel + N2 + N1 = fuel + (N1 + N2) by omega] at this
      · have := h2 (fuel + N1)
        rwa [show fuel + N1 + N2 = fuel + (N1 + N2) by omega] at this
end

/-! ### non-vacuity: concrete specs against concrete DSL calls (hypotheses checked by evaluation) -/

/-- the constructor of `cls` called `name` (for the examples) -/
def ctorNamed (cls : CClass) (name : String) : Ctor :=
  match cls.info with
  | .ok info =>
      ((ctorsOf info).find? (fun c => c.name == name)).getD
        ⟨"", [], [], none, none, "", [], false, [], false⟩
  | .error _ => ⟨"", [], [], none, none, "", [], false, [], false⟩

/-- `{"Value.In_Range": [1, 5]}` is `Value.in_range(1, 5)` (list of positionals, mixed case) -/
example : ∀ fuel, parseCond (fuel + 3) (.dict [(.str "Value.In_Range", .list [.int 1, .int 5])]) =
    Dsl.call Arg.lit .value "in_range" [.lit (.int 1), .lit (.int 5)] [] :=
  C09_spec_is_dsl_call .value _ (ctorNamed .value "in_range") "Value.In_Range" _ _ [.int 1, .int 5] [] _
    rfl (by decide) (List.mem_of_find?_eq_some (p := fun c => c.name == "in_range") rfl)
    (Or.inl ⟨"value", "in_range", rfl, rfl, rfl⟩) rfl
    (Or.inr (Or.inr (Or.inl ⟨rfl, rfl, by decide, Or.inl rfl, rfl,
      by intro v hv; simp at hv; rcases hv with rfl | rfl <;> exact Or.inl trivial⟩))) rfl

/-- `{"value.in_range": {"upper": 5, "lower": 1}}` is `Value.in_range(upper=5, lower=1)` (mapping of
    keywords, in any order) -/
example : ∀ fuel, parseCond (fuel + 3)
      (.dict [(.str "value.in_range", .dict [(.str "upper", .int 5), (.str "lower", .int 1)])]) =
    Dsl.call Arg.lit .value "in_range" [] [("upper", .lit (.int 5)), ("lower", .lit (.int 1))] :=
  C09_spec_is_dsl_call .value _ (ctorNamed .value "in_range") "value.in_range" _ _ []
    [("upper", .int 5), ("lower", .int 1)] _
    rfl (by decide) (List.mem_of_find?_eq_some (p := fun c => c.name == "in_range") rfl)
    (Or.inl ⟨"value", "in_range", rfl, rfl, rfl⟩) rfl
    (Or.inr (Or.inr (Or.inr (Or.inl ⟨rfl, rfl, by decide, rfl, rfl,
      by intro kv hkv; simp at hkv; rcases hkv with rfl | rfl <;> exact Or.inl trivial⟩)))) rfl

/-- `{"KEY.EQ": "a"}` is `Key.eq("a")` (upper case, alias constructor) -/
example : ∀ fuel, parseCond (fuel + 3) (.dict [(.str "KEY.EQ", .str "a")]) =
    Dsl.call Arg.lit .key "eq" [.lit (.str "a")] [] :=
  C09_spec_is_dsl_call .key _ (ctorNamed .key "eq") "KEY.EQ" (.str "a") (.str "a") [.str "a"] [] _
    rfl (by decide) (List.mem_of_find?_eq_some (p := fun c => c.name == "eq") rfl)
    (Or.inl ⟨"key", "eq", rfl, rfl, rfl⟩) rfl
    (Or.inr (Or.inl ⟨rfl, rfl, rfl, Or.inl (Or.inl trivial), rfl, rfl⟩)) rfl

/-- `{"value.length.lt": 3}` and `{"Value.LEN.lt": 3}` are `ValueLength.lt(3)` (pre-processor aliases);
    `{"VALUE.Len.IN": [1, 2]}` is `ValueLength.in_([1, 2])` (callable alias, a list as the argument) -/
example : ∀ fuel, parseCond (fuel + 3) (.dict [(.str "value.length.lt", .int 3)]) =
      Dsl.call Arg.lit .valueLength "lt" [.lit (.int 3)] [] ∧
    parseCond (fuel + 3) (.dict [(.str "Value.LEN.lt", .int 3)]) =
      Dsl.call Arg.lit .valueLength "lt" [.lit (.int 3)] [] ∧
    parseCond (fuel + 3) (.dict [(.str "VALUE.Len.IN", .list [.int 1, .int 2])]) =
      Dsl.call Arg.lit .valueLength "in_" [.lit (.list [.int 1, .int 2])] [] := fun fuel =>
  ⟨C09_spec_is_dsl_call .valueLength _ (ctorNamed .valueLength "lt") "value.length.lt" (.int 3) (.int 3) [.int 3] [] _
    rfl (by decide) (List.mem_of_find?_eq_some (p := fun c => c.name == "lt") rfl)
    (Or.inr ⟨"value", "length", "lt", "length", .value, ("Value", "length", "ValueLength"), rfl, rfl, rfl, rfl, rfl, rfl⟩)
    rfl (Or.inr (Or.inl ⟨rfl, rfl, rfl, Or.inl (Or.inl trivial), rfl, rfl⟩)) rfl fuel,
   C09_spec_is_dsl_call .valueLength _ (ctorNamed .valueLength "lt") "Value.LEN.lt" (.int 3) (.int 3) [.int 3] [] _
    rfl (by decide) (List.mem_of_find?_eq_some (p := fun c => c.name == "lt") rfl)
    (Or.inr ⟨"value", "len", "lt", "length", .value, ("Value", "length", "ValueLength"), rfl, rfl, rfl, rfl, rfl, rfl⟩)
    rfl (Or.inr (Or.inl ⟨rfl, rfl, rfl, Or.inl (Or.inl trivial), rfl, rfl⟩)) rfl fuel,
   C09_spec_is_dsl_call .valueLength _ (ctorNamed .valueLength "in_") "VALUE.Len.IN"
    (.list [.int 1, .int 2]) (.list [.int 1, .int 2]) [.list [.int 1, .int 2]] [] _
    rfl (by decide) (List.mem_of_find?_eq_some (p := fun c => c.name == "in_") rfl)
    (Or.inr ⟨"value", "len", "in", "length", .value, ("Value", "length", "ValueLength"), rfl, rfl, rfl, rfl, rfl, rfl⟩)
    rfl (Or.inr (Or.inl ⟨rfl, rfl, rfl, Or.inr ⟨[.int 1, .int 2], Or.inl rfl,
      by intro v hv; simp at hv; rcases hv with rfl | rfl <;> exact Or.inl trivial⟩, rfl, rfl⟩)) rfl fuel⟩

/-- `{"value.dtype.equal_to": "int"}`, `{"value.TYPE.equal_to": "Map"}` are
    `ValueDataType.equal_to(int)`, `ValueDataType.equal_to(dict)` (type names in place of types) -/
example : ∀ fuel, parseCond (fuel + 3) (.dict [(.str "value.dtype.equal_to", .str "int")]) =
      Dsl.call Arg.lit .valueDataType "equal_to" [.lit (.type .int)] [] ∧
    parseCond (fuel + 3) (.dict [(.str "value.TYPE.equal_to", .str "Map")]) =
      Dsl.call Arg.lit .valueDataType "equal_to" [.lit (.type .dict)] [] := fun fuel =>
  ⟨C09_spec_is_dsl_call .valueDataType _ (ctorNamed .valueDataType "equal_to") "value.dtype.equal_to"
    (.str "int") (.type .int) [.type .int] [] _
    rfl (by decide) (List.mem_of_find?_eq_some (p := fun c => c.name == "equal_to") rfl)
    (Or.inr ⟨"value", "dtype", "equal_to", "dtype", .value, ("Value", "dtype", "ValueDataType"),
      rfl, rfl, rfl, rfl, rfl, rfl⟩)
    rfl (Or.inr (Or.inl ⟨rfl, rfl, rfl, Or.inl (Or.inr ⟨_, rfl⟩), rfl, rfl⟩)) rfl fuel,
   C09_spec_is_dsl_call .valueDataType _ (ctorNamed .valueDataType "equal_to") "value.TYPE.equal_to"
    (.str "Map") (.type .dict) [.type .dict] [] _
    rfl (by decide) (List.mem_of_find?_eq_some (p := fun c => c.name == "equal_to") rfl)
    (Or.inr ⟨"value", "type", "equal_to", "dtype", .value, ("Value", "dtype", "ValueDataType"),
      rfl, rfl, rfl, rfl, rfl, rfl⟩)
    rfl (Or.inr (Or.inl ⟨rfl, rfl, rfl, Or.inl (Or.inr ⟨_, rfl⟩), rfl, rfl⟩)) rfl fuel⟩

/-- `{"value.is_instance": ["INT", "str"]}` is `Value.is_instance(int, str)`; `{"index.in": 3}` is
    `Index.in_(3)` (callable alias); `{"value.items_contain": {"a": 1}}` is `Value.items_contain(a=1)` -/
example : ∀ fuel, parseCond (fuel + 3) (.dict [(.str "value.is_instance", .list [.str "INT", .str "str"])]) =
      Dsl.call Arg.lit .value "is_instance" [.lit (.type .int), .lit (.type .str)] [] ∧
    parseCond (fuel + 3) (.dict [(.str "index.in", .int 3)]) =
      Dsl.call Arg.lit .index "in_" [.lit (.int 3)] [] ∧
    parseCond (fuel + 3) (.dict [(.str "value.items_contain", .dict [(.str "a", .int 1)])]) =
      Dsl.call Arg.lit .value "items_contain" [] [("a", .lit (.int 1))] := fun fuel =>
  ⟨C09_spec_is_dsl_call .value _ (ctorNamed .value "is_instance") "value.is_instance" _ _
    [.type .int, .type .str] [] _
    rfl (by decide) (List.mem_of_find?_eq_some (p := fun c => c.name == "is_instance") rfl)
    (Or.inl ⟨"value", "is_instance", rfl, rfl, rfl⟩) rfl
    (Or.inr (Or.inr (Or.inr (Or.inr (Or.inl ⟨rfl, rfl, rfl,
      by intro v hv; simp at hv; rcases hv with rfl | rfl <;> exact Or.inr ⟨_, rfl⟩⟩))))) rfl fuel,
   C09_spec_is_dsl_call .index _ (ctorNamed .index "in_") "index.in" (.int 3) (.int 3) [.int 3] [] _
    rfl (by decide) (List.mem_of_find?_eq_some (p := fun c => c.name == "in_") rfl)
    (Or.inl ⟨"index", "in", rfl, rfl, rfl⟩) rfl
    (Or.inr (Or.inl ⟨rfl, rfl, rfl, Or.inl (Or.inl trivial), rfl, rfl⟩)) rfl fuel,
   C09_spec_is_dsl_call .value _ (ctorNamed .value "items_contain") "value.items_contain" _ _ []
    [("a", .int 1)] _
    rfl (by decide) (List.mem_of_find?_eq_some (p := fun c => c.name == "items_contain") rfl)
    (Or.inl ⟨"value", "items_contain", rfl, rfl, rfl⟩) rfl
    (Or.inr (Or.inr (Or.inr (Or.inr (Or.inr ⟨rfl, rfl, rfl,
      ⟨by intro kv hkv; simp at hkv; subst hkv; rfl,
       by intro k v h; simp at h; obtain ⟨rfl, rfl⟩ := h; exact ⟨by decide +kernel, by decide +kernel⟩⟩,
      by intro kv hkv; simp at hkv; subst hkv; exact Or.inl trivial⟩))))) rfl fuel⟩

/-- a spec tree: `{"and": [{"Value.In_Range": [1, 5]}, {"value.truthy": null}]}` denotes
    `Value.in_range(1, 5) & Value.truthy()` -/
example (l1 l2 : Leaf Arg)
    (h1 : ∀ fuel, parseCond (fuel + 3) (.dict [(.str "Value.In_Range", .list [.int 1, .int 5])]) = .ok (.leaf l1))
    (h2 : ∀ fuel, parseCond (fuel + 3) (.dict [(.str "value.truthy", .none)]) = .ok (.leaf l2))
    (c : Cond Arg)
    (hc : [Cond.leaf l1, Cond.leaf l2].foldlM (fun acc c => Cond.mkBin .and acc c) Cond.null = .ok c) :
    ∃ N, ∀ fuel, parseCond (fuel + N) (.dict [(.str "and", .list
      [.dict [(.str "Value.In_Range", .list [.int 1, .int 5])], .dict [(.str "value.truthy", .none)]])]) = .ok c :=
  C09_spec_tree (.node .and _ [.leaf l1, .leaf l2] c
    (.cons _ _ _ _ (.leaf _ l1 h1) (.cons _ _ _ _ (.leaf _ l2 h2) .nil)) hc)

end ValidaProofs
