/-
  C08 – validation is read-only: inputs and schema unchanged, results repeatable.

  Three ingredients.
  (1) Documents as objects (`Valida.Store`): validation works on `copy.deepcopy(data.get_original())`
      – read from the source (`validateDeepCopies`) – and writes cast values through the copy's root
      only (`castWritesToCopy`); a deep copy consists of fresh cells, a write only touches cells
      reachable from the root it is given: the caller's cells are never written, for any sequence of
      write-backs.
  (2) Conditions as objects (`Valida.Heap`, C02): the combinations built on the fly by
      `MapOrListValue.filter` and by the part constructors never write to an existing condition.
  (3) Everything else in the model is a pure function of the denotations of its inputs, so once the
      inputs are unchanged a repeated call returns the same result.
  The thread-schedule part of the quantifier rests on (1)–(3): only reads are shared.  The
  interpreter itself (GIL, byte-code interleaving) is not modelled.
-/
import Valida.Store
import Valida.Heap
import ValidaProofs.Lemmas.Basic
import ValidaProofs.C02
import ValidaProofs.Lemmas.C08Store
namespace ValidaProofs
open Valida ValidaGen
open C08L

/-- validation copies deeply and writes casts to the copy – as read from the source -/
theorem C08_copies_in_source : validateDeepCopies = true ∧ castWritesToCopy = true := by
  exact ⟨rfl, rfl⟩

/-- allocation only appends: existing cells keep their content -/
theorem C08_alloc_frame (s : Store) (fuel : Nat) (v : PyVal) :
    s.size ≤ (Store.alloc s fuel v).1.size ∧ ∀ i, i < s.size → (Store.alloc s fuel v).1[i]? = s[i]? := by
  have A := alloc_ok fuel s v
  exact ⟨A.ext.size_le, A.ext.below⟩

/-- every cell of a freshly allocated structure is new -/
theorem C08_alloc_fresh (s : Store) (fuel fuel' : Nat) (v : PyVal) :
    ∀ r ∈ Store.reach (Store.alloc s fuel v).1 fuel' (Store.alloc s fuel v).2, s.size ≤ r := by
  have A := alloc_ok fuel s v
  exact reach_fresh (A.fresh _ (Nat.le_refl _) (fresh_self s)) fuel' _ A.lo

/-- a deep copy denotes the same value -/
theorem C08_deepcopy_same_value (s : Store) (fuel : Nat) (r : Nat) (v : PyVal) (h : Store.read s fuel r = some v) :
    Store.read (Store.deepcopy s fuel r).1 (fuel + 1) (Store.deepcopy s fuel r).2 = some v := by
  simp only [Store.deepcopy, h]
  exact (alloc_ok fuel s v).read

/-- a write through a root only rewrites cells reachable from that root (and appends) -/
theorem C08_setAt_frame (s : Store) (root : Nat) (path : List PyVal) (v : PyVal) (s' : Store)
    (h : Store.setAt s root path v = some s') :
    s.size ≤ s'.size ∧ ∀ i, i < s.size → (∀ fuel, i ∉ Store.reach s fuel root) → s'[i]? = s[i]? := by
  exact rewrites_frame (setAt_rewrites s v s' path root h)

/-- the caller's document is never written: after copying and any sequence of cast write-backs through
    the copy, every cell that existed before holds what it held -/
theorem C08_callers_document_untouched (s : Store) (fuel : Nat) (root : Nat) (v : PyVal)
    (hv : Store.read s fuel root = some v) (ws : List (List PyVal × PyVal)) :
    let (s1, copy) := Store.workingCopy s fuel root
    ∀ i, i < s.size → (Store.writes s1 copy ws)[i]? = s[i]? := by
  exact working_untouched s fuel root v hv ws

/-- … hence the caller's document still denotes the same value -/
theorem C08_callers_document_same_value (s : Store) (fuel : Nat) (root : Nat) (v : PyVal)
    (hv : Store.read s fuel root = some v) (ws : List (List PyVal × PyVal)) :
    let (s1, copy) := Store.workingCopy s fuel root
    Store.read (Store.writes s1 copy ws) fuel root = some v := by
  exact read_mono (ext_of_below (working_untouched s fuel root v hv ws)) fuel root v hv

/-- conditions: the combination `list_condition & condition` that `MapOrListValue.filter` builds for
    every node it visits – and any other combination built during a call – leaves every existing
    condition object as it was, for any number of calls (C02 at the object level) -/
theorem C08_conditions_untouched (fuel fuel' : Nat) (h : Heap) (ops : List HOp) (objs : List (Option Nat))
    (hac : h.Acyclic) (hobjs : ∀ o ∈ objs, ∀ i, o = some i → i < h.size) :
    ∀ i, i < h.size → Heap.den (runHistory fuel h objs ops).1 fuel' i = Heap.den h fuel' i := by
  exact (C02_history fuel fuel' ops h objs hac hobjs).2

/-- repeatable: the model's operations are functions of the values of their inputs, so a call repeated
    on unchanged inputs (after any other calls) returns the same result -/
theorem C08_repeatable (rules : List RuleM) (doc : PyVal) (others : List (List RuleM × PyVal)) :
    let r₁ := validate rules doc
    let _ := others.map (fun o => validate o.1 o.2)
    validate rules doc = r₁ := by
  intro r₁ _; rfl

/-! ### non-vacuity -/

/-- the caller's document `{"a": ["x"]}` at reference 2 -/
def C08.exampleStore : Store := #[.scalar (.str "x"), .list [0], .dict [(.str "a", 1)]]

def C08.readIs (o : Option PyVal) (e : PyVal) : Bool :=
  match o with
  | some v => PyVal.pyEq v e && PyVal.pyEq e v
  | none => false

/-- a cast write-back `copy["a"][0] = "y"` through the working copy: the copy changes, the caller's
    document does not -/
example :
    let (s1, copy) := Store.workingCopy C08.exampleStore 8 2
    let s2 := Store.writes s1 copy [([.str "a", .int 0], .str "y")]
    copy = 5 ∧ s2.size = 7 ∧
    C08.readIs (Store.read s2 8 copy) (.dict [(.str "a", .list [.str "y"])]) = true ∧
    C08.readIs (Store.read s2 8 2) (.dict [(.str "a", .list [.str "x"])]) = true := by
  decide +kernel

/-- with only a shallow copy (`Data.get_original()` alone) the same write reaches the caller's list -/
example :
    let (s1, copy) := Store.shallowcopy C08.exampleStore 2
    let s2 := Store.writes s1 copy [([.str "a", .int 0], .str "y")]
    C08.readIs (Store.read s2 8 2) (.dict [(.str "a", .list [.str "y"])]) = true := by
  decide +kernel

end ValidaProofs
