/-
  C11 – conditions survive the JSON-like round trip.

  `condToJson` transcribes `Condition.to_json_like` (branches chosen from the signature of the
  *callable*), `parseCond` transcribes `ConditionLike.from_spec` (branches chosen from the signature
  of the *constructor*); the round trip works where the two meet.
-/
import Valida.Spec.Ser
import ValidaProofs.Lemmas.Basic
import ValidaProofs.Lemmas.C11Leaf
import ValidaProofs.Lemmas.C11Keys
namespace ValidaProofs
open Valida ValidaGen

/-! ### the tables make the two directions meet -/

/-- serialiser branch "one parameter: the first keyword argument" needs the constructor to store that
    argument by keyword (factor_of / has_factor stored it positionally: StopIteration) -/
theorem C11_single_param_stored_by_keyword :
    (generalCtors ++ mapCtors).all (fun c =>
      match sigOf c.target with
      | some sig => !(sig.params.length == 1 && !sig.varPos && !sig.varKw) || (c.fwdPos.isEmpty && c.fwdKw.length == 1)
      | none => false) = true := by
  decide +kernel

/-- the serialiser's branch (from the callable's signature) and the parser's branch (from the
    constructor's signature) are the same kind for every constructor: same number of named
    parameters, both or neither var-positional, both or neither var-keyword -/
theorem C11_signatures_agree :
    (generalCtors ++ mapCtors).all (fun c =>
      match sigOf c.target with
      | some sig => sig.params.length == c.params.length && sig.varPos == c.varPos.isSome && sig.varKw == c.varKw.isSome
      | none => false) = true := by
  decide +kernel

/-- type names written by the serialiser are read back as the same type -/
theorem C11_type_names_invert :
    invDtypeLookup.all (fun tn => lookupStr tn.2 dtypeLookupStr == some tn.1) = true ∧
    (invDtypeLookup.map (·.1)).Nodup := by
  decide +kernel

/-- the key written for a condition (`js_like_label + "." + callable name`) names the same class and
    callable when read back: for every class and every (non-alias) constructor of it -/
def keyRoundTrips (info : CondClassInfo) (c : Ctor) : Bool :=
  let toks := (splitDot (info.label ++ "." ++ c.target)).map (fun t => String.ofList (t.toList.map Char.toLower))
  match toks with
  | [d, fn] =>
      (lookupStr d conditionDatumTypes == some info.name) && info.pre == "" &&
      (c.target.toList.map Char.toLower == fn.toList)
  | [d, pre, fn] =>
      (match lookupStr d conditionDatumTypes, lookupStr pre preProcLookup with
       | some base, some p => classProps.any (fun cp => cp.1 == base && cp.2.1 == p && cp.2.2 == info.name)
       | _, _ => false) &&
      (c.target.toList.map Char.toLower == fn.toList)
  | _ => false

theorem C11_keys_round_trip :
    (condClasses.filter (fun i => i.name != "NullCondition")).all (fun info =>
      ((if info.general then generalCtors else []) ++ (if info.map then mapCtors else [])).all (keyRoundTrips info)) = true := by
  -- callable names contain no dot, so the key splits into the label's tokens and the name
  -- (`C11K.keyRoundTrips_of_no_dot`); the labels and the names are then checked separately on the tables
  have h : keyRoundTrips = C11K.keyRoundTrips := rfl
  rw [h]; exact C11K.keys_round_trip

/-- no two constructors of a class have names that differ only in letter case (the parser compares
    lower-cased names) -/
theorem C11_ctor_names_distinct_lowercase :
    ((generalCtors ++ mapCtors).map (fun c => c.name.toList.map Char.toLower)).Nodup ∧
    (generalAliases.map (·.1)).all (fun a => !(generalCtors ++ mapCtors).any (fun c => c.name == a)) = true := by
  decide +kernel

/-! ### round trips -/

/-- null ↔ `{}` -/
theorem C11_null (fuel : Nat) :
    condToJson (Cond.null : Cond Arg) = .ok (.dict []) ∧ parseCond (fuel + 1) (.dict []) = .ok Cond.null := by
  exact ⟨rfl, rfl⟩

/-- a combination is written as `{op: [left, right]}` and read back as the combination of what the two
    operands are read back as (any depth, by induction on the tree) -/
theorem C11_bin (fuel : Nat) (op : BinOp) (a b : Cond Arg) (ja jb : PyVal) (a' b' : Cond Arg)
    (ha : condToJson a = .ok ja) (hb : condToJson b = .ok jb)
    (ha' : parseCond fuel ja = .ok a') (hb' : parseCond fuel jb = .ok b') (hna : a'.isNull = false) :
    condToJson (.bin op a b) = .ok (.dict [(.str op.symbol, .list [ja, jb])]) ∧
    parseCond (fuel + 1) (.dict [(.str op.symbol, .list [ja, jb])]) = Cond.mkBin op a' b' := by
  constructor
  · simp [condToJson, ha, hb, bind, Except.bind, pure, Except.pure]
  · -- one unfolding of the parser at the operator key (as in `C09_fold`), then the two-element fold
    have key : ∀ (s : String), parseCond (fuel + 1) (.dict [(.str s, .list [ja, jb])]) =
        [ja, jb].foldlM (fun acc s => do let c ← parseCond fuel s; Cond.mkBin op acc c) Cond.null →
        parseCond (fuel + 1) (.dict [(.str s, .list [ja, jb])]) = Cond.mkBin op a' b' := by
      intro s hs
      rw [hs]
      simp [List.foldlM, ha', hb', bind, Except.bind, C11L.mkBin_null_left op a' hna]
      cases Cond.mkBin op a' b' <;> rfl
    cases op <;> exact key _ rfl

/-- one-parameter callables on value / key / index with a scalar argument -/
theorem C11_leaf_scalar (fuel : Nat) (cls : CClass) (fn : String) (v : PyVal)
    (hc : cls = .value ∨ cls = .key ∨ cls = .index)
    (hf : fn ∈ ["equal_to", "not_equal_to", "less_than", "greater_than", "less_than_or_equal_to",
                "greater_than_or_equal_to", "in_", "not_in", "factor_of", "has_factor"])
    (hv : (∃ n, v = .int n) ∨ (∃ s, v = .str s) ∨ (∃ b, v = .bool b) ∨ v = .none ∨ (∃ k, v = .float k)) :
    ∃ js, condToJson (.leaf { cls := cls, fn := fn, args := [], kwargs := [("value", .lit v)] }) = .ok js ∧
      parseCond (fuel + 3) js = .ok (.leaf { cls := cls, fn := fn, args := [], kwargs := [("value", .lit v)] }) := by
  suffices h : C11L.ScalarRoundTrip cls fn from h fuel v hv
  simp only [List.mem_cons, List.not_mem_nil, or_false] at hf
  -- 3 classes × 10 callables: the generic round trip, its closed side conditions evaluated on the tables
  rcases hc with rfl | rfl | rfl <;>
  rcases hf with rfl | rfl | rfl | rfl | rfl | rfl | rfl | rfl | rfl | rfl <;>
  exact C11L.leaf_scalar_of _ _ _ _ _ rfl rfl rfl (fun _ => rfl) (by decide +kernel)

/-- representative rows of the other serialiser branches: no parameter, several parameters,
    var-positional with types, var-keyword, type pre-processor with a type and with a list of types,
    length pre-processor -/
theorem C11_leaf_rows (fuel : Nat) (n m : Int) :
    (∃ js, condToJson (.leaf { cls := .value, fn := "truthy", args := [], kwargs := [] }) = .ok js ∧
      parseCond (fuel + 3) js = .ok (.leaf { cls := .value, fn := "truthy", args := [], kwargs := [] })) ∧
    (∃ js, condToJson (.leaf { cls := .value, fn := "in_range", args := [], kwargs := [("lower", .lit (.int n)), ("upper", .lit (.int m))] }) = .ok js ∧
      parseCond (fuel + 3) js = .ok (.leaf { cls := .value, fn := "in_range", args := [], kwargs := [("lower", .lit (.int n)), ("upper", .lit (.int m))] })) ∧
    (∃ js, condToJson (.leaf { cls := .value, fn := "is_instance", args := [.lit (.type .int), .lit (.type .dict)], kwargs := [] }) = .ok js ∧
      parseCond (fuel + 3) js = .ok (.leaf { cls := .value, fn := "is_instance", args := [.lit (.type .int), .lit (.type .dict)], kwargs := [] })) ∧
    (∃ js, condToJson (.leaf { cls := .value, fn := "items_contain", args := [], kwargs := [("a", .lit (.int n)), ("b", .lit (.str "x"))] }) = .ok js ∧
      parseCond (fuel + 3) js = .ok (.leaf { cls := .value, fn := "items_contain", args := [], kwargs := [("a", .lit (.int n)), ("b", .lit (.str "x"))] })) ∧
    (∃ js, condToJson (.leaf { cls := .valueDataType, fn := "equal_to", args := [], kwargs := [("value", .lit (.type .str))] }) = .ok js ∧
      parseCond (fuel + 3) js = .ok (.leaf { cls := .valueDataType, fn := "equal_to", args := [], kwargs := [("value", .lit (.type .str))] })) ∧
    (∃ js, condToJson (.leaf { cls := .keyDataType, fn := "in_", args := [], kwargs := [("value", .lit (.list [.type .int, .type .str]))] }) = .ok js ∧
      parseCond (fuel + 3) js = .ok (.leaf { cls := .keyDataType, fn := "in_", args := [], kwargs := [("value", .lit (.list [.type .int, .type .str]))] })) ∧
    (∃ js, condToJson (.leaf { cls := .valueLength, fn := "less_than", args := [], kwargs := [("value", .lit (.int n))] }) = .ok js ∧
      parseCond (fuel + 3) js = .ok (.leaf { cls := .valueLength, fn := "less_than", args := [], kwargs := [("value", .lit (.int n))] })) ∧
    (∃ js, condToJson (.leaf { cls := .value, fn := "keys_contain_N_of", args := [], kwargs := [("N", .lit (.int n)), ("keys", .lit (.list [.str "a"]))] }) = .ok js ∧
      parseCond (fuel + 3) js = .ok (.leaf { cls := .value, fn := "keys_contain_N_of", args := [], kwargs := [("N", .lit (.int n)), ("keys", .lit (.list [.str "a"]))] })) := by
  refine ⟨?_, ?_, ?_, ?_, ?_, ?_, ?_, ?_⟩
  · refine ⟨_, rfl, ?_⟩; rfl
  · refine ⟨.dict [(.str "value.in_range", .dict [(.str "lower", .int n), (.str "upper", .int m)])], ?_, rfl⟩
    exact C11L.ser_kw .value "in_range" _ _ _ _ (by decide) rfl rfl (by decide) (by decide +kernel)
  · refine ⟨_, rfl, ?_⟩; rfl
  · refine ⟨.dict [(.str "value.items_contain", .dict [(.str "a", .int n), (.str "b", .str "x")])], ?_, rfl⟩
    exact C11L.ser_kw .value "items_contain" _ _ _ _ (by decide) rfl rfl (by decide) (by decide +kernel)
  · refine ⟨_, rfl, ?_⟩; rfl
  · refine ⟨_, rfl, ?_⟩; rfl
  · refine ⟨.dict [(.str "value.length.less_than", .int n)], ?_, rfl⟩
    exact C11L.ser_single .valueLength "less_than" _ _ _ _ _ (by decide) rfl rfl rfl rfl rfl (by decide +kernel)
  · refine ⟨.dict [(.str "value.keys_contain_N_of", .dict [(.str "N", .int n), (.str "keys", .list [.str "a"])])],
      ?_, rfl⟩
    exact C11L.ser_kw .value "keys_contain_N_of" _ _ _ _ (by decide) rfl rfl (by decide) (by decide +kernel)

/-- a positionally stored single argument cannot be serialised (what the D6 defect looked like) -/
theorem C11_positional_storage_refused (v : Arg) :
    condToJson (.leaf { cls := .value, fn := "factor_of", args := [v], kwargs := [] }) = .error .stopIteration := by
  rfl

end ValidaProofs
