/-
  C03 – path resolution selects exactly the nodes a part-by-part walk reaches; a part that does not
  apply matches nothing rather than raising.

  `Path.getData` is the literal transcription of `DataPath.get_data`: a level-by-level frontier walk
  keeping two parallel lists (`data`, `concrete_paths`).  The theorems relate it to the depth-first
  walk of `ValidaSpec.Walk`, for every path length and fan-out.
-/
import Valida.Path
import ValidaSpec.Walk
import ValidaProofs.Lemmas.Basic
import ValidaProofs.C02
import ValidaProofs.Lemmas.C03Walk
import ValidaProofs.Lemmas.C03Step
import ValidaProofs.Lemmas.C03Prim
namespace ValidaProofs
open Valida ValidaGen ValidaSpec
open C03

/-- children matched by a part, as a total function (a failing step matches nothing) -/
def childrenOf (p : Part) (node : PyVal) : List (PyVal × PyVal) :=
  match stepNode p node with
  | .ok kvs => kvs
  | .error _ => []

/-- every step of the walk succeeds on every node (true for parts whose conditions have literal
    arguments, see `C03_step_total`) -/
def StepsOk (parts : List Part) : Prop := ∀ p ∈ parts, ∀ node, ∃ kvs, stepNode p node = .ok kvs

/-! ### the frontier walk is the depth-first walk -/

/-- under `StepsOk`, `childrenOf` is what `stepNode` returns -/
theorem C03.stepsOk_childrenOf (parts : List Part) (hs : StepsOk parts) :
    ∀ p ∈ parts, ∀ node, stepNode p node = .ok (childrenOf p node) := by
  intro p hp node
  obtain ⟨kvs, h⟩ := hs p hp node
  simp [childrenOf, h]

set_option linter.unusedVariables false in -- `hlen` is not needed: one step re-establishes lock-step
/-- lock-step invariant of the loop: `data` and `concrete_paths` always have the same length, so
    the index `concrete_paths[datum_idx]` never fails -/
theorem C03_lockstep (parts : List Part) (first : Bool) (data : List PyVal) (paths : List (List PyVal))
    (d' : List PyVal) (p' : List (List PyVal))
    (hlen : first = true ∨ data.length = paths.length)
    (h : walkParts parts first data paths = .ok (d', p')) (hne : parts ≠ []) : d'.length = p'.length := by
  exact walkParts_length parts first data paths d' p' (Or.inl hne) h

/-- the level-by-level walk with its two parallel lists returns exactly the depth-first walk:
    same nodes, same order, each with the keys actually followed -/
theorem C03_walk (parts : List Part) (doc : PyVal) (hne : parts ≠ []) (hs : StepsOk parts) :
    ∃ nodes paths, walkParts parts true [doc] [] = .ok (nodes, paths) ∧
      nodes.zip paths = walk childrenOf parts doc [] ∧ nodes.length = paths.length := by
  obtain ⟨nodes, paths, h, hl, hz⟩ := walkParts_true childrenOf parts hne (stepsOk_childrenOf parts hs) doc
  exact ⟨nodes, paths, h, hz, hl⟩

/-- … and therefore `get_data(return_paths=True)` of a modifier-free path is the walk, presented as
    a list (non-concrete) or as the single node / `None` (concrete) -/
theorem C03_get_data (p : Path) (doc : PyVal) (hne : p.parts ≠ []) (hs : StepsOk p.parts)
    (hsrc : p.source = none) (hdoc : PyVal.truthy doc = true) (hd : p.datum = .none) (hm : p.multi = .none) :
    p.getData (some doc) true =
      (let sel := (walk childrenOf p.parts doc []).map (fun vq => PyVal.tuple [vq.1, .tuple vq.2])
       if sel.isEmpty then .ok (if p.concrete then .none else .list [])
       else if p.concrete then (match sel.head? with | some v => .ok v | none => .error .indexError)
       else .ok (.list sel)) := by
  obtain ⟨nodes, paths, h, hz, hl⟩ := C03_walk p.parts doc hne hs
  rw [← hz]
  exact getData_of_walk p doc nodes paths hne hsrc hdoc hd hm h hl

/-! ### a part that does not apply matches nothing; resolution never raises -/

/-- scalars, empty containers and containers of the wrong kind: no match, no exception -/
theorem C03_inapplicable (p : Part) (node : PyVal) :
    (∀ xs, node ≠ .list xs) → (∀ kvs, node ≠ .dict kvs) → stepNode p node = .ok [] := by
  intro h1 h2
  apply stepNode_of_filter_typeError
  apply filter_of_ofPy_error
  cases node with
  | list xs => exact absurd rfl (h1 xs)
  | dict kvs => exact absurd rfl (h2 kvs)
  | _ => rfl
theorem C03_inapplicable_empty (p : Part) : stepNode p (.list []) = .ok [] ∧ stepNode p (.dict []) = .ok [] := by
  exact ⟨stepNode_of_filter_typeError _ _ (filter_of_ofPy_error _ _ _ rfl),
    stepNode_of_filter_typeError _ _ (filter_of_ofPy_error _ _ _ rfl)⟩
theorem C03_inapplicable_kind (p : Part) (xs : List PyVal) (kvs : List (PyVal × PyVal)) :
    (p.kind = .map → stepNode p (.list xs) = .ok []) ∧ (p.kind = .list → stepNode p (.dict kvs) = .ok []) := by
  exact ⟨stepNode_map_list p xs, stepNode_list_dict p kvs⟩

/-- a step raises nothing but the model's pseudo-outcome -/
theorem C03_step_total (p : Part) (node : PyVal) : ∀ e, stepNode p node = .error e → e = .unmodelled := by
  exact stepNode_error p node

/-- matched children are items of the node: keys and values at the same positions, in order -/
theorem C03_step_items (p : Part) (node : PyVal) (kvs : List (PyVal × PyVal)) (h : stepNode p node = .ok kvs) :
    (∀ xs, node = .list xs → kvs.Sublist ((rangeVals xs.length).zip xs)) ∧
    (∀ items, node = .dict items → kvs.Sublist items) := by
  exact stepNode_items p node kvs h

/-! ### primitive parts -/

set_option linter.unusedVariables false in -- `hne` is not needed (both sides are `[]` for `{}`)
/-- a string (or float) part matches the mapping children whose key equals it, and nothing in a list -/
theorem C03_prim_str (s : String) (p : Part) (hp : Part.ofPrim (.str s) = .ok p)
    (kvs : List (PyVal × PyVal)) (hne : kvs ≠ []) (xs : List PyVal) :
    stepNode p (.dict kvs) = .ok (kvs.filter (fun kv => PyVal.pyEq kv.1 (.str s))) ∧
    stepNode p (.list xs) = .ok [] := by
  rw [ofPrim_str] at hp
  cases hp
  exact ⟨stepNode_keyPart_dict _ kvs, stepNode_keyPart_list _ xs⟩

set_option linter.unusedVariables false in -- `hne`, `hxs` are not needed (both sides are `[]` then)
/-- an integer part matches the mapping children whose key equals it, or the list child at that index -/
theorem C03_prim_int (n : Int) (p : Part) (hp : Part.ofPrim (.int n) = .ok p)
    (kvs : List (PyVal × PyVal)) (hne : kvs ≠ []) (xs : List PyVal) (hxs : xs ≠ []) :
    stepNode p (.dict kvs) = .ok (kvs.filter (fun kv => PyVal.pyEq kv.1 (.int n))) ∧
    stepNode p (.list xs) = .ok (((rangeVals xs.length).zip xs).filter (fun kv => PyVal.pyEq kv.1 (.int n))) := by
  rw [ofPrim_int] at hp
  cases hp
  exact ⟨stepNode_keyOrIndexPart_dict _ kvs, stepNode_keyOrIndexPart_list _ xs⟩

/-- other primitives are refused by the path constructor -/
theorem C03_prim_refused (v : PyVal)
    (h : (∀ s, v ≠ .str s) ∧ (∀ k, v ≠ .float k) ∧ (∀ n, v ≠ .int n) ∧ (∀ b, v ≠ .bool b)) :
    Part.ofPrim v = .error .typeError := by
  exact ofPrim_other v h

/-- a concrete path selects at most one node of a document whose mappings have pairwise distinct keys
    (one level: a primitive part matches at most one child) -/
theorem C03_prim_at_most_one (v : PyVal) (p : Part) (hp : Part.ofPrim v = .ok p)
    (kvs : List (PyVal × PyVal)) (hd : DistinctKeys kvs)
    (res : List (PyVal × PyVal)) (h : stepNode p (.dict kvs) = .ok res) : res.length ≤ 1 := by
  obtain ⟨hv, rfl | rfl⟩ := ofPrim_cases v p hp
  · rw [stepNode_keyPart_dict] at h
    cases h
    exact filter_key_prim_le_one v hv kvs hd
  · rw [stepNode_keyOrIndexPart_dict] at h
    cases h
    exact filter_key_prim_le_one v hv kvs hd

/-- primitive parts never raise, so `StepsOk` holds for every concrete path (and `C03_walk`,
    `C03_get_data` apply to them unconditionally) -/
theorem C03_prim_steps_ok (parts : List Part) (h : ∀ p ∈ parts, ∃ v, Part.ofPrim v = .ok p) :
    StepsOk parts := by
  intro p hp node
  obtain ⟨v, hv⟩ := h p hp
  obtain ⟨_, rfl | rfl⟩ := ofPrim_cases v p hv
  · cases node with
    | dict kvs => exact ⟨_, stepNode_keyPart_dict v kvs⟩
    | list xs => exact ⟨_, stepNode_keyPart_list v xs⟩
    | _ => exact ⟨_, C03_inapplicable _ _ (by intro xs; simp) (by intro xs; simp)⟩
  · cases node with
    | dict kvs => exact ⟨_, stepNode_keyOrIndexPart_dict v kvs⟩
    | list xs => exact ⟨_, stepNode_keyOrIndexPart_list v xs⟩
    | _ => exact ⟨_, C03_inapplicable _ _ (by intro xs; simp) (by intro xs; simp)⟩

/-! ### non-vacuity -/

example : valueIs (do
    let p ← Path.mk' [.prim (.str "a"), .prim (.int 1)]
    p.getData (some (.dict [(.str "a", .list [.int 5, .int 6])])) true)
      (.tuple [.int 6, .tuple [.str "a", .int 1]]) = true := by
  decide +kernel

end ValidaProofs
