/-
  C06 – schema verdict is the order-independent conjunction of its rules' verdicts.
-/
import Valida.Rule
import ValidaProofs.Lemmas.Basic
import ValidaProofs.Lemmas.C06Schema
namespace ValidaProofs
open Valida ValidaGen
open C06L

def CastFree (rs : List RuleM) : Prop := ∀ r ∈ rs, r.cast = []

/-- the sort keys of `Schema.__init__` and `add_schema` in the source are `len(rule.path)`, ascending -/
theorem C06_sort_key_in_source : schemaSortKeys = [("__init__", "len_path"), ("add_schema", "len_path")] := by
  decide

/-- overall validity is the conjunction, the failure count the sum, the tested count the number of
    rules whose path exists -/
theorem C06_aggregates (v : Validated) :
    v.isValid = v.tests.all (·.isValid) ∧
    v.numFailures = (v.tests.map (fun t => t.failures.length)).sum ∧
    v.numRulesTested = (v.tests.filter (·.tested)).length := by
  exact ⟨rfl, rfl, List.countP_eq_length_filter⟩

/-- rules are applied shortest path first, ties in the given order (a stable sort): the applied list
    is a permutation of the given one, ascending in path length, and rules of equal path length keep
    their relative order -/
theorem C06_sorted_stable (rs : List RuleM) :
    (Schema.mk' rs).Perm rs ∧
    (Schema.mk' rs).Pairwise (fun a b => a.path.parts.length ≤ b.path.parts.length) ∧
    ∀ k, (Schema.mk' rs).filter (fun r => r.path.parts.length == k) = rs.filter (fun r => r.path.parts.length == k) := by
  exact ⟨mk'_perm rs, mk'_sorted rs, mk'_stable rs⟩

/-- without casts every rule is judged on the document itself, independently of the other rules -/
theorem C06_castfree_independent (rs : List RuleM) (doc copy : PyVal) (hc : CastFree rs) :
    validateLoop rs doc copy = (rs.mapM (fun r => ruleTestOn r doc)).map (fun ts => (ts, copy)) := by
  exact validateLoop_castfree rs doc copy hc

/-- order independence: for a cast-free schema, supplying the rules in another order gives a
    permutation of the same rule tests, hence the same validity, failure count and tested count -/
theorem C06_perm (rs₁ rs₂ : List RuleM) (doc : PyVal) (hp : rs₁.Perm rs₂) (hc : CastFree rs₁)
    (v₁ : Validated) (h₁ : validate (Schema.mk' rs₁) doc = .ok v₁) :
    ∃ v₂, validate (Schema.mk' rs₂) doc = .ok v₂ ∧
      v₂.isValid = v₁.isValid ∧ v₂.numFailures = v₁.numFailures ∧ v₂.numRulesTested = v₁.numRulesTested ∧
      v₂.castData = v₁.castData := by
  have hc₁ : ∀ r ∈ Schema.mk' rs₁, r.cast = [] := fun r hr => hc r ((mk'_perm rs₁).mem_iff.1 hr)
  have hp' : (Schema.mk' rs₁).Perm (Schema.mk' rs₂) := ((mk'_perm rs₁).trans hp).trans (mk'_perm rs₂).symm
  have hc₂ : ∀ r ∈ Schema.mk' rs₂, r.cast = [] := fun r hr => hc₁ r (hp'.mem_iff.2 hr)
  obtain ⟨d, hd, hm, hcd⟩ := (validate_castfree_ok _ doc hc₁ v₁).1 h₁
  obtain ⟨ts, hts, hpt⟩ := mapM_perm _ hp' _ hm
  refine ⟨⟨ts, doc⟩, (validate_castfree_ok _ doc hc₂ _).2 ⟨d, hd, hts, rfl⟩, ?_, ?_, ?_, hcd.symm⟩
  · exact (hpt.all_eq).symm
  · exact ((hpt.map _).sum_nat).symm
  · exact (hpt.countP_eq _).symm

/-- a cast-free validation returns the document itself as cast data -/
theorem C06_castfree_cast_data (rs : List RuleM) (doc : PyVal) (hc : CastFree rs) (v : Validated)
    (h : validate rs doc = .ok v) : v.castData = doc ∧ v.tests.length = rs.length := by
  obtain ⟨d, _, hm, hcd⟩ := (validate_castfree_ok rs doc hc v).1 h
  exact ⟨hcd, mapM_ok_len _ _ _ hm⟩

end ValidaProofs
