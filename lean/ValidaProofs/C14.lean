/-
  C14 – equality is an equivalence relation that implies identical behaviour.

  `condEqWith`, `partEq`, `pathEq`, `ruleEq` transcribe the `__eq__` methods.  They are parametric in
  the equality of stored arguments (Python `==` on values), whose reflexivity / symmetry /
  transitivity are explicit hypotheses: Python's `==` is an equivalence on hashable values and on
  mappings with pairwise distinct keys (proved for hashable values in Lemmas/PyEq.lean), not on
  arbitrary association lists.  For the same reason the keyword dictionaries (`kwargs`) and the `cast`
  dictionary, which the model keeps as association lists, are required to have pairwise distinct keys
  (`KwNodup`, `RuleKeysNodup`) wherever reflexivity or symmetry is claimed: every Python dict has.
-/
import Valida.Eq
import ValidaProofs.Lemmas.Basic
import ValidaProofs.Lemmas.PyEq
import ValidaProofs.Lemmas.C14Eq
import ValidaProofs.Lemmas.C14Path
import ValidaProofs.Lemmas.C02Tree
namespace ValidaProofs
open Valida ValidaGen

variable {α : Type}

/-- every stored argument of a condition tree -/
def condArgs : Cond α → List α
  | .leaf l => l.args ++ l.kwargs.map (·.2)
  | .bin _ a b => condArgs a ++ condArgs b

/-- every literal stored in a part (arguments of its conditions, its label) -/
def partVals (p : Part) : List PyVal :=
  condArgs p.cond ++ condArgs p.listCond ++ condArgs p.mapCond ++ p.label.toList ++ [PyVal.none]

def pathVals (p : Path) : List PyVal := p.parts.flatMap partVals ++ p.source.toList ++ [PyVal.none]

/-- `R` is an equivalence on the elements of `xs` -/
def EquivOn (R : α → α → Bool) (xs : List α) : Prop :=
  (∀ a ∈ xs, R a a = true) ∧ (∀ a ∈ xs, ∀ b ∈ xs, R a b = R b a) ∧
  (∀ a ∈ xs, ∀ b ∈ xs, ∀ c ∈ xs, R a b = true → R b c = true → R a c = true)

/-- the keyword names of every single condition are pairwise distinct (they are the keys of a Python
    keyword dictionary) -/
def KwNodup (c : Cond α) : Prop := ∀ l ∈ c.leaves, (l.kwargs.map (·.1)).Nodup

def PartKwNodup (p : Part) : Prop := KwNodup p.cond ∧ KwNodup p.listCond ∧ KwNodup p.mapCond

def PathKwNodup (p : Path) : Prop := ∀ x ∈ p.parts, PartKwNodup x

/-- distinct keys everywhere in a rule: keyword names of every condition, types of the `cast` dict -/
def RuleKeysNodup (r : RuleM) : Prop := PathKwNodup r.path ∧ KwNodup r.cond ∧ (r.cast.map (·.1)).Nodup

/-! the definitions above are those of the lemma files -/

theorem condArgs_eq (c : Cond α) : condArgs c = C14L.args c := by
  induction c with
  | leaf l => rfl
  | bin op a b iha ihb => simp only [condArgs, C14L.args, iha, ihb]

theorem partVals_eq : partVals = C14L.partVals := by
  funext p; simp only [partVals, C14L.partVals, condArgs_eq]

theorem pathVals_eq : pathVals = C14L.pathVals := by
  funext p; simp only [pathVals, C14L.pathVals, partVals_eq]

/-- Python `==` is an equivalence on hashable values (numbers, strings, None, type objects, tuples of
    such): the non-vacuity of the hypotheses below -/
theorem C14_pyEq_equiv_on_hashable (xs : List PyVal) (h : ∀ x ∈ xs, PyVal.hashable x = true) :
    EquivOn PyVal.pyEq xs :=
  ⟨fun a ha => pyEq_refl a (h a ha), fun a ha b _ => pyEq_symm a b (h a ha),
   fun a _ b hb c _ => pyEq_trans a b c (h b hb)⟩

-- STATEMENT CHANGED: hypothesis `KwNodup c` added.  Without it the statement is false: `kwEq` looks
-- every keyword up by name and finds the first entry, so for the association list
-- `kwargs = [("a", 1), ("a", 2)]` (not a Python dict) the second item is compared with the first
-- (`example` below).
/-- reflexive -/
theorem C14_cond_refl (eqA : α → α → Bool) (c : Cond α) (hn : KwNodup c)
    (hr : ∀ a ∈ condArgs c, eqA a a = true) : condEqWith eqA c c = true :=
  C14L.cond_refl eqA c hn (condArgs_eq c ▸ hr)

/-- the counterexample to reflexivity without `KwNodup` -/
example :
    let c : Cond Nat := .leaf { cls := .value, fn := "f", args := [], kwargs := [("a", 1), ("a", 2)] }
    (∀ a ∈ condArgs c, (a == a) = true) ∧ condEqWith (· == ·) c c = false := by
  refine ⟨fun a _ => beq_self_eq_true a, ?_⟩
  decide

-- STATEMENT CHANGED: hypotheses `KwNodup c`, `KwNodup d` added.  Without them the statement is false:
-- with `c.kwargs = [("x", 1), ("x", 1)]` and `d.kwargs = [("x", 1), ("y", 2)]` (same length, every item
-- of `c` found in `d`, but `"y"` not found in `c`) `c == d` holds and `d == c` does not (`example` below).
/-- symmetric -/
theorem C14_cond_symm (eqA : α → α → Bool) (c d : Cond α) (hc : KwNodup c) (hd : KwNodup d)
    (hs : ∀ a ∈ condArgs c, ∀ b ∈ condArgs d, eqA a b = eqA b a) : condEqWith eqA c d = condEqWith eqA d c :=
  C14L.cond_symm eqA c d hc hd (condArgs_eq c ▸ condArgs_eq d ▸ hs)

/-- the counterexample to symmetry without `KwNodup` -/
example :
    let c : Cond Nat := .leaf { cls := .value, fn := "f", args := [], kwargs := [("x", 1), ("x", 1)] }
    let d : Cond Nat := .leaf { cls := .value, fn := "f", args := [], kwargs := [("x", 1), ("y", 2)] }
    (∀ a ∈ condArgs c, ∀ b ∈ condArgs d, (a == b) = (b == a)) ∧
    condEqWith (· == ·) c d = true ∧ condEqWith (· == ·) d c = false := by
  refine ⟨fun a _ b _ => Bool.beq_comm, ?_, ?_⟩ <;> decide

/-- transitive (the crosswise case of `ConditionBinaryOp.__eq__` included) -/
theorem C14_cond_trans (eqA : α → α → Bool) (c d e : Cond α)
    (h : EquivOn eqA (condArgs c ++ condArgs d ++ condArgs e))
    (h₁ : condEqWith eqA c d = true) (h₂ : condEqWith eqA d e = true) : condEqWith eqA c e = true := by
  refine C14L.cond_trans eqA c d e (fun x hx y hy z hz => h.2.2 x ?_ y ?_ z ?_) h₁ h₂ <;>
    simp [condArgs_eq, hx, hy, hz]

-- STATEMENT CHANGED: hypotheses `KwNodup a`, `KwNodup b` added (the statement needs `a == a` and
-- `b == b`, see `C14_cond_refl`).
/-- two combinations differing only in operand order compare equal -/
theorem C14_commuted_equal (eqA : α → α → Bool) (op : BinOp) (a b : Cond α) (ha : KwNodup a) (hb : KwNodup b)
    (hr : ∀ x ∈ condArgs a ++ condArgs b, eqA x x = true) :
    condEqWith eqA (.bin op a b) (.bin op b a) = true := by
  simp only [List.mem_append] at hr
  simp only [condEqWith, beq_self_eq_true,
    C14_cond_refl eqA a ha (fun x hx => hr x (Or.inl hx)), C14_cond_refl eqA b hb (fun x hx => hr x (Or.inr hx)),
    Bool.and_self, Bool.or_true]

/-- a change of class, callable or operator makes conditions unequal -/
theorem C14_cond_distinguishes (eqA : α → α → Bool) (l l' : Leaf α) (op op' : BinOp) (a b a' b' : Cond α) :
    (l.cls ≠ l'.cls → condEqWith eqA (.leaf l) (.leaf l') = false) ∧
    (l.fn ≠ l'.fn → condEqWith eqA (.leaf l) (.leaf l') = false) ∧
    (op ≠ op' → condEqWith eqA (.bin op a b) (.bin op' a' b') = false) ∧
    condEqWith eqA (.leaf l) (.bin op a b) = false := by
  refine ⟨fun h => ?_, fun h => ?_, fun h => ?_, rfl⟩
  · have : (l.cls == l'.cls) = false := by simpa using h
    simp [condEqWith, this]
  · have : (l.fn == l'.fn) = false := by simpa using h
    simp [condEqWith, this]
  · have : (op == op') = false := by simpa using h
    simp [condEqWith, this]

-- STATEMENT CHANGED: hypotheses `PartKwNodup p`, `PartKwNodup q` added (needed for the reflexivity and
-- symmetry conjuncts only; counterexamples as for `C14_cond_refl`, `C14_cond_symm` with the condition
-- of a part).
/-- parts: an equivalence wherever `==` is one on the stored values; sensitive to kind and to the list /
    map conditions of a map-or-list part -/
theorem C14_part_equiv (p q r : Part) (hp : PartKwNodup p) (hq : PartKwNodup q)
    (h : EquivOn PyVal.pyEq (partVals p ++ partVals q ++ partVals r)) :
    partEq p p = true ∧ partEq p q = partEq q p ∧ (partEq p q = true → partEq q r = true → partEq p r = true) :=
  C14L.part_equiv p q r hp hq (partVals_eq ▸ h)

theorem C14_part_distinguishes (p q : Part) :
    (p.kind ≠ q.kind → partEq p q = false) ∧
    (p.kind = .molv → q.kind = .molv → condEqLit p.listCond q.listCond = false → partEq p q = false) ∧
    (p.kind = .molv → q.kind = .molv → condEqLit p.mapCond q.mapCond = false → partEq p q = false) := by
  refine ⟨fun h => ?_, fun h1 _ h3 => ?_, fun h1 _ h3 => ?_⟩
  · have : (p.kind == q.kind) = false := by simpa using h
    simp [partEq, this]
  · simp [partEq, h1, h3]
  · simp [partEq, h1, h3]

-- STATEMENT CHANGED: hypotheses `PathKwNodup p`, `PathKwNodup q` added (reflexivity and symmetry
-- conjuncts; see `C14_cond_refl`, `C14_cond_symm`).
/-- paths -/
theorem C14_path_equiv (p q r : Path) (hp : PathKwNodup p) (hq : PathKwNodup q)
    (h : EquivOn PyVal.pyEq (pathVals p ++ pathVals q ++ pathVals r)) :
    pathEq p p = true ∧ pathEq p q = pathEq q p ∧ (pathEq p q = true → pathEq q r = true → pathEq p r = true) :=
  C14L.path_equiv p q r hp hq (pathVals_eq ▸ h)

theorem C14_path_distinguishes (p q : Path) :
    (p.parts.length ≠ q.parts.length → pathEq p q = false) ∧ (p.concrete ≠ q.concrete → pathEq p q = false) ∧
    (p.datum ≠ q.datum → pathEq p q = false) ∧ (p.multi ≠ q.multi → pathEq p q = false) := by
  refine ⟨fun h => ?_, fun h => ?_, fun h => ?_, fun h => ?_⟩
  · have : listEq partEq p.parts q.parts = false := by
      cases hl : listEq partEq p.parts q.parts
      · rfl
      · exact absurd (C14L.listEq_length _ _ _ hl) h
    simp [pathEq, this]
  · have : (p.concrete == q.concrete) = false := by simpa using h
    simp [pathEq, this]
  · have : (p.datum == q.datum) = false := by simpa using h
    simp [pathEq, this]
  · have : (p.multi == q.multi) = false := by simpa using h
    simp [pathEq, this]

-- STATEMENT CHANGED: hypotheses `RuleKeysNodup p`, `RuleKeysNodup q` added (reflexivity and symmetry
-- conjuncts).  Besides the keyword names (see `C14_cond_refl`, `C14_cond_symm`) the types of the `cast`
-- dictionary must be distinct for symmetry: `castEq` is "same length and every item of the first is an
-- item of the second", so `[(int, f), (int, f)] == [(int, f), (str, g)]` but not conversely
-- (`example` below).
/-- rules with literal condition arguments (data-path arguments compare through `pathEq`) -/
theorem C14_rule_equiv (p q r : RuleM) (cp cq cr : Cond PyVal)
    (hp : p.cond = cp.mapArgs Arg.lit) (hq : q.cond = cq.mapArgs Arg.lit) (hr : r.cond = cr.mapArgs Arg.lit)
    (np : RuleKeysNodup p) (nq : RuleKeysNodup q)
    (h : EquivOn PyVal.pyEq (pathVals p.path ++ pathVals q.path ++ pathVals r.path ++ condArgs cp ++ condArgs cq ++ condArgs cr)) :
    ruleEq p p = true ∧ ruleEq p q = ruleEq q p ∧ (ruleEq p q = true → ruleEq q r = true → ruleEq p r = true) := by
  rw [pathVals_eq, condArgs_eq, condArgs_eq, condArgs_eq] at h
  exact C14L.rule_equiv p q r cp cq cr hp hq hr np nq h

/-- the counterexample to symmetry of `castEq` on association lists with a repeated type -/
example : castEq [(.int, "f"), (.int, "f")] [(.int, "f"), (.str, "g")] = true ∧
    castEq [(.int, "f"), (.str, "g")] [(.int, "f"), (.int, "f")] = false := by
  constructor <;> decide

/-- the added hypotheses hold for real objects, e.g. the rule
    `{"path": ["a"], "condition": {"value.in_range": {"lower": 1, "upper": 5}}, "cast": {"str": "int"}}` -/
example :
    let c : Cond Arg := .leaf { cls := .value, fn := "in_range", args := [],
                                kwargs := [("lower", .lit (.int 1)), ("upper", .lit (.int 5))] }
    let part : Part := { kind := .map, cond := eqLeaf .key (.str "a"), listCond := Cond.null, mapCond := Cond.null,
                         label := none }
    let r : RuleM := { path := { parts := [part], concrete := true, datum := .none, multi := .none, source := none },
                       cond := c, cast := [(.str, "int")] }
    RuleKeysNodup r := by
  simp [RuleKeysNodup, PathKwNodup, PartKwNodup, KwNodup, Cond.leaves, eqLeaf, Cond.null]

/-- behaviour: commuting the operands of a combination does not change what it gives for any item -/
theorem C14_commuted_same_result (op : BinOp) (a b : Cond RArg) (d : DataV) (fa fb : FD)
    (ha : filterAux a d false = .ok (fa, d, none)) (hb : filterAux b d false = .ok (fb, d, none)) :
    ∃ f₁ f₂, filterAux (.bin op a b) d false = .ok (f₁, d, none) ∧ filterAux (.bin op b a) d false = .ok (f₂, d, none) ∧
      f₁.result = f₂.result :=
  ⟨_, _, filterAux_bin_ok op a b d fa fb ha hb, filterAux_bin_ok op b a d fb fa hb ha,
    List.zipWith_comm_of_comm (fun x y => by cases op <;> cases x <;> cases y <;> rfl)⟩

/-- behaviour: conditions that are the same up to operand order (same classes, callables and
    arguments) give the same booleans on all data -/
inductive CommSame : Cond RArg → Cond RArg → Prop
  | leaf (l : Leaf RArg) : CommSame (.leaf l) (.leaf l)
  | straight (op a b a' b') : CommSame a a' → CommSame b b' → CommSame (.bin op a b) (.bin op a' b')
  | crossed (op a b a' b') : CommSame a b' → CommSame b a' → CommSame (.bin op a b) (.bin op a' b')

theorem C14_comm_same_behaviour (c c' : Cond RArg) (h : CommSame c c') (d : DataV) (f : FD)
    (hf : filterAux c d false = .ok (f, d, none)) :
    ∃ f', filterAux c' d false = .ok (f', d, none) ∧ f'.result = f.result := by
  induction h generalizing f with
  | leaf l => exact ⟨f, hf, rfl⟩
  | straight op a b a' b' _ _ iha ihb =>
    obtain ⟨fa, fb, ha, hb, rfl⟩ := filterAux_bin_inv op a b d f d none hf
    obtain ⟨fa', ha', ea⟩ := iha fa ha
    obtain ⟨fb', hb', eb⟩ := ihb fb hb
    exact ⟨_, filterAux_bin_ok op a' b' d fa' fb' ha' hb', by simp only [FD.result, ea, eb]⟩
  | crossed op a b a' b' _ _ iha ihb =>
    obtain ⟨fa, fb, ha, hb, rfl⟩ := filterAux_bin_inv op a b d f d none hf
    obtain ⟨fb', hb', ea⟩ := iha fa ha
    obtain ⟨fa', ha', eb⟩ := ihb fb hb
    refine ⟨_, filterAux_bin_ok op a' b' d fa' fb' ha' hb', ?_⟩
    simp only [FD.result, ea, eb]
    exact List.zipWith_comm_of_comm (fun x y => by cases op <;> cases x <;> cases y <;> rfl)

end ValidaProofs
