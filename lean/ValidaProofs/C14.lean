/-
  C14 – equality is an equivalence relation that implies identical behaviour.

  `condEqWith`, `partEq`, `pathEq`, `ruleEq` transcribe the `__eq__` methods.  They are parametric in
  the equality of stored arguments (Python `==` on values), whose reflexivity / symmetry /
  transitivity are explicit hypotheses: Python's `==` is an equivalence on hashable values and on
  mappings with pairwise distinct keys (proved for hashable values in Lemmas/PyEq.lean), not on
  arbitrary association lists.
-/
import Valida.Eq
import ValidaProofs.Lemmas.Basic
import ValidaProofs.Lemmas.PyEq
namespace ValidaProofs
open Valida ValidaGen

variable {α : Type}

/-- every stored argument of a condition tree -/
def condArgs : Cond α → List α
  | .leaf l => l.args ++ l.kwargs.map (·.2)
  | .bin _ a b => condArgs a ++ condArgs b

/-- every literal stored in a part (arguments of its conditions, its label) -/
def partVals (p : Part) : List PyVal :=
  condArgs p.cond ++ condArgs p.listCond ++ condArgs p.mapCond ++ p.label.toList ++ [PyVal.none]

def pathVals (p : Path) : List PyVal := p.parts.flatMap partVals ++ p.source.toList ++ [PyVal.none]

/-- `R` is an equivalence on the elements of `xs` -/
def EquivOn (R : α → α → Bool) (xs : List α) : Prop :=
  (∀ a ∈ xs, R a a = true) ∧ (∀ a ∈ xs, ∀ b ∈ xs, R a b = R b a) ∧
  (∀ a ∈ xs, ∀ b ∈ xs, ∀ c ∈ xs, R a b = true → R b c = true → R a c = true)

/-- Python `==` is an equivalence on hashable values (numbers, strings, None, type objects, tuples of
    such): the non-vacuity of the hypotheses below -/
theorem C14_pyEq_equiv_on_hashable (xs : List PyVal) (h : ∀ x ∈ xs, PyVal.hashable x = true) :
    EquivOn PyVal.pyEq xs := by
  sorry

/-- reflexive -/
theorem C14_cond_refl (eqA : α → α → Bool) (c : Cond α)
    (hr : ∀ a ∈ condArgs c, eqA a a = true) : condEqWith eqA c c = true := by
  sorry

/-- symmetric -/
theorem C14_cond_symm (eqA : α → α → Bool) (c d : Cond α)
    (hs : ∀ a ∈ condArgs c, ∀ b ∈ condArgs d, eqA a b = eqA b a) : condEqWith eqA c d = condEqWith eqA d c := by
  sorry

/-- transitive (the crosswise case of `ConditionBinaryOp.__eq__` included) -/
theorem C14_cond_trans (eqA : α → α → Bool) (c d e : Cond α)
    (h : EquivOn eqA (condArgs c ++ condArgs d ++ condArgs e))
    (h₁ : condEqWith eqA c d = true) (h₂ : condEqWith eqA d e = true) : condEqWith eqA c e = true := by
  sorry

/-- two combinations differing only in operand order compare equal -/
theorem C14_commuted_equal (eqA : α → α → Bool) (op : BinOp) (a b : Cond α)
    (hr : ∀ x ∈ condArgs a ++ condArgs b, eqA x x = true) :
    condEqWith eqA (.bin op a b) (.bin op b a) = true := by
  sorry

/-- a change of class, callable or operator makes conditions unequal -/
theorem C14_cond_distinguishes (eqA : α → α → Bool) (l l' : Leaf α) (op op' : BinOp) (a b a' b' : Cond α) :
    (l.cls ≠ l'.cls → condEqWith eqA (.leaf l) (.leaf l') = false) ∧
    (l.fn ≠ l'.fn → condEqWith eqA (.leaf l) (.leaf l') = false) ∧
    (op ≠ op' → condEqWith eqA (.bin op a b) (.bin op' a' b') = false) ∧
    condEqWith eqA (.leaf l) (.bin op a b) = false := by
  sorry

/-- parts: an equivalence wherever `==` is one on the stored values; sensitive to kind and to the list /
    map conditions of a map-or-list part -/
theorem C14_part_equiv (p q r : Part) (h : EquivOn PyVal.pyEq (partVals p ++ partVals q ++ partVals r)) :
    partEq p p = true ∧ partEq p q = partEq q p ∧ (partEq p q = true → partEq q r = true → partEq p r = true) := by
  sorry

theorem C14_part_distinguishes (p q : Part) :
    (p.kind ≠ q.kind → partEq p q = false) ∧
    (p.kind = .molv → q.kind = .molv → condEqLit p.listCond q.listCond = false → partEq p q = false) ∧
    (p.kind = .molv → q.kind = .molv → condEqLit p.mapCond q.mapCond = false → partEq p q = false) := by
  sorry

/-- paths -/
theorem C14_path_equiv (p q r : Path) (h : EquivOn PyVal.pyEq (pathVals p ++ pathVals q ++ pathVals r)) :
    pathEq p p = true ∧ pathEq p q = pathEq q p ∧ (pathEq p q = true → pathEq q r = true → pathEq p r = true) := by
  sorry

theorem C14_path_distinguishes (p q : Path) :
    (p.parts.length ≠ q.parts.length → pathEq p q = false) ∧ (p.concrete ≠ q.concrete → pathEq p q = false) ∧
    (p.datum ≠ q.datum → pathEq p q = false) ∧ (p.multi ≠ q.multi → pathEq p q = false) := by
  sorry

/-- rules with literal condition arguments (data-path arguments compare through `pathEq`) -/
theorem C14_rule_equiv (p q r : RuleM) (cp cq cr : Cond PyVal)
    (hp : p.cond = cp.mapArgs Arg.lit) (hq : q.cond = cq.mapArgs Arg.lit) (hr : r.cond = cr.mapArgs Arg.lit)
    (h : EquivOn PyVal.pyEq (pathVals p.path ++ pathVals q.path ++ pathVals r.path ++ condArgs cp ++ condArgs cq ++ condArgs cr)) :
    ruleEq p p = true ∧ ruleEq p q = ruleEq q p ∧ (ruleEq p q = true → ruleEq q r = true → ruleEq p r = true) := by
  sorry

/-- behaviour: commuting the operands of a combination does not change what it gives for any item -/
theorem C14_commuted_same_result (op : BinOp) (a b : Cond RArg) (d : DataV) (fa fb : FD)
    (ha : filterAux a d false = .ok (fa, d, none)) (hb : filterAux b d false = .ok (fb, d, none)) :
    ∃ f₁ f₂, filterAux (.bin op a b) d false = .ok (f₁, d, none) ∧ filterAux (.bin op b a) d false = .ok (f₂, d, none) ∧
      f₁.result = f₂.result := by
  sorry

/-- behaviour: conditions that are the same up to operand order (same classes, callables and
    arguments) give the same booleans on all data -/
inductive CommSame : Cond RArg → Cond RArg → Prop
  | leaf (l : Leaf RArg) : CommSame (.leaf l) (.leaf l)
  | straight (op a b a' b') : CommSame a a' → CommSame b b' → CommSame (.bin op a b) (.bin op a' b')
  | crossed (op a b a' b') : CommSame a b' → CommSame b a' → CommSame (.bin op a b) (.bin op a' b')

theorem C14_comm_same_behaviour (c c' : Cond RArg) (h : CommSame c c') (d : DataV) (f : FD)
    (hf : filterAux c d false = .ok (f, d, none)) :
    ∃ f', filterAux c' d false = .ok (f', d, none) ∧ f'.result = f.result := by
  sorry

end ValidaProofs
