/-
  C18 – add_schema adds re-rooted rules and leaves the added schema intact.
-/
import Valida.AddSchema
import ValidaSpec.Walk
import ValidaProofs.Lemmas.Basic
import ValidaProofs.C03
import ValidaProofs.C06
import ValidaProofs.Lemmas.C18Add
namespace ValidaProofs
open Valida ValidaGen ValidaSpec
open C18L

/-- the source builds new rule objects (it never assigns to a rule of the added schema), and `/` on
    paths concatenates the parts -/
theorem C18_source_shape : addSchemaBuildsNewRules = true ∧ truedivConcatenatesParts = true := by
  exact ⟨rfl, rfl⟩

/-- S afterwards consists of its previous rules plus each rule of T re-rooted at R, shortest path
    first (a stable sort of the concatenation) -/
theorem C18_rules (s t : List RuleM) (root : Path) :
    (addSchema s t root).Perm (s ++ t.map (reroot root)) ∧
    (addSchema s t root).Pairwise (fun a b => a.path.parts.length ≤ b.path.parts.length) ∧
    ∀ k, (addSchema s t root).filter (fun r => r.path.parts.length == k) =
         (s ++ t.map (reroot root)).filter (fun r => r.path.parts.length == k) := by
  exact C06_sorted_stable (s ++ t.map (reroot root))

/-- a re-rooted rule keeps condition and casts; its path is the root's parts followed by its own -/
theorem C18_reroot (root : Path) (r : RuleM) :
    (reroot root r).cond = r.cond ∧ (reroot root r).cast = r.cast ∧
    (reroot root r).path.parts = root.parts ++ r.path.parts ∧
    (reroot root r).path.datum = .none ∧ (reroot root r).path.multi = .none ∧ (reroot root r).path.source = none := by
  exact ⟨rfl, rfl, rfl, rfl, rfl, rfl⟩

/-- T can be added under several roots and to several schemas, each addition as if T were fresh:
    the rules contributed by one addition do not depend on any other addition -/
theorem C18_independent (s₁ s₂ t : List RuleM) (r₁ r₂ : Path) :
    (addSchema (addSchema s₁ t r₁) t r₂).Perm (s₁ ++ t.map (reroot r₁) ++ t.map (reroot r₂)) ∧
    (addSchema s₂ t r₂).Perm (s₂ ++ t.map (reroot r₂)) := by
  refine ⟨?_, C06L.mk'_perm _⟩
  refine (C06L.mk'_perm _).trans (List.Perm.append_right _ ?_)
  exact C06L.mk'_perm _

/-- walking a concatenated path is walking the root and then, from every node the root reaches, the
    rest – with the concrete paths concatenated accordingly -/
theorem C18_walk_append {P : Type} (children : P → PyVal → List (PyVal × PyVal)) (ps qs : List P) (node : PyVal) (pre : List PyVal) :
    walk children (ps ++ qs) node pre =
      (walk children ps node pre).flatMap (fun nq => walk children qs nq.1 nq.2) := by
  exact walk_append children ps qs node pre

/-- hence a re-rooted rule selects, in the whole document, exactly what the original rule selects in
    what lies at the root (for a root that reaches a single node `sub` at path `rootPath`) -/
theorem C18_reroot_selection (root : Path) (r : RuleM) (doc sub : PyVal) (rootPath : List PyVal)
    (hroot : walk childrenOf root.parts doc [] = [(sub, rootPath)]) :
    walk childrenOf (reroot root r).path.parts doc [] = walk childrenOf r.path.parts sub rootPath := by
  rw [reroot_parts, walk_append, hroot]; simp

/-- … and nothing when the root is absent -/
theorem C18_absent_root (root : Path) (r : RuleM) (doc : PyVal)
    (hroot : walk childrenOf root.parts doc [] = []) :
    walk childrenOf (reroot root r).path.parts doc [] = [] := by
  rw [reroot_parts, walk_append, hroot]; rfl

/-- the concrete paths reported under a prefix are the prefix followed by the paths reported from the
    sub-document -/
theorem C18_walk_prefix {P : Type} (children : P → PyVal → List (PyVal × PyVal)) (qs : List P) (node : PyVal) (pre : List PyVal) :
    walk children qs node pre = (walk children qs node []).map (fun nq => (nq.1, pre ++ nq.2)) := by
  exact walk_prefix children qs node pre

/-- cast-free validation with the extended schema: the rule tests are those of S's rules and of the
    re-rooted rules (a permutation), so validity is the conjunction and the counts add up -/
theorem C18_judgement_counts (s t : List RuleM) (root : Path) (doc : PyVal)
    (hs : CastFree s) (ht : CastFree t) (v : Validated) (h : validate (addSchema s t root) doc = .ok v) :
    ∃ vs vt, validate (Schema.mk' s) doc = .ok vs ∧ validate (Schema.mk' (t.map (reroot root))) doc = .ok vt ∧
      v.isValid = (vs.isValid && vt.isValid) ∧ v.numFailures = vs.numFailures + vt.numFailures ∧
      v.numRulesTested = vs.numRulesTested + vt.numRulesTested := by
  have hc : CastFree (s ++ t.map (reroot root)) := by
    intro r hr
    rcases List.mem_append.1 hr with hr | hr
    · exact hs r hr
    · exact castfree_map_reroot root t ht r hr
  have hp : (addSchema s t root).Perm (Schema.mk' s ++ Schema.mk' (t.map (reroot root))) :=
    (C06L.mk'_perm _).trans ((C06L.mk'_perm s).symm.append (C06L.mk'_perm _).symm)
  exact validate_perm_append _ _ _ doc hp (fun r hr => hc r ((C06L.mk'_perm _).mem_iff.1 hr)) v h

end ValidaProofs
