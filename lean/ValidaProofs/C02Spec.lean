/-
  C02 (spec lists) – "A combination of conditions with and / or / xor (Python operators or spec
  lists), nested to any depth, gives for every item exactly that Boolean combination of what its
  operands give for the item".

  The operator route is `C02_pointwise`.  Here: the spec-list route.  A list `{op: [s₁, …, sₙ]}` whose
  items parse to non-null conditions `c₁ … cₙ` of compatible kinds parses to a condition whose filter
  result is, item by item, the left fold of `op` over the results of `c₁ … cₙ` – for n ≥ 1, any
  operator, lists nested to any depth (the statement composes).
-/
import Valida.Spec.Parse
import ValidaProofs.C02
import ValidaProofs.C09
import ValidaProofs.C09Spec
import ValidaProofs.Lemmas.C02Spec
namespace ValidaProofs
open Valida ValidaGen

/-- item-wise left fold of `op` over result rows (all of the same length) -/
def foldRows (op : BinOp) : List (List Bool) → List Bool
  | [] => []
  | r :: rs => rs.foldl (fun acc row => List.zipWith op.apply acc row) r

/-- **Spec lists are pointwise.** -/
theorem C02_spec_list_pointwise (fuel : Nat) (op : BinOp) (specs : List PyVal) (cs : List (Cond Arg))
    (src : Option PyVal) (d : DataV) (rows : List FD)
    (hne : cs ≠ [])
    (hlen : specs.length = cs.length) (hparse : ∀ p ∈ specs.zip cs, parseCond fuel p.1 = .ok p.2)
    (hnn : ∀ c ∈ cs, c.isNull = false)
    (hlen' : cs.length = rows.length)
    (hrows : ∀ p ∈ cs.zip rows, filterAux (p.1.resolve src) d false = .ok (p.2, d, none))
    (c : Cond Arg) (hc : parseCond (fuel + 1) (.dict [(.str op.symbol, .list specs)]) = .ok c) :
    ∃ f, filterAux (c.resolve src) d false = .ok (f, d, none) ∧ f.result = foldRows op (rows.map FD.result) := by
  -- the list parses to the left fold of `mkBin` from the null condition (`C09_spec_fold`) …
  rw [(C09_spec_fold fuel op specs cs (C02S.allParse_of_zip fuel specs cs hlen hparse)).1] at hc
  match cs, rows, hne, hlen', hnn, hrows, hc with
  | c1 :: cs', r1 :: rows', _, hlen', hnn, hrows, hc =>
    -- … whose first step is the first condition itself, and whose further steps are combination nodes
    have h1 : c1.isNull = false := hnn c1 List.mem_cons_self
    simp only [List.foldlM_cons, mkBin_null_left op c1 h1, bind, Except.bind] at hc
    exact C02S.fold_filter op src d cs' rows' c1 r1 c (by simpa using hlen') h1
      (fun c hc' => hnn c (List.mem_cons_of_mem _ hc')) (hrows (c1, r1) (by simp))
      (fun p hp => hrows p (by simp [hp])) hc

/-! ### non-vacuity -/

/-- Bool helper: the items of `{op: specs}` parse to non-null conditions that filter `data`, the list
    parses and filters, and its result is both `expected` and the item-wise fold of the items' results -/
def specListCheck (fuel : Nat) (op : BinOp) (specs : List PyVal) (data : PyVal) (expected : List Bool) : Bool :=
  match DataV.ofPy data, specs.mapM (parseCond fuel),
        parseCond (fuel + 1) (.dict [(.str op.symbol, .list specs)]) with
  | .ok d, .ok cs, .ok c =>
      !cs.isEmpty && cs.all (fun c => !c.isNull) &&
      (match cs.mapM (fun c => filterAux (c.resolve none) d false), filterAux (c.resolve none) d false with
       | .ok rs, .ok (f, _, _) =>
           f.result == expected && f.result == foldRows op (rs.map (fun r => r.1.result))
       | _, _ => false)
  | _, _, _ => false

/-- `{"xor": [{"value.gt": 1}, {"value.gt": 1}, {"value.lt": 4}]}` on `[0, 2, 5]`:
    `(gt1 ^ gt1) ^ lt4 = [F,T,T] ^ [F,T,T] ^ [T,T,F] = [T,T,F]` -/
example : specListCheck 4 .xor
    [.dict [(.str "value.gt", .int 1)], .dict [(.str "value.gt", .int 1)], .dict [(.str "value.lt", .int 4)]]
    (.list [.int 0, .int 2, .int 5]) [true, true, false] = true := by
  decide +kernel

end ValidaProofs
