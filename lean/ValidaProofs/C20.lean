/-
  C20 – documentation tree is structurally faithful; its HTML well-formed and escaped.

  `toTreeFlat` / `toTreeNested` transcribe `Schema.to_tree` (structure only), `writeTree` transcribes
  `write_tree_html` as a token stream (`renderToks` gives the string the correspondence run compares).
-/
import Valida.Tree
import Valida.Html
import ValidaProofs.Lemmas.Basic
import ValidaProofs.Lemmas.C20Tree
import ValidaProofs.Lemmas.C20Html
import ValidaProofs.Lemmas.C20Nest
namespace ValidaProofs
open Valida ValidaGen

/-! ### the tree -/

/-- the three repairs `to_tree` depends on are present in the source -/
theorem C20_tree_flags : treeRequiredSticky = true ∧ treeImplicitTypeGuard = true ∧ treeFromPathViaParts = true := by
  decide

/-- adding parents: every node's parent precedes it and is its path prefix -/
theorem C20_parents (sorted : List TItem) (refs : List (List String × Int)) (n : Nat) (out : List TItem)
    (h : assignParents sorted refs n = .ok out)
    (hrefs : ∀ r ∈ refs, r.2 < (n : Int)) :
    out.length = sorted.length ∧
    ∀ (i : Nat) (it : TItem), out[i]? = some it → it.parent < ((n + i : Nat) : Int) ∧
      (∃ r ∈ (List.zip (List.range out.length) out).map (fun ix => (ix.2.pathStr, ((n + ix.1 : Nat) : Int))) ++ refs,
        r.1 = it.pathStr.dropLast ∧ r.2 = it.parent) :=
  C20L.parents sorted refs n out h hrefs

/-- the flat tree (no sub-tree root): parent index smaller than own index, parent's key is the key
    without its last component, the root has parent -1 -/
theorem C20_flat_parents (rules : List TRule) (flat : List TItem) (h : toTreeFlat rules [] none none = .ok flat) :
    ∀ (i : Nat) (it : TItem), flat[i]? = some it →
      it.parent < (i : Int) ∧
      (it.parent = -1 ∨ ∃ p, flat[it.parent.toNat]? = some p ∧ p.pathStr = it.pathStr.dropLast) :=
  C20L.flat_parents rules flat h

/-- the tree is produced without error when every node's parent is present (prefix-closed keys) -/
theorem C20_total_of_prefix_closed (sorted : List TItem) (refs : List (List String × Int)) (n : Nat)
    (h : ∀ (i : Nat) (it : TItem), sorted[i]? = some it →
      (∃ r ∈ refs, r.1 = it.pathStr.dropLast) ∨ (∃ j, j < i ∧ ∃ p, sorted[j]? = some p ∧ p.pathStr = it.pathStr.dropLast)) :
    ∃ out, assignParents sorted refs n = .ok out :=
  C20L.assignParents_total sorted refs n h

/-- one step never removes a node and never changes the rule another node carries: a rule's node
    carries its index afterwards -/
theorem C20_step_rule_node (fromStr : List String) (items : Items) (idx : Nat) (r : TRule)
    (h : r.partStrs.take fromStr.length = fromStr) :
    ∃ it ∈ treeStep fromStr items idx r, it.pathStr = r.partStrs.drop fromStr.length ∧ it.rule = some idx :=
  C20L.step_rule_node fromStr items idx r h

theorem C20_step_keeps_nodes (fromStr : List String) (items : Items) (idx : Nat) (r : TRule) :
    ∀ it ∈ items, ∃ it' ∈ treeStep fromStr items idx r, it'.pathStr = it.pathStr ∧
      (it.rule.isSome → it.pathStr ≠ r.partStrs.drop fromStr.length → it'.rule = it.rule) :=
  C20L.step_keeps_nodes fromStr items idx r

/-- keys are unique: one node per path string (each rule appears once) -/
theorem C20_step_keys_nodup (fromStr : List String) (items : Items) (idx : Nat) (r : TRule)
    (h : (items.map (·.pathStr)).Nodup) : ((treeStep fromStr items idx r).map (·.pathStr)).Nodup :=
  C20L.step_keys_nodup fromStr items idx r h

/-- `required`: a key named by an always-applicable `required_keys` condition of the rule is flagged
    required after the step, whatever `allowed_keys` conditions name it too, in any order -/
theorem C20_required_after_step (items : Items) (idx : Nat) (r : TRule) (l : TLeaf) (ks : String)
    (hall : r.cond.alwaysApplicable = true) (hl : l ∈ r.cond.leaves) (hfn : l.fn = "required_keys")
    (hk : ks ∈ l.keyStrs) (hlen : ∀ l' ∈ r.cond.leaves, l'.keyStrs.length = l'.keyDisp.length) :
    ∃ it ∈ treeStep [] items idx r, it.pathStr = r.partStrs ++ [ks] ∧ it.required = some true :=
  C20L.required_after_step items idx r l ks hall hl hfn hk hlen

/-- … and a condition under `or` / `xor` is not always applicable: it flags nothing -/
theorem C20_not_always_applicable (items : Items) (idx : Nat) (r : TRule) (hall : r.cond.alwaysApplicable = false) :
    ∀ it ∈ treeStep [] items idx r, it.required.isSome →
      ∃ it₀ ∈ items, it₀.pathStr = it.pathStr ∧ it₀.required = it.required :=
  C20L.not_always_applicable items idx r hall

/-- flat and nested forms contain the same nodes -/
def TNode.flatten : TNode → List TItem
  | .mk item children => item :: (children.attach.flatMap (fun c => TNode.flatten c.1))
termination_by t => sizeOf t
decreasing_by
  simp_wf
  have := List.sizeOf_lt_of_mem c.2
  omega

theorem C20_nested_same_nodes (flat : List TItem)
    (hpar : ∀ (i : Nat) (it : TItem), flat[i]? = some it → it.parent < (i : Int) ∧ -1 ≤ it.parent) :
    ((toTreeNested flat).flatMap TNode.flatten).Perm flat := by
  refine C20L.nested_perm flat hpar TNode.flatten ?_
  intro item cs
  rw [TNode.flatten]
  congr 1
  rw [← List.flatMap_map (f := Subtype.val) (g := TNode.flatten), List.attach_map_subtype_val]

/-! ### the HTML -/

/-- `html.escape` leaves none of `< > " '` and every `&` it produces starts an entity -/
theorem C20_escape_safe (s : String) :
    ∀ c ∈ (htmlEscape s).toList, c ≠ '<' ∧ c ≠ '>' ∧ c ≠ '"' ∧ c ≠ '\'' :=
  C20L.htmlEscape_safe s

/-- the back-tick rewriting only ever emits balanced `<code>…</code>` pairs around escaped text -/
theorem C20_code_scan_balanced (fuel : Nat) (acc cs : List Char) (stack : List String) (rest : List Tok) :
    dyck stack (codeScanFuel fuel acc cs ++ rest) = dyck stack rest :=
  C20L.codeScanFuel_neutral fuel acc cs stack rest

/-- … and its text tokens carry exactly the characters of the paragraph, minus the matched ticks -/
theorem C20_code_scan_text_escaped (fuel : Nat) (acc cs : List Char)
    (h : ∀ c ∈ acc ++ cs, c ≠ '<' ∧ c ≠ '>' ∧ c ≠ '"') :
    ∀ t ∈ codeScanFuel fuel acc cs, match t with
      | .esc s => ∀ c ∈ s.toList, c ≠ '<' ∧ c ≠ '>' ∧ c ≠ '"'
      | .op tag attrs => tag = "code" ∧ attrs = ""
      | .cl tag => tag = "code"
      | _ => False :=
  C20L.codeScanFuel_tok fuel acc cs h

/-- the rendering of a tree is well-formed: every tag closed, in order – for every tree, every depth,
    every anchor root -/
theorem C20_html_dyck (fuel : Nat) (nodes : List HtmlNode) (parentPath : Option String) (anchor : String)
    (headStart : Nat) (showRoot : Bool) (depth : Nat) (stack : List String) (rest : List Tok) :
    dyck stack (writeTree fuel nodes parentPath anchor headStart showRoot depth ++ rest) = dyck stack rest ∧
    dyck stack (writeChildren fuel nodes parentPath anchor headStart showRoot depth ++ rest) = dyck stack rest :=
  ⟨C20L.wt_neutral anchor headStart showRoot fuel nodes parentPath depth stack rest,
   C20L.wc_neutral anchor headStart showRoot fuel nodes parentPath depth stack rest⟩

/-- schema-supplied text (keys, type texts, condition text, doc paragraphs and examples) only ever
    appears in `esc` tokens, whose content is free of `< > "` -/
theorem C20_html_text_escaped (fuel : Nat) (nodes : List HtmlNode) (parentPath : Option String) (anchor : String)
    (headStart : Nat) (showRoot : Bool) (depth : Nat) :
    ∀ t ∈ writeTree fuel nodes parentPath anchor headStart showRoot depth, match t with
      | .esc s => ∀ c ∈ s.toList, c ≠ '<' ∧ c ≠ '>' ∧ c ≠ '"'
      | .raw s => s = anchor
      | _ => True :=
  C20L.wt_ok anchor headStart showRoot fuel nodes parentPath depth

end ValidaProofs
