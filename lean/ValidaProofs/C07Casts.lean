/-
  C07 / C15 (cast part) – validation with declared casts never raises because of the document, and the
  cast data is the document with some string leaves replaced by the value a declared cast gives –
  type-exactly equal to the input everywhere else.

  Documents are well-formed: mapping keys are hashable and pairwise different (Python dicts).
-/
import Valida.Rule
import ValidaSpec.Walk
import ValidaProofs.Lemmas.Basic
import ValidaProofs.C03
import ValidaProofs.C04
import ValidaProofs.C07
import ValidaProofs.C15
import ValidaProofs.C06
import ValidaProofs.Lemmas.C07CastsRel
import ValidaProofs.Lemmas.C07CastsLoop
namespace ValidaProofs
open Valida ValidaGen ValidaSpec

mutual
/-- well-formed document: every mapping has hashable, pairwise different keys, at every depth -/
def DocWF : PyVal → Prop
  | .list xs => DocWFL xs
  | .tuple xs => DocWFL xs
  | .dict kvs => (∀ kv ∈ kvs, PyVal.hashable kv.1 = true) ∧ DistinctKeys kvs ∧ DocWFD kvs
  | _ => True
termination_by structural x => x
def DocWFL : List PyVal → Prop
  | [] => True
  | x :: xs => DocWF x ∧ DocWFL xs
termination_by structural x => x
def DocWFD : List (PyVal × PyVal) → Prop
  | [] => True
  | (_, v) :: rest => DocWF v ∧ DocWFD rest
termination_by structural x => x
end

mutual
/-- `DocWF` is the well-formedness the helper lemmas are stated with -/
theorem docWF_iff : ∀ x : PyVal, DocWF x ↔ C07C.DocWF x
  | .list xs => by simp only [DocWF, C07C.DocWF]; exact docWFL_iff xs
  | .tuple xs => by simp only [DocWF, C07C.DocWF]; exact docWFL_iff xs
  | .dict kvs => by simp only [DocWF, C07C.DocWF, docWFD_iff kvs]
  | .none | .bool _ | .int _ | .float _ | .str _ | .type _ | .obj _ => by simp only [DocWF, C07C.DocWF]
theorem docWFL_iff : ∀ xs : List PyVal, DocWFL xs ↔ C07C.DocWFL xs
  | [] => by simp only [DocWFL, C07C.DocWFL]
  | x :: xs => by simp only [DocWFL, C07C.DocWFL, docWF_iff x, docWFL_iff xs]
theorem docWFD_iff : ∀ kvs : List (PyVal × PyVal), DocWFD kvs ↔ C07C.DocWFD kvs
  | [] => by simp only [DocWFD, C07C.DocWFD]
  | (_, v) :: rest => by simp only [DocWFD, C07C.DocWFD, docWF_iff v, docWFD_iff rest]
end

/-- non-vacuity: a nested document with int / str / None keys is well-formed -/
example : DocWF (.dict [(.int 1, .list [.str "3", .dict [(.none, .str "x"), (.str "k", .tuple [.int 2])]]),
    (.str "a", .dict [(.int 0, .none), (.none, .list [])]), (.none, .str "true")]) := by
  simp [DocWF, DocWFL, DocWFD, DistinctKeys, PyVal.hashable, PyVal.pyEq, PyVal.atomEq, PyVal.numKey]

/-- what a declared cast may put in place of the string `s` -/
def CastOf (casts : List (PyType × String)) (s : String) (v : PyVal) : Prop :=
  ∃ fn, (PyType.str, fn) ∈ casts ∧ applyCast fn (.str s) = .ok v

/-- every cast any rule of the schema declares -/
def allCasts (rs : List RuleM) : List (PyType × String) := rs.flatMap (·.cast)

/-- validating a well-formed document against a schema of the domain – with or without casts – returns
    a result: nothing about the document makes it raise -/
theorem C07_validate_total (rs : List RuleM) (doc : PyVal) (d : DataV)
    (hr : ∀ r ∈ rs, RuleOK r) (hwf : DocWF doc) (hdoc : DataV.ofPy doc = .ok d)
    (hcasts : ∀ r ∈ rs, ∀ tf ∈ r.cast, tf.1 = PyType.str) :
    ∀ e, validate rs doc = .error e → e = .unmodelled := by
  exact C07C.validate_total rs doc d hr ((docWF_iff doc).1 hwf) hdoc hcasts

/-- the cast data is the document with exactly such replacements: along every path of the document,
    containers keep their shape (same length, same keys), non-string scalars are type-exactly what they
    were, and a string is either unchanged or replaced by the value of a declared cast that succeeds on it -/
theorem C15_cast_data_is_document_with_casts (rs : List RuleM) (doc : PyVal) (v : Validated)
    (hwf : DocWF doc) (hr : ∀ r ∈ rs, RuleOK r) (hcasts : ∀ r ∈ rs, ∀ tf ∈ r.cast, tf.1 = PyType.str)
    (h : validate rs doc = .ok v) :
    ∀ (q : List PyVal) (x : PyVal), index doc q = some x →
      ∃ y, index v.castData q = some y ∧
        (match x with
         | .str s => y = .str s ∨ CastOf (allCasts rs) s y
         | .list xs => ∃ ys, y = .list ys ∧ ys.length = xs.length
         | .tuple xs => y = .tuple xs
         | .dict kvs => ∃ kvs', y = .dict kvs' ∧ kvs'.map (·.1) = kvs.map (·.1)
         | other => y = other) := by
  exact C07C.cast_data_index rs doc v ((docWF_iff doc).1 hwf) hr hcasts h

/-- a cast-free schema returns the document itself -/
theorem C15_no_casts_no_change (rs : List RuleM) (doc : PyVal) (v : Validated)
    (hc : ∀ r ∈ rs, r.cast = []) (h : validate rs doc = .ok v) : v.castData = doc := by
  exact (C06_castfree_cast_data rs doc hc v h).1

/-! ### non-vacuity: the hypotheses hold together for a concrete schema with casts -/

/-- every child of a mapping (a part object with the null condition) -/
def c07cPart : Part := { kind := .map, cond := Cond.null, listCond := Cond.null, mapCond := Cond.null, label := none }
/-- "every child is an int", with declared casts -/
def c07cRule (casts : List (PyType × String)) : RuleM :=
  { path := { parts := [c07cPart], concrete := false, datum := .none, multi := .none, source := none },
    cond := .leaf { cls := .value, fn := "is_instance", args := [.lit (.type .int)], kwargs := [] },
    cast := casts }
def c07cSchema : List RuleM := [c07cRule [(.str, "int")], c07cRule [(.str, "cast_string_to_bool")], c07cRule []]
def c07cDoc : PyVal := .dict [(.str "a", .str "3"), (.none, .str "TRUE"), (.int 1, .str "x")]

theorem c07cRule_ok (casts : List (PyType × String)) : RuleOK (c07cRule casts) :=
  ⟨rfl, rfl, rfl, ⟨.leaf { cls := .value, fn := "is_instance", args := [.type .int], kwargs := [] }, rfl⟩,
   by intro l hl; simp [c07cRule, Cond.leaves] at hl; subst hl; rfl⟩

theorem c07cSchema_ok : (∀ r ∈ c07cSchema, RuleOK r) ∧ (∀ r ∈ c07cSchema, ∀ tf ∈ r.cast, tf.1 = PyType.str) := by
  constructor
  · intro r hr
    simp only [c07cSchema, List.mem_cons, List.not_mem_nil, or_false] at hr
    rcases hr with rfl | rfl | rfl <;> exact c07cRule_ok _
  · intro r hr tf htf
    simp only [c07cSchema, List.mem_cons, List.not_mem_nil, or_false] at hr
    rcases hr with rfl | rfl | rfl <;> simp [c07cRule] at htf <;> simp [htf]

theorem c07cDoc_wf : DocWF c07cDoc := by
  simp [c07cDoc, DocWF, DocWFD, DistinctKeys, PyVal.hashable, PyVal.pyEq, PyVal.atomEq, PyVal.numKey]

/-- the two theorems apply to it … -/
example : ∀ e, validate c07cSchema c07cDoc = .error e → e = .unmodelled :=
  C07_validate_total c07cSchema c07cDoc _ c07cSchema_ok.1 c07cDoc_wf rfl c07cSchema_ok.2

/-- … and the validation does return, with both casts applied (each by its own rule, the second rule
    selecting in the original document and writing into the copy the first rule already changed) -/
example : (match validate c07cSchema c07cDoc with
     | .ok v => PyVal.pyEq v.castData (.dict [(.str "a", .int 3), (.none, .bool true), (.int 1, .str "x")])
                 && v.tests.length == 3 && !v.isValid
     | .error _ => false) = true := by decide +kernel

end ValidaProofs
