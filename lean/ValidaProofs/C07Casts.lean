/-
  C07 / C15 (cast part) – validation with declared casts never raises because of the document, and the
  cast data is the document with some string leaves replaced by the value a declared cast gives –
  type-exactly equal to the input everywhere else.

  Documents are well-formed: mapping keys are hashable and pairwise different (Python dicts).
-/
import Valida.Rule
import ValidaSpec.Walk
import ValidaProofs.Lemmas.Basic
import ValidaProofs.C03
import ValidaProofs.C04
import ValidaProofs.C07
import ValidaProofs.C15
namespace ValidaProofs
open Valida ValidaGen ValidaSpec

mutual
/-- well-formed document: every mapping has hashable, pairwise different keys, at every depth -/
def DocWF : PyVal → Prop
  | .list xs => DocWFL xs
  | .tuple xs => DocWFL xs
  | .dict kvs => (∀ kv ∈ kvs, PyVal.hashable kv.1 = true) ∧ DistinctKeys kvs ∧ DocWFD kvs
  | _ => True
termination_by structural x => x
def DocWFL : List PyVal → Prop
  | [] => True
  | x :: xs => DocWF x ∧ DocWFL xs
termination_by structural x => x
def DocWFD : List (PyVal × PyVal) → Prop
  | [] => True
  | (_, v) :: rest => DocWF v ∧ DocWFD rest
termination_by structural x => x
end

/-- what a declared cast may put in place of the string `s` -/
def CastOf (casts : List (PyType × String)) (s : String) (v : PyVal) : Prop :=
  ∃ fn, (PyType.str, fn) ∈ casts ∧ applyCast fn (.str s) = .ok v

/-- every cast any rule of the schema declares -/
def allCasts (rs : List RuleM) : List (PyType × String) := rs.flatMap (·.cast)

/-- validating a well-formed document against a schema of the domain – with or without casts – returns
    a result: nothing about the document makes it raise -/
theorem C07_validate_total (rs : List RuleM) (doc : PyVal) (d : DataV)
    (hr : ∀ r ∈ rs, RuleOK r) (hwf : DocWF doc) (hdoc : DataV.ofPy doc = .ok d)
    (hcasts : ∀ r ∈ rs, ∀ tf ∈ r.cast, tf.1 = PyType.str) :
    ∀ e, validate rs doc = .error e → e = .unmodelled := by
  sorry

/-- the cast data is the document with exactly such replacements: along every path of the document,
    containers keep their shape (same length, same keys), non-string scalars are type-exactly what they
    were, and a string is either unchanged or replaced by the value of a declared cast that succeeds on it -/
theorem C15_cast_data_is_document_with_casts (rs : List RuleM) (doc : PyVal) (v : Validated)
    (hwf : DocWF doc) (hr : ∀ r ∈ rs, RuleOK r) (hcasts : ∀ r ∈ rs, ∀ tf ∈ r.cast, tf.1 = PyType.str)
    (h : validate rs doc = .ok v) :
    ∀ (q : List PyVal) (x : PyVal), index doc q = some x →
      ∃ y, index v.castData q = some y ∧
        (match x with
         | .str s => y = .str s ∨ CastOf (allCasts rs) s y
         | .list xs => ∃ ys, y = .list ys ∧ ys.length = xs.length
         | .tuple xs => y = .tuple xs
         | .dict kvs => ∃ kvs', y = .dict kvs' ∧ kvs'.map (·.1) = kvs.map (·.1)
         | other => y = other) := by
  sorry

/-- a cast-free schema returns the document itself -/
theorem C15_no_casts_no_change (rs : List RuleM) (doc : PyVal) (v : Validated)
    (hc : ∀ r ∈ rs, r.cast = []) (h : validate rs doc = .ok v) : v.castData = doc := by
  sorry

end ValidaProofs
