/-
  C12 – serialised data paths rebuild to an equivalent path, or serialisation refuses.
-/
import Valida.Spec.Ser
import ValidaProofs.Lemmas.Basic
import ValidaProofs.Lemmas.C12Parts
namespace ValidaProofs
open Valida ValidaGen

/-- what may be emitted for a part: a plain key / index from which *that part* is rebuilt, or the
    `{type: …}` spec of a bare part equal to it -/
def SpecFor (part : Part) (spec : PyVal) : Prop :=
  (∃ q, Part.ofPrim spec = .ok q ∧ partEq q part = true ∧ (∀ kvs, spec ≠ .dict kvs)) ∨
  (spec = .dict [(.str "type", .str "map_value")] ∧ partEq part (barePart .map) = true) ∨
  (spec = .dict [(.str "type", .str "list_value")] ∧ partEq part (barePart .list) = true) ∨
  (spec = .dict [(.str "type", .str "map_or_list_value")] ∧ partEq part (barePart .molv) = true)

/-- serialisation refuses paths with modifiers or bound data (their part specs alone would describe a
    path that selects differently) -/
theorem C12_refuses_modifiers (p : Path) (h : p.datum ≠ .none ∨ p.multi ≠ .none ∨ p.source.isSome = true) :
    toPartSpecs p = .error .runtime :=
  C12L.toPartSpecs_modifiers p h

/-- soundness: whatever is emitted describes, part by part, a part equal to the original one -/
theorem C12_sound (p : Path) (specs : List PyVal) (h : toPartSpecs p = .ok specs) :
    specs.length = p.parts.length ∧
    (∀ (i : Nat) (part : Part) (spec : PyVal), p.parts[i]? = some part → specs[i]? = some spec → SpecFor part spec) ∧
    p.datum = .none ∧ p.multi = .none ∧ p.source = none ∧
    (p.concrete = false → ∃ kvs, PyVal.dict kvs ∈ specs) := by
  obtain ⟨⟨h1, h2, h3⟩, -, hm, hc⟩ := (C12L.toPartSpecs_ok p specs).1 h
  refine ⟨C12L.mapM_ok_length _ _ _ hm, ?_, h1, h2, h3, ?_⟩
  · intro i part spec hp hs
    exact C12L.emit_ok part spec (C12L.mapM_ok_getElem? _ _ _ hm i part spec hp hs)
  · intro hcf
    rcases hc with hc | hc
    · rw [hcf] at hc; cases hc
    · obtain ⟨s, hs, hd⟩ := List.any_eq_true.1 hc
      obtain ⟨kvs, rfl⟩ := (C12L.isDict_iff s).1 hd
      exact ⟨kvs, hs⟩

/-- parts that cannot be written are refused, never approximated: a value condition, a non-equality
    key condition, a labelled part, a list part with an index, differing key and index -/
theorem C12_refuses_examples (n m : Int) (s : String) (hnm : n ≠ m) :
    (∀ p, Part.mkMap .none (.cond (eqLeaf .value (.int n))) none none = .ok p →
      toPartSpecs { parts := [p], concrete := false, datum := .none, multi := .none, source := none } = .error .runtime) ∧
    (∀ p, Part.mkMap (.cond (.leaf { cls := .key, fn := "greater_than", args := [], kwargs := [("value", .str s)] })) .none none none = .ok p →
      toPartSpecs { parts := [p], concrete := false, datum := .none, multi := .none, source := none } = .error .runtime) ∧
    (∀ p, Part.mkMap (.val (.str s)) .none none (some (.str "lbl")) = .ok p →
      toPartSpecs { parts := [p], concrete := false, datum := .none, multi := .none, source := none } = .error .runtime) ∧
    (∀ p, Part.mkList (.val (.int n)) .none none none = .ok p →
      toPartSpecs { parts := [p], concrete := false, datum := .none, multi := .none, source := none } = .error .runtime) ∧
    (∀ p, Part.mkMolv (.val (.int n)) (.val (.int m)) .none none none none none = .ok p →
      toPartSpecs { parts := [p], concrete := false, datum := .none, multi := .none, source := none } = .error .runtime) :=
  ⟨fun p h => C12L.toPartSpecs_single_error p false (C12L.refuse_value n p h),
   fun p h => C12L.toPartSpecs_single_error p false (C12L.refuse_gt s p h),
   fun p h => C12L.toPartSpecs_single_error p false (C12L.refuse_label s p h),
   fun p h => C12L.toPartSpecs_single_error p false (C12L.refuse_list_index n p h),
   fun p h => C12L.toPartSpecs_single_error p false (C12L.refuse_key_index n m hnm p h)⟩

/-- the specs of bare parts are read back as bare parts -/
theorem C12_bare_specs_parse (fuel : Nat) :
    parsePart (fuel + 1) [(.str "type", .str "map_value")] = .ok (barePart .map) ∧
    parsePart (fuel + 1) [(.str "type", .str "list_value")] = .ok (barePart .list) ∧
    parsePart (fuel + 1) [(.str "type", .str "map_or_list_value")] = .ok (barePart .molv) :=
  C12L.bare_specs_parse fuel

/-- round trip: the emitted specs rebuild a path whose parts are pairwise equal to the original's, with
    no modifiers and no bound data (so `pathEq` holds once `concrete` agrees, which it does for paths
    built by `DataPath(...)`: concrete iff all parts came from primitives) -/
theorem C12_roundtrip (fuel : Nat) (p : Path) (specs : List PyVal) (h : toPartSpecs p = .ok specs) :
    ∃ p', fromPartSpecs (fuel + 2) specs = .ok p' ∧ listEq partEq p'.parts p.parts = true ∧
      p'.datum = .none ∧ p'.multi = .none ∧ p'.source = none ∧
      (p'.concrete = true ↔ ∀ s ∈ specs, ∀ kvs, s ≠ .dict kvs) := by
  obtain ⟨-, -, hm, -⟩ := (C12L.toPartSpecs_ok p specs).1 h
  obtain ⟨parts', hr, heq⟩ := C12L.rebuild_emit_list fuel p.parts specs hm
  refine ⟨_, C12L.fromPartSpecs_of_rebuild (fuel + 1) specs parts' hr, heq, rfl, rfl, rfl, ?_⟩
  simp only [List.all_eq_true, Bool.not_eq_true', C12L.isDict_false_iff]

/-- concrete paths of plain keys and indices always serialise, to exactly those keys and indices -/
theorem C12_prims_roundtrip (prims : List PyVal) (p : Path)
    (hprim : ∀ v ∈ prims, (∃ s, v = .str s) ∨ (∃ n, v = .int n))
    (h : Path.mk' (prims.map PartArg.prim) = .ok p) : toPartSpecs p = .ok prims :=
  C12L.prims_roundtrip prims p hprim h

end ValidaProofs
