/-
  C12 – serialised data paths rebuild to an equivalent path, or serialisation refuses.
-/
import Valida.Spec.Ser
import ValidaProofs.Lemmas.Basic
namespace ValidaProofs
open Valida ValidaGen

/-- what may be emitted for a part: a plain key / index from which *that part* is rebuilt, or the
    `{type: …}` spec of a bare part equal to it -/
def SpecFor (part : Part) (spec : PyVal) : Prop :=
  (∃ q, Part.ofPrim spec = .ok q ∧ partEq q part = true ∧ (∀ kvs, spec ≠ .dict kvs)) ∨
  (spec = .dict [(.str "type", .str "map_value")] ∧ partEq part (barePart .map) = true) ∨
  (spec = .dict [(.str "type", .str "list_value")] ∧ partEq part (barePart .list) = true) ∨
  (spec = .dict [(.str "type", .str "map_or_list_value")] ∧ partEq part (barePart .molv) = true)

/-- serialisation refuses paths with modifiers or bound data (their part specs alone would describe a
    path that selects differently) -/
theorem C12_refuses_modifiers (p : Path) (h : p.datum ≠ .none ∨ p.multi ≠ .none ∨ p.source.isSome = true) :
    toPartSpecs p = .error .runtime := by
  sorry

/-- soundness: whatever is emitted describes, part by part, a part equal to the original one -/
theorem C12_sound (p : Path) (specs : List PyVal) (h : toPartSpecs p = .ok specs) :
    specs.length = p.parts.length ∧
    (∀ (i : Nat) (part : Part) (spec : PyVal), p.parts[i]? = some part → specs[i]? = some spec → SpecFor part spec) ∧
    p.datum = .none ∧ p.multi = .none ∧ p.source = none ∧
    (p.concrete = false → ∃ kvs, PyVal.dict kvs ∈ specs) := by
  sorry

/-- parts that cannot be written are refused, never approximated: a value condition, a non-equality
    key condition, a labelled part, a list part with an index, differing key and index -/
theorem C12_refuses_examples (n m : Int) (s : String) (hnm : n ≠ m) :
    (∀ p, Part.mkMap .none (.cond (eqLeaf .value (.int n))) none none = .ok p →
      toPartSpecs { parts := [p], concrete := false, datum := .none, multi := .none, source := none } = .error .runtime) ∧
    (∀ p, Part.mkMap (.cond (.leaf { cls := .key, fn := "greater_than", args := [], kwargs := [("value", .str s)] })) .none none none = .ok p →
      toPartSpecs { parts := [p], concrete := false, datum := .none, multi := .none, source := none } = .error .runtime) ∧
    (∀ p, Part.mkMap (.val (.str s)) .none none (some (.str "lbl")) = .ok p →
      toPartSpecs { parts := [p], concrete := false, datum := .none, multi := .none, source := none } = .error .runtime) ∧
    (∀ p, Part.mkList (.val (.int n)) .none none none = .ok p →
      toPartSpecs { parts := [p], concrete := false, datum := .none, multi := .none, source := none } = .error .runtime) ∧
    (∀ p, Part.mkMolv (.val (.int n)) (.val (.int m)) .none none none none none = .ok p →
      toPartSpecs { parts := [p], concrete := false, datum := .none, multi := .none, source := none } = .error .runtime) := by
  sorry

/-- the specs of bare parts are read back as bare parts -/
theorem C12_bare_specs_parse (fuel : Nat) :
    parsePart (fuel + 1) [(.str "type", .str "map_value")] = .ok (barePart .map) ∧
    parsePart (fuel + 1) [(.str "type", .str "list_value")] = .ok (barePart .list) ∧
    parsePart (fuel + 1) [(.str "type", .str "map_or_list_value")] = .ok (barePart .molv) := by
  sorry

/-- round trip: the emitted specs rebuild a path whose parts are pairwise equal to the original's, with
    no modifiers and no bound data (so `pathEq` holds once `concrete` agrees, which it does for paths
    built by `DataPath(...)`: concrete iff all parts came from primitives) -/
theorem C12_roundtrip (fuel : Nat) (p : Path) (specs : List PyVal) (h : toPartSpecs p = .ok specs) :
    ∃ p', fromPartSpecs (fuel + 2) specs = .ok p' ∧ listEq partEq p'.parts p.parts = true ∧
      p'.datum = .none ∧ p'.multi = .none ∧ p'.source = none ∧
      (p'.concrete = true ↔ ∀ s ∈ specs, ∀ kvs, s ≠ .dict kvs) := by
  sorry

/-- concrete paths of plain keys and indices always serialise, to exactly those keys and indices -/
theorem C12_prims_roundtrip (prims : List PyVal) (p : Path)
    (hprim : ∀ v ∈ prims, (∃ s, v = .str s) ∨ (∃ n, v = .int n))
    (h : Path.mk' (prims.map PartArg.prim) = .ok p) : toPartSpecs p = .ok prims := by
  sorry

end ValidaProofs
