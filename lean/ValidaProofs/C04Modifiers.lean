/-
  C04 – `get_data` with modifiers, end to end: every reported value is paired with ITS OWN path.

  `C03_get_data` equates the modifier-free `get_data(return_paths=True)` with the depth-first walk.
  Here the datum and multiplicity modifiers are added: the result is the walk, each node passed through
  the datum modifier and paired with the path that was followed to reach that node, and then
  the multiplicity modifier picks among these PAIRS – so `first()` / `last()` / `single()` return a value
  together with the path of the node it was computed from, and that path, looked up in the document, gives
  that node.
-/
import Valida.Path
import ValidaSpec.Walk
import ValidaProofs.C03
import ValidaProofs.C04
import ValidaProofs.C07Casts
import ValidaProofs.Lemmas.C04Modifiers
namespace ValidaProofs
open Valida ValidaGen ValidaSpec
open C04M

/-- the pairs `get_data(return_paths=True)` is made of: the datum modifier applied to each node of the
    walk, with that node's path -/
def pairsOf (d : DatumMod) (w : List (PyVal × List PyVal)) : Except Exc (List PyVal) := do
  let vals ← (w.map (·.1)).mapM (datumFn d)
  pure ((vals.zip (w.map (·.2))).map (fun vp => PyVal.tuple [vp.1, .tuple vp.2]))

/-- `get_data(doc, return_paths=True)` for ANY modifiers: the walk, the datum modifier on each node, each
    value paired with its own path, then the multiplicity modifier on the pairs -/
theorem C04_get_data_modifiers (p : Path) (doc : PyVal) (hne : p.parts ≠ []) (hs : StepsOk p.parts)
    (hsrc : p.source = none) (hdoc : PyVal.truthy doc = true) :
    p.getData (some doc) true =
      (let w := walk childrenOf p.parts doc []
       if w.isEmpty then .ok (if p.concrete then .none else .list [])
       else (pairsOf p.datum w).bind (matchMulti p.multi p.concrete)) := by
  obtain ⟨nodes, paths, h, hz, hl⟩ := C03_walk p.parts doc hne hs
  rw [← hz]
  exact getData_of_walk_mod p doc nodes paths hne hsrc hdoc h hl

/-- `first()` / `last()`: the returned pair is the datum modifier of the first / last node of the walk,
    with the path of THAT node -/
theorem C04_first_last_pairing (p : Path) (doc : PyVal) (hne : p.parts ≠ []) (hs : StepsOk p.parts)
    (hsrc : p.source = none) (hdoc : PyVal.truthy doc = true) (out : PyVal)
    (hm : p.multi = .first ∨ p.multi = .last)
    (h : p.getData (some doc) true = .ok out) (hw : walk childrenOf p.parts doc [] ≠ []) :
    ∃ node q v, (if p.multi = .first then (walk childrenOf p.parts doc []).head? else (walk childrenOf p.parts doc []).getLast?) = some (node, q)
      ∧ datumFn p.datum node = .ok v ∧ out = .tuple [v, .tuple q] := by
  rw [C04_get_data_modifiers p doc hne hs hsrc hdoc] at h
  have hw' : (walk childrenOf p.parts doc []).isEmpty = false := by
    cases hh : walk childrenOf p.parts doc [] with
    | nil => exact absurd hh hw
    | cons a l => rfl
  simp only [hw', Bool.false_eq_true, if_false] at h
  cases hp : pairsOf p.datum (walk childrenOf p.parts doc []) with
  | error e => simp [hp, Except.bind] at h
  | ok ps =>
    simp only [hp, Except.bind] at h
    rcases hm with hm | hm
    · simp only [hm, matchMulti, if_true] at h ⊢
      cases hx : ps.head? with
      | none => simp [hx] at h
      | some x =>
        simp only [hx, Except.ok.injEq] at h
        subst h
        exact pairs_head? p.datum _ ps hp x hx
    · have hnf : (MultiMod.last = MultiMod.first) = False := by simp
      simp only [hm, matchMulti, hnf, if_false] at h ⊢
      cases hx : ps.getLast? with
      | none => simp [hx] at h
      | some x =>
        simp only [hx, Except.ok.injEq] at h
        subst h
        exact pairs_getLast? p.datum _ ps hp x hx

/-- truthfulness with modifiers, on well-formed documents (every mapping has hashable, pairwise different
    keys): whatever the modifiers, every pair `(v, q)` the result is made of has `v` = the datum modifier of
    the node found by looking `q` up in the document -/
theorem C04_pairs_truthful (p : Path) (doc : PyVal) (hne : p.parts ≠ []) (hs : StepsOk p.parts)
    (hwf : DocWF doc) (pairs : List PyVal)
    (h : pairsOf p.datum (walk childrenOf p.parts doc []) = .ok pairs) :
    ∀ x ∈ pairs, ∃ v q node, x = .tuple [v, .tuple q] ∧ index doc q = some node ∧ datumFn p.datum node = .ok v := by
  intro x hx
  obtain ⟨nq, hnq, v, hv, rfl⟩ := pairs_mem p.datum _ pairs h x hx
  exact ⟨v, nq.2, nq.1, rfl, walk_truth p.parts doc hne hs hwf nq hnq, hv⟩

/-- non-vacuity and the point of the theorem on a concrete case: three lists of different lengths, the
    `length` of the `last()` one comes with the path of the last one -/
example :
    let doc : PyVal := .dict [(.str "a", .list [.list [.int 1], .list [.int 2, .int 3], .list [.int 4, .int 5, .int 6]])]
    let lv : Part := { kind := .list, cond := Cond.null, listCond := Cond.null, mapCond := Cond.null, label := none }
    (match Part.ofPrim (.str "a") with
     | .ok a =>
        let p : Path := { parts := [a, lv], concrete := false, datum := .length, multi := .last, source := none }
        (match p.getData (some doc) true with
         | .ok out => PyVal.pyEq out (.tuple [.int 3, .tuple [.str "a", .int 2]])
         | .error _ => false)
     | .error _ => false) = true := by
  decide +kernel

end ValidaProofs
