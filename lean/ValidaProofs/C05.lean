/-
  C05 – a rule is valid iff every node its path selects satisfies its condition; the failure list is exact.

  `ruleTestOn` transcribes `RuleTest._test`: the selection `[(value, path), …]` is filtered *with
  paths* (`data_has_paths=True`): the left-most leaf of the condition tree unpacks the pairs and strips
  the paths off the shared `Data`, every later leaf sees plain values.
-/
import Valida.Rule
import ValidaProofs.Lemmas.Basic
import ValidaProofs.C02
import ValidaProofs.Lemmas.C05Rule
namespace ValidaProofs
open Valida ValidaGen
open C05L

/-- every leaf of the tree reads values (value-kind conditions, the domain of C05) -/
def ValueKind (c : Cond RArg) : Prop := ∀ l ∈ c.leaves, (l.cls.info.map (·.readsKeys)) = .ok false

/-- the selection as wrapped data: values are `(value, path)` pairs -/
def pairData (sub : List (PyVal × PyVal)) : DataV :=
  { isList := true, keys := rangeVals sub.length, values := sub.map (fun vp => PyVal.tuple [vp.1, vp.2]) }

/-- the same selection with the paths stripped -/
def plainData (sub : List (PyVal × PyVal)) : DataV :=
  { isList := true, keys := rangeVals sub.length, values := sub.map (·.1) }

/-- Filtering with paths is filtering the plain values: whatever the shape of the tree, the paths are
    extracted exactly once (at the left-most leaf), every leaf judges the plain values, and the
    concrete paths come back in selection order. -/
theorem C05_paths_first_leaf (c : Cond RArg) (sub : List (PyVal × PyVal)) (hv : ValueKind c) :
    filterAux c (pairData sub) true =
      (filterAux c (plainData sub) false).map (fun r => (r.1, plainData sub, some (sub.map (·.2)))) := by
  exact filterAux_pairs c sub hv

/-- a false item always carries at least one textual reason: a false `and`/`or` has a false child, a
    false `xor` records itself, a false leaf has one of its three flags set -/
theorem C05_reasons_nonempty (c : Cond RArg) (d : DataV) (fd : FD) (d' : DataV) (p : Option (List PyVal))
    (hd : d.keys.length = d.values.length)
    (h : filterAux c d false = .ok (fd, d', p)) (i : Nat) (hi : fd.result[i]? = some false) :
    fd.reasonsAt i ≠ [] := by
  have _ := hd
  obtain ⟨rfl, rfl⟩ := C02_filter_frame c d fd d' p h
  exact reasonsAt_ne_nil fd i hi

/-- when the path selects nothing the rule is valid and reported as not tested -/
theorem C05_untested (r : RuleM) (doc : PyVal) (d : DataV) (hdoc : DataV.ofPy doc = .ok d)
    (h : selection r.path doc = .ok none) :
    ruleTestOn r doc = .ok { tested := false, isValid := true, failures := [], data := doc } := by
  exact ruleTestOn_untested r doc d hdoc h

/-- the verdict: tested; valid exactly when every selected node satisfies the condition; the failure
    list is exactly the selected nodes that do not, in selection order, each with its value, its
    concrete path and at least one reason; the failure count is the list's length -/
theorem C05_verdict (r : RuleM) (doc : PyVal) (t : RuleTestR) (sub : List (PyVal × PyVal))
    (hsel : selection r.path doc = .ok (some (sub.map (fun vp => PyVal.tuple [vp.1, vp.2]))))
    (hne : sub ≠ []) (hv : ValueKind (r.cond.resolve (some doc)))
    (h : ruleTestOn r doc = .ok t) :
    ∃ fd, filterAux (r.cond.resolve (some doc)) (plainData sub) false = .ok (fd, plainData sub, none) ∧
      t.tested = true ∧
      t.isValid = fd.result.all id ∧
      t.failures.map (·.index) = failureIndices fd.result ∧
      (∀ f ∈ t.failures, sub[f.index]? = some (f.value, f.path) ∧ f.reasons ≠ [] ∧ fd.result[f.index]? = some false) ∧
      t.failures.length = (fd.result.filter (!·)).length := by
  exact ruleTestOn_verdict r doc t sub hsel hne hv h

/-- the booleans the verdict is built from are one per selected node -/
theorem C05_one_per_node (r : RuleM) (doc : PyVal) (sub : List (PyVal × PyVal)) (fd : FD) (d' : DataV)
    (p : Option (List PyVal))
    (h : filterAux (r.cond.resolve (some doc)) (plainData sub) false = .ok (fd, d', p)) :
    fd.result.length = sub.length := by
  have := C02_result_length _ _ fd d' p (plainD_lengths sub) h
  simpa [plainD] using this

end ValidaProofs
