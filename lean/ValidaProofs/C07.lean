/-
  C07 – validation never raises because of what the document contains.
-/
import Valida.Rule
import ValidaProofs.Lemmas.Basic
import ValidaProofs.C02
import ValidaProofs.C03
import ValidaProofs.C05
import ValidaProofs.Lemmas.C07Total
import ValidaProofs.Lemmas.C07Rule
namespace ValidaProofs
open Valida ValidaGen
open C07L

/-- a rule of the property's domain: modifier-free path without bound source data, value-kind
    condition tree whose arguments are literals -/
structure RuleOK (r : RuleM) : Prop where
  datum : r.path.datum = .none
  multi : r.path.multi = .none
  source : r.path.source = none
  lits : ∃ c : Cond PyVal, r.cond = c.mapArgs Arg.lit
  valueKind : ∀ l ∈ r.cond.leaves, (l.cls.info.map (·.readsKeys)) = .ok false

/-- the walk of a modifier-free path raises nothing but the model's pseudo-outcome, whatever the
    document: the lock-step index never fails and every inapplicable part is skipped -/
theorem C07_walk_total (parts : List Part) (data : List PyVal) (paths : List (List PyVal)) (first : Bool)
    (hlen : first = true ∨ data.length = paths.length) :
    ∀ e, walkParts parts first data paths = .error e → e = .unmodelled := by
  exact walkParts_err parts first data paths hlen

/-- selecting the nodes of a rule's path never raises because of the document -/
theorem C07_selection_total (p : Path) (doc : PyVal) (hd : p.datum = .none) (hm : p.multi = .none)
    (hs : p.source = none) (hdoc : PyVal.truthy doc = true) :
    ∀ e, selection p doc = .error e → e = .unmodelled := by
  exact selection_err p doc hd hm hs hdoc

/-- what `selection` returns is a non-empty list of `(value, path)` pairs -/
theorem C07_selection_shape (p : Path) (doc : PyVal) (hd : p.datum = .none) (hm : p.multi = .none)
    (hs : p.source = none) (sub : List PyVal) (h : selection p doc = .ok (some sub)) :
    sub ≠ [] ∧ ∀ x ∈ sub, ∃ v q, x = PyVal.tuple [v, PyVal.tuple q] := by
  exact selection_shape p doc hd hm hs sub h

/-- testing one cast-free rule of the domain on any non-empty document returns a rule test -/
theorem C07_rule_total (r : RuleM) (doc : PyVal) (d : DataV) (hr : RuleOK r) (hdoc : DataV.ofPy doc = .ok d) :
    ∀ e, ruleTestOn r doc = .error e → e = .unmodelled := by
  exact ruleTestOn_err r doc d hr.datum hr.multi hr.source hr.lits hr.valueKind hdoc

/-- a declared cast that cannot convert a string does not raise: the `except` tuple of `Rule.test`
    (read from the source) catches what `int()` and `cast_string_to_bool` raise -/
theorem C07_cast_total (casts : List (PyType × String)) (v : PyVal) :
    ∀ e, castNode casts v = .error e → e = .unmodelled := by
  exact castNode_err casts v

/-- validating any non-empty document against a cast-free schema of the domain returns a result -/
theorem C07_validate_total_castfree (rs : List RuleM) (doc : PyVal) (d : DataV)
    (hr : ∀ r ∈ rs, RuleOK r ∧ r.cast = []) (hdoc : DataV.ofPy doc = .ok d) :
    ∀ e, validate rs doc = .error e → e = .unmodelled := by
  exact validate_err rs doc d hdoc (fun r h => (hr r h).2)
    (fun r h => C07_rule_total r doc d (hr r h).1 hdoc)

end ValidaProofs
