/-
  C15 – casts replace exactly the castable selected nodes in a private copy.

  The model is purely functional: the caller's document `doc` is never written (there is nothing to
  write to); the "private copy" is the value threaded through `validateLoop`.
-/
import Valida.Rule
import ValidaSpec.Walk
import ValidaProofs.Lemmas.Basic
import ValidaProofs.Lemmas.C15Cast
namespace ValidaProofs
open Valida ValidaGen ValidaSpec
open C15L

/-- the cast tables of the source: only strings are cast, to bool or to int -/
theorem C15_cast_tables :
    castLookup = [((PyType.str, PyType.bool), "cast_string_to_bool"), ((PyType.str, PyType.int), "int")] ∧
    castDtypeLookup = [("str", PyType.str), ("bool", PyType.bool), ("int", PyType.int)] := by
  exact ⟨rfl, rfl⟩

/-- `cast_string_to_bool`: "true"/"false" in any letter case, anything else is not converted -/
theorem C15_cast_bool (s : String) :
    castStringToBool s =
      (if String.ofList (s.toList.map Char.toLower) = "true" then .ok (.bool true)
       else if String.ofList (s.toList.map Char.toLower) = "false" then .ok (.bool false)
       else .error .typeError) := by
  exact castStringToBool_eq s

/-- a node whose type has no declared cast is left as it is -/
theorem C15_uncastable_type (casts : List (PyType × String)) (v : PyVal)
    (h : ∀ c ∈ casts, PyVal.instOf v c.1 = false) : castNode casts v = .ok none := by
  exact castNode_uncastable casts v h

/-- a string under a single declared cast: replaced when the cast succeeds, left alone when the cast
    raises one of the exceptions `Rule.test` catches -/
theorem C15_cast_str (fn : String) (s : String) :
    castNode [(PyType.str, fn)] (.str s) =
      (match applyCast fn (.str s) with
       | .ok v' => .ok (some v')
       | .error e => if caughtBy catchesCast e then .ok none else .error e) := by
  exact castNode_str_single fn s

/-- the rule is judged on the copy (with this rule's casts applied) when it declares casts, on the
    document itself otherwise; a cast-free rule leaves the copy alone -/
theorem C15_judged_on_copy (r : RuleM) (doc copy : PyVal) (t : RuleTestR) (copy' : PyVal)
    (h : r.test doc copy = .ok (t, copy')) :
    (r.cast = [] → t.data = doc ∧ copy' = copy) ∧ (r.cast ≠ [] → t.data = copy') := by
  exact test_judged r doc copy t copy' h

/-- the nodes a rule casts are the ones its path selects in the document it was GIVEN – read from the source
    (`castSelectsInDocument`: `self.path.get_data(data, ...)`) – whatever earlier rules have written into the
    shared working copy: a later rule selecting by the content an earlier rule cast still finds its nodes -/
theorem C15_cast_selection_in_document (r : RuleM) (doc copy : PyVal) (hc : r.cast ≠ []) :
    castSelectsInDocument = true ∧
    r.test doc copy = (do
      let _ ← DataV.ofPy doc
      let copy' ← match ← selection r.path doc with
        | none => pure copy
        | some sub => castLoop r.cast sub copy
      let t ← ruleTestOn r copy'
      pure (t, copy')) := by
  refine ⟨rfl, ?_⟩
  have he : r.cast.isEmpty = false := by
    cases hcs : r.cast with
    | nil => exact absurd hcs hc
    | cons a as => rfl
  unfold RuleM.test
  rw [castSource_eq, he]
  rfl

/-- writing one level: the written key now holds the value, every other key holds what it held -/
theorem C15_setItem_dict (kvs : List (PyVal × PyVal)) (k v : PyVal) (c' : PyVal)
    (hk : Py.dictHasKey k kvs = true) (h : setItem (.dict kvs) k v = .ok c') :
    ∃ kvs', c' = .dict kvs' ∧ kvs'.map (·.1) = kvs.map (·.1) ∧
      ∀ (i : Nat) (kv : PyVal × PyVal), kvs[i]? = some kv →
        kvs'[i]? = some (if PyVal.pyEq k kv.1 then (kv.1, v) else kv) := by
  exact setItem_dict_spec kvs k v c' hk h

theorem C15_setItem_list (xs : List PyVal) (i : Nat) (v : PyVal) (hi : i < xs.length) :
    setItem (.list xs) (.int i) v = .ok (.list (xs.set i v)) := by
  exact setItem_list_spec xs i v hi

/-- nodes that are not selected-and-castable are not written: if no selected node is castable the
    copy is returned as it is -/
theorem C15_nothing_castable (casts : List (PyType × String)) (sub : List PyVal) (copy : PyVal)
    (h : ∀ x ∈ sub, ∃ v q, x = PyVal.tuple [v, PyVal.tuple q] ∧ castNode casts v = .ok none) :
    castLoop casts sub copy = .ok copy := by
  exact castLoop_nothing casts sub copy h

/-- one castable node at path `q`: the copy afterwards is the copy with that node replaced -/
theorem C15_one_castable (casts : List (PyType × String)) (v v' : PyVal) (q : List PyVal) (copy : PyVal)
    (hq : q ≠ []) (hc : castNode casts v = .ok (some v')) :
    castLoop casts [PyVal.tuple [v, PyVal.tuple q]] copy = setAt copy q v' := by
  exact castLoop_one casts v v' q copy hq hc

/-- the schema result's cast data is the copy after all rules, in applied order -/
theorem C15_cast_data_fold (rs : List RuleM) (doc : PyVal) (v : Validated) (h : validate rs doc = .ok v) :
    ∃ ts, validateLoop rs doc doc = .ok (ts, v.castData) ∧ v.tests = ts := by
  exact validate_fold rs doc v h

/-! non-vacuity -/
example : valueIs (do
    let p ← Path.mk' [.prim (.str "a"), .prim (.int 0)]
    let r : RuleM := { path := p, cond := .leaf { cls := .value, fn := "is_instance", args := [.lit (.type .int)], kwargs := [] },
                       cast := [(.str, "int")] }
    let v ← validate [r] (.dict [(.str "a", .list [.str "3", .str "x"])])
    pure v.castData) (.dict [(.str "a", .list [.int 3, .str "x"])]) = true := by
  decide +kernel

end ValidaProofs
