/-
  C14 (headline) – "objects that compare equal select the same nodes and give the same verdicts".

  As stated for arbitrary `==`-equal arguments this is false (finding D16: `1 == 1.0 == True`, but
  `range(1.0, 5)` refuses a float).  What is true, and proved here: conditions that are the same up to
  (i) the order of the operands of any combination and (ii) the order of the keyword arguments of any
  single condition – same classes, callables and *identical* arguments – compare equal AND give the
  same booleans on all data.  That is exactly what `==` promises once the arguments are type-exactly
  equal: the only freedom `Condition.__eq__` has beyond D16 is the order of keyword arguments (dict
  equality) and `ConditionBinaryOp.__eq__` the order of the two children.

  Two genuine exceptions were found while proving the behavioural half (details and counterexamples
  above `C14_same_behaviour`):
  * data WITH paths (`data_has_paths=True`, i.e. the call `Rule.test` makes): the first child of a
    combination strips the paths and used to unpack `datum, _ = datum` from whatever it reads, so
    `Index.equal_to(0) & Value.equal_to(1)` raised `TypeError` where the equal
    `Value.equal_to(1) & Index.equal_to(0)` returned a verdict.  REPAIRED in the library (only a
    value-reading condition unpacks; generated flag `filterUnpacksValuesOnly`, guarded by
    `C14_filter_unpacks_values_only`); the theorem now holds for data with paths unconditionally, and the
    former counterexamples are kept as positive examples;
  * two data-path keyword arguments whose resolutions fail with different exceptions, one inside and
    one outside the `except` tuple of `Condition._filter`: the first in keyword order decides
    (hypothesis `KwErrAgree`, still needed).
  What does NOT depend on the keyword order, although it looked suspicious: Python's argument binding
  (by name), and the loop of `items_contain(**items)` over the collected dict (it returns `False` at
  the first missing / different item and fails in the same way at any item of a non-mapping).
-/
import Valida.Cond
import Valida.Eq
import ValidaProofs.Lemmas.Basic
import ValidaProofs.Lemmas.PyEq
import ValidaProofs.Lemmas.C14BehaveCall
import ValidaProofs.Lemmas.C14BehaveFilter
import ValidaProofs.C14
namespace ValidaProofs
open Valida ValidaGen

/-- the same condition up to operand order and keyword order -/
inductive CondSame {α : Type} : Cond α → Cond α → Prop
  | leaf (cls : CClass) (fn : String) (args : List α) (kw kw' : List (String × α))
      (hperm : kw.Perm kw') (hnodup : (kw.map (·.1)).Nodup) :
      CondSame (.leaf { cls := cls, fn := fn, args := args, kwargs := kw })
               (.leaf { cls := cls, fn := fn, args := args, kwargs := kw' })
  | straight (op : BinOp) (a b a' b' : Cond α) : CondSame a a' → CondSame b b' → CondSame (.bin op a b) (.bin op a' b')
  | crossed (op : BinOp) (a b a' b' : Cond α) : CondSame a b' → CondSame b a' → CondSame (.bin op a b) (.bin op a' b')

/-! ### equality -/

/-- (a little more than stated below: the argument equality need only be reflexive on the stored
    arguments of the condition – Python's `==` is reflexive on hashable values, not on all) -/
theorem C14_same_is_equal_on {α : Type} (eqA : α → α → Bool) (c d : Cond α) (h : CondSame c d)
    (hrefl : ∀ a ∈ condArgs c, eqA a a = true) : condEqWith eqA c d = true := by
  induction h with
  | leaf cls fn args kw kw' hperm hnodup =>
    simp only [condArgs, List.mem_append] at hrefl
    have h1 : listEq eqA args args = true := C14L.listEq_refl eqA args (fun x hx => hrefl x (Or.inl hx))
    have h2 : kwEq eqA kw kw' = true := by
      rw [C14L.kwEq_iff]
      refine ⟨hperm.length_eq, fun kv hkv => ⟨kv.2, ?_, hrefl _ (Or.inr (List.mem_map_of_mem (f := (·.2)) hkv))⟩⟩
      exact C14L.lookupStr_of_nodup (C14B.nodup_perm hperm hnodup) (hperm.subset hkv)
    simp only [condEqWith, beq_self_eq_true, h1, h2, Bool.and_self]
  | straight op a b a' b' _ _ iha ihb =>
    simp only [condArgs, List.mem_append] at hrefl
    simp only [condEqWith, beq_self_eq_true, iha (fun x hx => hrefl x (Or.inl hx)),
      ihb (fun x hx => hrefl x (Or.inr hx)), Bool.and_self, Bool.true_or]
  | crossed op a b a' b' _ _ iha ihb =>
    simp only [condArgs, List.mem_append] at hrefl
    simp only [condEqWith, beq_self_eq_true, iha (fun x hx => hrefl x (Or.inl hx)),
      ihb (fun x hx => hrefl x (Or.inr hx)), Bool.and_self, Bool.or_true]

/-- … such conditions compare equal (with any reflexive, symmetric argument equality, e.g. Python `==`
    on hashable literals) -/
theorem C14_same_is_equal {α : Type} (eqA : α → α → Bool) (hrefl : ∀ a, eqA a a = true)
    (c d : Cond α) (h : CondSame c d) : condEqWith eqA c d = true :=
  C14_same_is_equal_on eqA c d h (fun a _ => hrefl a)

/-! ### behaviour -/

/-- any two failing (data-path) keyword arguments of a single condition are treated alike by the `except`
    clause around the call of `Condition._filter`: both caught or both not.  Holds in particular when at
    most one keyword argument of each single condition fails to resolve, and when all are literals. -/
def KwErrAgree (c : Cond RArg) : Prop := ∀ l ∈ c.leaves, C14B.ErrAgree l.kwargs

/-- all keyword arguments are resolved values (literals, or data paths that resolved) -/
def KwResolved (c : Cond RArg) : Prop := ∀ l ∈ c.leaves, ∀ kv ∈ l.kwargs, ∃ v, kv.2 = .ok v

theorem KwErrAgree_of_resolved (c : Cond RArg) (h : KwResolved c) : KwErrAgree c := by
  intro l hl n₁ e₁ n₂ e₂ h₁ _
  obtain ⟨v, hv⟩ := h l hl _ h₁
  cases hv

/-- conditions with literal arguments only -/
theorem KwResolved_lit (c : Cond PyVal) : KwResolved c.lit := by
  induction c with
  | leaf l =>
    intro l' hl' kv hkv
    simp only [Cond.lit, Cond.mapArgs, Cond.leaves, List.mem_singleton] at hl'
    subst hl'
    obtain ⟨x, _, rfl⟩ := List.mem_map.1 hkv
    exact ⟨x.2, rfl⟩
  | bin op a b iha ihb =>
    intro l' hl'
    simp only [Cond.lit, Cond.mapArgs, Cond.leaves, List.mem_append] at hl'
    rcases hl' with hl' | hl'
    · exact iha l' hl'
    · exact ihb l' hl'

theorem KwErrAgree_bin (op : BinOp) (a b : Cond RArg) (h : KwErrAgree (.bin op a b)) :
    KwErrAgree a ∧ KwErrAgree b :=
  ⟨fun l hl => h l (by simp [Cond.leaves, hl]), fun l hl => h l (by simp [Cond.leaves, hl])⟩

theorem zipWith_or_comm (xs ys : List Bool) :
    List.zipWith (· || ·) xs ys = List.zipWith (· || ·) ys xs :=
  List.zipWith_comm_of_comm (fun x y => Bool.or_comm x y)

/-- the behavioural statement for data without paths (`data_has_paths=False`: every public `filter` /
    `test` call except the one of `Rule.test`) -/
theorem C14_same_behaviour_plain (c d : Cond RArg) (h : CondSame c d) (hk : KwErrAgree c) (data : DataV)
    (f : FD) (hf : filterAux c data false = .ok (f, data, none)) :
    ∃ f', filterAux d data false = .ok (f', data, none) ∧ f'.result = f.result ∧
      f'.preErr = f.preErr ∧ f'.cErr = f.cErr := by
  induction h generalizing f with
  | leaf cls fn args kw kw' hperm hnodup =>
    have hagree : C14B.ErrAgree kw :=
      hk { cls := cls, fn := fn, args := args, kwargs := kw } (by simp [Cond.leaves])
    exact ⟨f, C14B.filterAux_leaf_perm cls fn args hperm hnodup hagree data f data none hf, rfl, rfl, rfl⟩
  | straight op a b a' b' _ _ iha ihb =>
    obtain ⟨hka, hkb⟩ := KwErrAgree_bin op a b hk
    obtain ⟨fa, fb, ha, hb, rfl⟩ := filterAux_bin_inv op a b data f data none hf
    obtain ⟨fa', ha', ea, pa, ca⟩ := iha hka fa ha
    obtain ⟨fb', hb', eb, pb, cb⟩ := ihb hkb fb hb
    exact ⟨_, filterAux_bin_ok op a' b' data fa' fb' ha' hb', by simp only [FD.result, ea, eb],
      by simp only [FD.preErr, pa, pb], by simp only [FD.cErr, ca, cb]⟩
  | crossed op a b a' b' _ _ iha ihb =>
    obtain ⟨hka, hkb⟩ := KwErrAgree_bin op a b hk
    obtain ⟨fa, fb, ha, hb, rfl⟩ := filterAux_bin_inv op a b data f data none hf
    obtain ⟨fb', hb', ea, pa, ca⟩ := iha hka fa ha
    obtain ⟨fa', ha', eb, pb, cb⟩ := ihb hkb fb hb
    refine ⟨_, filterAux_bin_ok op a' b' data fa' fb' ha' hb', ?_, ?_, ?_⟩
    · simp only [FD.result, ea, eb]
      exact List.zipWith_comm_of_comm (fun x y => by cases op <;> cases x <;> cases y <;> rfl)
    · simp only [FD.preErr, pa, pb]; exact zipWith_or_comm _ _
    · simp only [FD.cErr, ca, cb]; exact zipWith_or_comm _ _

/-- guard: the model (and the library it is generated from) unpacks `datum, _ = datum` only in
    value-reading conditions; if the generated flag ever flips, this file stops building -/
theorem C14_filter_unpacks_values_only : filterUnpacksValuesOnly = true := rfl

-- STATEMENT CHANGED: hypothesis `hk : KwErrAgree c` added; without it the statement is false (the
-- counterexample is evaluated on the model in an `example` below the theorem).
--
-- `resolveKw` reports the FIRST failing data-path argument in keyword order, and which `except` clause
-- applies depends on the exception: with `lower` failing with `TypeError` (caught: the item fails) and
-- `upper` with `RuntimeError` (not caught: `_filter` raises), `in_range(lower=…, upper=…)` records a
-- callable error and `in_range(upper=…, lower=…)` raises.  The hypothesis is vacuous for literal
-- arguments (`KwErrAgree_of_resolved`, `KwResolved_lit`) and whenever at most one keyword argument of
-- each single condition fails to resolve.
--
-- History: an earlier version also needed, for `hp = true`, that the left-most single condition of both
-- trees reads the values (`ConditionBinaryOp._filter` hands `data_has_paths=True` to its FIRST child,
-- which unpacked `datum, _ = datum` even from keys / indices: on `[(1, "p")]`,
-- `Value.equal_to(1) & Index.equal_to(0)` gave `[True]` and the equal `Index.equal_to(0) & Value.equal_to(1)`
-- raised `TypeError`).  That was a defect of the library; since its repair (guard
-- `C14_filter_unpacks_values_only`) NO hypothesis on `hp`, on the returned `data'` or on `paths` is needed:
-- whichever single condition comes first strips the paths from the shared data and returns them, a
-- value-reading condition sees the stripped values and a key-reading one the untouched keys in either
-- position (`C14B.filterAux_true_iff`).
/-- … and **behave identically**: the same booleans for every item of every document (the per-item error
    flags included), the same path-stripped data and the same extracted paths, hence the same verdicts and
    the same failing nodes wherever they are used -/
theorem C14_same_behaviour (c d : Cond RArg) (h : CondSame c d) (hk : KwErrAgree c) (data : DataV) (hp : Bool)
    (f : FD) (data' : DataV) (paths : Option (List PyVal))
    (hf : filterAux c data hp = .ok (f, data', paths)) :
    ∃ f', filterAux d data hp = .ok (f', data', paths) ∧ f'.result = f.result ∧
      f'.preErr = f.preErr ∧ f'.cErr = f.cErr := by
  cases hp with
  | false =>
    obtain ⟨rfl, rfl⟩ := filterAux_frame c data f data' paths hf
    exact C14_same_behaviour_plain c d h hk data' f hf
  | true =>
    have hflag := C14_filter_unpacks_values_only
    obtain ⟨ps', hex, rfl, hf'⟩ := (C14B.filterAux_true_iff hflag c data f data' paths).1 hf
    obtain ⟨f', hf'', e⟩ := C14_same_behaviour_plain c d h hk data' f hf'
    exact ⟨f', (C14B.filterAux_true_iff hflag d data f' data' (some ps')).2 ⟨ps', hex, rfl, hf''⟩, e⟩

/-- literal arguments: no side condition at all -/
theorem C14_same_behaviour_lit (c d : Cond PyVal) (h : CondSame c.lit d.lit) (data : DataV) (hp : Bool) (f : FD)
    (data' : DataV) (paths : Option (List PyVal)) (hf : filterAux c.lit data hp = .ok (f, data', paths)) :
    ∃ f', filterAux d.lit data hp = .ok (f', data', paths) ∧ f'.result = f.result ∧
      f'.preErr = f.preErr ∧ f'.cErr = f.cErr :=
  C14_same_behaviour _ _ h (KwErrAgree_of_resolved _ (KwResolved_lit c)) data hp f data' paths hf

/-! #### examples evaluated on the model: the former counterexamples for data with paths (now in
     agreement), and the counterexample that remains -/

/-- outcome of a filter as plain data: `none` = raised, else the three boolean lists -/
def outcome (r : Except Exc (FD × DataV × Option (List PyVal))) :
    Option (List Bool × List Bool × List Bool) :=
  match r with
  | .ok (f, _, _) => some (f.result, f.preErr, f.cErr)
  | .error _ => none

/-- the path-stripped values and the extracted paths a filter returns (as strings, for kernel evaluation) -/
def strOf : PyVal → String
  | .int n => toString n
  | .str s => s
  | _ => "?"

def stripped (r : Except Exc (FD × DataV × Option (List PyVal))) : Option (List String × Option (List String)) :=
  match r with
  | .ok (_, d, ps) => some (d.values.map strOf, ps.map (·.map strOf))
  | .error _ => none

private def vEq1 : Cond RArg := .leaf { cls := .value, fn := "equal_to", args := [.ok (.int 1)], kwargs := [] }
private def iEq0 : Cond RArg := .leaf { cls := .index, fn := "equal_to", args := [.ok (.int 0)], kwargs := [] }
private def kEqA : Cond RArg := .leaf { cls := .key, fn := "equal_to", args := [.ok (.str "a")], kwargs := [] }

/-- (1a, formerly a counterexample) with paths, on `[(1, "p")]`: `Value & Index` and the equal
    `Index & Value` (which used to raise `TypeError`) give the same verdict, data and paths -/
example :
    CondSame (.bin .and vEq1 iEq0) (.bin .and iEq0 vEq1) ∧
    outcome (filterAux (.bin .and vEq1 iEq0) ⟨true, [.int 0], [.tuple [.int 1, .str "p"]]⟩ true)
      = some ([true], [false], [false]) ∧
    outcome (filterAux (.bin .and iEq0 vEq1) ⟨true, [.int 0], [.tuple [.int 1, .str "p"]]⟩ true)
      = some ([true], [false], [false]) ∧
    stripped (filterAux (.bin .and vEq1 iEq0) ⟨true, [.int 0], [.tuple [.int 1, .str "p"]]⟩ true)
      = some (["1"], some ["p"]) ∧
    stripped (filterAux (.bin .and iEq0 vEq1) ⟨true, [.int 0], [.tuple [.int 1, .str "p"]]⟩ true)
      = some (["1"], some ["p"]) := by
  refine ⟨.crossed _ _ _ _ _ (.leaf _ _ _ _ _ (.refl _) (by simp)) (.leaf _ _ _ _ _ (.refl _) (by simp)),
    ?_, ?_, ?_, ?_⟩ <;> decide +kernel

/-- (1b, formerly a counterexample) with paths and a mapping whose key is the pair `("a", "b")`: the key
    is no longer unpacked in first position; both orders give `[False]` -/
example :
    outcome (filterAux (.bin .and kEqA vEq1) ⟨false, [.tuple [.str "a", .str "b"]], [.tuple [.int 1, .str "p"]]⟩ true)
      = some ([false], [false], [false]) ∧
    outcome (filterAux (.bin .and vEq1 kEqA) ⟨false, [.tuple [.str "a", .str "b"]], [.tuple [.int 1, .str "p"]]⟩ true)
      = some ([false], [false], [false]) := by
  constructor <;> decide +kernel

/-- (2) two keyword arguments failing differently: the first in keyword order decides -/
example :
    let c : Cond RArg := .leaf { cls := .value, fn := "in_range", args := [],
                                 kwargs := [("lower", .error .typeError), ("upper", .error .runtime)] }
    let d : Cond RArg := .leaf { cls := .value, fn := "in_range", args := [],
                                 kwargs := [("upper", .error .runtime), ("lower", .error .typeError)] }
    CondSame c d ∧
    outcome (filterAux c ⟨true, [.int 0], [.int 3]⟩ false) = some ([false], [false], [true]) ∧
    outcome (filterAux d ⟨true, [.int 0], [.int 3]⟩ false) = none := by
  refine ⟨.leaf _ _ _ _ _ (.swap _ _ _) (by simp), ?_, ?_⟩ <;> decide +kernel

/-! ### equivalence -/

theorem CondSame.refl' {α : Type} : ∀ c : Cond α, KwNodup c → CondSame c c
  | .leaf l, hc => CondSame.leaf l.cls l.fn l.args l.kwargs l.kwargs (.refl _) (hc l (by simp [Cond.leaves]))
  | .bin op a b, hc =>
    CondSame.straight op a b a b
      (CondSame.refl' a (fun l hl => hc l (by simp [Cond.leaves, hl])))
      (CondSame.refl' b (fun l hl => hc l (by simp [Cond.leaves, hl])))

theorem CondSame.symm' {α : Type} {c d : Cond α} (h : CondSame c d) : CondSame d c := by
  induction h with
  | leaf cls fn args kw kw' hperm hnodup => exact .leaf cls fn args kw' kw hperm.symm (C14B.nodup_perm hperm hnodup)
  | straight op a b a' b' _ _ iha ihb => exact .straight op a' b' a b iha ihb
  | crossed op a b a' b' _ _ iha ihb => exact .crossed op a' b' a b ihb iha

theorem CondSame.trans' {α : Type} {c d : Cond α} (h : CondSame c d) : ∀ {e : Cond α}, CondSame d e → CondSame c e := by
  induction h with
  | leaf cls fn args kw kw' hperm hnodup =>
    intro e h2
    cases h2 with
    | leaf _ _ _ _ kw'' hperm' _ => exact .leaf cls fn args kw kw'' (hperm.trans hperm') hnodup
  | straight op a b a' b' _ _ iha ihb =>
    intro e h2
    cases h2 with
    | straight _ _ _ a'' b'' h2a h2b => exact .straight op a b a'' b'' (iha h2a) (ihb h2b)
    | crossed _ _ _ a'' b'' h2a h2b => exact .crossed op a b a'' b'' (iha h2a) (ihb h2b)
  | crossed op a b a' b' _ _ iha ihb =>
    intro e h2
    cases h2 with
    | straight _ _ _ a'' b'' h2a h2b => exact .crossed op a b a'' b'' (iha h2b) (ihb h2a)
    | crossed _ _ _ a'' b'' h2a h2b => exact .straight op a b a'' b'' (iha h2b) (ihb h2a)

/-- the relation is an equivalence (on conditions whose keyword names are distinct) -/
theorem C14_same_equiv {α : Type} (c d e : Cond α) (hc : KwNodup c) :
    CondSame c c ∧ (CondSame c d → CondSame d c) ∧ (CondSame c d → CondSame d e → CondSame c e) :=
  ⟨CondSame.refl' c hc, CondSame.symm', fun h1 h2 => CondSame.trans' h1 h2⟩

/-- related conditions have distinct keyword names (on both sides) -/
theorem CondSame.kwNodup {α : Type} {c d : Cond α} (h : CondSame c d) : KwNodup c ∧ KwNodup d := by
  induction h with
  | leaf cls fn args kw kw' hperm hnodup =>
    constructor <;> intro l hl <;> simp only [Cond.leaves, List.mem_singleton] at hl <;> subst hl
    · exact hnodup
    · exact C14B.nodup_perm hperm hnodup
  | straight op a b a' b' _ _ iha ihb =>
    constructor <;> intro l hl <;> simp only [Cond.leaves, List.mem_append] at hl
    · exact hl.elim (iha.1 l) (ihb.1 l)
    · exact hl.elim (iha.2 l) (ihb.2 l)
  | crossed op a b a' b' _ _ iha ihb =>
    constructor <;> intro l hl <;> simp only [Cond.leaves, List.mem_append] at hl
    · exact hl.elim (iha.1 l) (ihb.1 l)
    · exact hl.elim (ihb.2 l) (iha.2 l)

/-! ### non-vacuity:
    `Value.in_range(lower=1, upper=5) & Key.equal_to("a")` and
    `Key.equal_to("a") & Value.in_range(upper=5, lower=1)` -/

def exC : Cond PyVal :=
  .bin .and (.leaf { cls := .value, fn := "in_range", args := [], kwargs := [("lower", .int 1), ("upper", .int 5)] })
            (.leaf { cls := .key, fn := "equal_to", args := [.str "a"], kwargs := [] })

def exD : Cond PyVal :=
  .bin .and (.leaf { cls := .key, fn := "equal_to", args := [.str "a"], kwargs := [] })
            (.leaf { cls := .value, fn := "in_range", args := [], kwargs := [("upper", .int 5), ("lower", .int 1)] })

/-- they are the same up to operand and keyword order … -/
theorem exC_same_exD : CondSame exC exD := by
  unfold exC exD
  exact .crossed _ _ _ _ _ (.leaf _ _ _ _ _ (.swap _ _ _) (by simp)) (.leaf _ _ _ _ _ (.refl _) (by simp))

theorem exC_same_exD_lit : CondSame exC.lit exD.lit := by
  simp only [exC, exD, Cond.lit, Cond.mapArgs, List.map_cons, List.map_nil]
  exact .crossed _ _ _ _ _ (.leaf _ _ _ _ _ (.swap _ _ _) (by simp)) (.leaf _ _ _ _ _ (.refl _) (by simp))

/-- … hence compare equal under Python's `==` … -/
example : condEqLit exC exD = true :=
  C14_same_is_equal_on PyVal.pyEq exC exD exC_same_exD (fun a ha => by
    simp only [exC, condArgs, List.map_cons, List.map_nil, List.nil_append, List.cons_append, List.append_nil,
      List.mem_cons, List.not_mem_nil, or_false] at ha
    rcases ha with rfl | rfl | rfl <;> exact pyEq_refl _ rfl)

/-- … and whatever `exC` gives on a document, `exD` gives -/
example (data : DataV) (hp : Bool) (f : FD) (data' : DataV) (paths : Option (List PyVal))
    (hf : filterAux exC.lit data hp = .ok (f, data', paths)) :
    ∃ f', filterAux exD.lit data hp = .ok (f', data', paths) ∧ f'.result = f.result ∧
      f'.preErr = f.preErr ∧ f'.cErr = f.cErr :=
  C14_same_behaviour_lit exC exD exC_same_exD_lit data hp f data' paths hf

/-- the hypothesis is satisfiable: on the mapping `{"a": 3, "b": 7, "c": "x"}` both filters return, with
    the same three boolean lists (evaluated by the kernel) -/
example :
    outcome (filterAux exC.lit ⟨false, [.str "a", .str "b", .str "c"], [.int 3, .int 7, .str "x"]⟩ false)
      = some ([true, false, false], [false, false, false], [false, false, false]) ∧
    outcome (filterAux exD.lit ⟨false, [.str "a", .str "b", .str "c"], [.int 3, .int 7, .str "x"]⟩ false)
      = some ([true, false, false], [false, false, false], [false, false, false]) := by
  constructor <;> decide +kernel

end ValidaProofs
