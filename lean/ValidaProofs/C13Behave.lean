/-
  C13 (second half) – "… and the rebuilt rule / schema produces the same validity, failures and cast data
  on every document".

  For a rule of the serialisable fragment (`RuleFrag`: the hypotheses of `C13_rule_roundtrip_parts`, no
  self-equality needed) the rebuilt rule has the *same* condition tree and the same casts (C13Schema),
  and a path whose parts are close to the original's (`C13B.PartClose`): the round trip through
  `to_part_specs` / `from_part_specs` changes nothing a walk looks at.  Hence the same selection on
  every document, the same `Rule.test` – result, failures with reasons, cast copy, exceptions: the two
  calls are EQUAL, not just alike –, and the same `Schema.validate`.

  What the round trip can change in a part (all found by evaluation, see `C13_roundtrip_path_same`):
  * a label `some None` becomes no label, and list / map conditions stored in a part that is not a
    map-or-list part are dropped – states of the model that no constructor builds;
  * `MapOrListValue(key=True, index=1)` (or `key=1.0`) is written as the plain `1` and rebuilt as
    `MapOrListValue(key=1, index=1)`: `to_part_specs` compares the candidate with `==`, and
    `1 == 1.0 == True` (the pattern of finding D16).  The rebuilt part is equal and selects the same
    nodes (`Key.equal_to(True)` and `Key.equal_to(1)` agree on every key), but it is not the same
    object argument by argument.  A quirk of the library, harmless for validation.
-/
import Valida.Spec.Parse
import Valida.Spec.Ser
import Valida.Rule
import ValidaProofs.Lemmas.C13BehavePart
import ValidaProofs.Lemmas.C13BehaveWalk
import ValidaProofs.C13Schema
import ValidaProofs.C14Paths
namespace ValidaProofs
open Valida ValidaGen
open C13B (PartClose PathClose RuleClose AllClose)

/-- a rule of the serialisable fragment: `RuleRT` without the self-equality of the condition -/
structure RuleFrag (r : RuleM) : Prop where
  cast : r.cast = [] ∨ r.cast = [(PyType.str, "int")] ∨ r.cast = [(PyType.str, "cast_string_to_bool")]
  wf : WFTree r.cond
  leaves : ∀ l ∈ r.cond.leaves, LeafRT l
  path : ∃ specs, toPartSpecs r.path = .ok specs
  built : ∃ args, Path.mk' args = .ok r.path

theorem RuleRT.frag {r : RuleM} (h : RuleRT r) : RuleFrag r := ⟨h.cast, h.wf, h.leaves, h.path, h.built⟩

/-! ### (1) the rebuilt path -/

/-- the emitted specs rebuild a path whose parts are pairwise close to the original's (and equal to them,
    and of the shape `from_part_specs` builds), with the same concreteness and no modifiers -/
theorem C13_roundtrip_path_close (fuel : Nat) (p : Path) (specs : List PyVal) (h : toPartSpecs p = .ok specs)
    (hb : ∃ args, Path.mk' args = .ok p) :
    ∃ p', fromPartSpecs (fuel + 2) specs = .ok p' ∧ PathClose p' p ∧
      ∀ x ∈ p'.parts.zip p.parts, partEq x.1 x.2 = true ∧ C13B.Rebuilt x.1 := by
  obtain ⟨⟨h1, h2, h3⟩, -, hm, -⟩ := (C12L.toPartSpecs_ok p specs).1 h
  obtain ⟨parts', hr, hl, hparts⟩ := C13B.rebuild_close_list fuel p.parts specs hm
  refine ⟨_, C12L.fromPartSpecs_of_rebuild (fuel + 1) specs parts' hr,
    ⟨hl, fun x hx => (hparts x hx).1, ?_, h1.symm, h2.symm, h3.symm⟩, fun x hx => (hparts x hx).2⟩
  rw [Bool.eq_iff_iff, C13S.concrete_iff_no_dict p specs h hb]
  simp only [List.all_eq_true, Bool.not_eq_true', C12L.isDict_false_iff]

/-- **the rebuilt path selects the same nodes** with the same concrete paths, on every document and
    through every entry point -/
theorem C13_roundtrip_path_selection (fuel : Nat) (p : Path) (specs : List PyVal) (h : toPartSpecs p = .ok specs)
    (hb : ∃ args, Path.mk' args = .ok p) :
    ∃ p', fromPartSpecs (fuel + 2) specs = .ok p' ∧
      (∀ data rp, p'.getData data rp = p.getData data rp) ∧ (∀ doc, selection p' doc = selection p doc) := by
  obtain ⟨p', h1, h2, _⟩ := C13_roundtrip_path_close fuel p specs h hb
  exact ⟨p', h1, C13B.getData_close p' p h2, C13B.selection_close p' p h2⟩

/-- the parts of the path are as the constructors build them from *consistent* arguments: Python's `None`
    label is no label; only a map-or-list part has list / map conditions; and a key and an index that are
    both plain values are the identical value -/
def PartsPlain (p : Path) : Prop :=
  ∀ part ∈ p.parts,
    part.label ≠ some .none ∧
    (part.kind ≠ .molv → part.listCond = Cond.null ∧ part.mapCond = Cond.null) ∧
    (∀ v w, part.listCond = eqLeaf .index v → part.mapCond = eqLeaf .key w → v = w)

theorem simple_kwNodup (c : Cond PyVal) (h : C13B.SimpleCond c) : KwNodup c := by
  rcases h with rfl | ⟨cls, v, rfl⟩ <;> intro l hl <;>
    simp only [Cond.null, eqLeaf, Cond.leaves, List.mem_singleton] at hl <;> subst hl <;> simp

theorem close_eq (q part : Part) (hc : PartClose q part) (he : partEq q part = true) (hr : C13B.Rebuilt q)
    (hl : part.label ≠ some .none)
    (hp : part.kind ≠ .molv → part.listCond = Cond.null ∧ part.mapCond = Cond.null)
    (ha : ∀ v w, part.listCond = eqLeaf .index v → part.mapCond = eqLeaf .key w → v = w) : q = part := by
  obtain ⟨k, c, lc, mc, l⟩ := q
  obtain ⟨k', c', lc', mc', l'⟩ := part
  obtain ⟨h1, h2, h3, h4⟩ := hc
  obtain ⟨r1, r2, _, _, _⟩ := hr
  simp only at h1 h2 h3 h4 r1 r2 hl hp ha
  subst h1 h2 r1
  have elbl : l' = none := by
    simp only [partEq, Bool.and_eq_true] at he
    have := he.1.2
    cases l' with
    | none => rfl
    | some x =>
      cases x <;> simp [optValEq, PyVal.pyEq, PyVal.atomEq, PyVal.numKey] at this
      exact absurd rfl hl
  subst elbl
  by_cases hk : k = .molv
  · subst hk
    have e3 := h3 rfl
    subst e3
    rcases h4 rfl with rfl | ⟨v, w, rfl, rfl, _, _, e5⟩
    · rfl
    · have := ha v w e5 rfl
      subst this; rfl
  · obtain ⟨a1, a2⟩ := r2 hk
    obtain ⟨b1, b2⟩ := hp hk
    subst a1 a2 b1 b2
    rfl

-- STATEMENT CHANGED (with respect to "the rebuilt path is `PathSameC` to the original under the hypotheses
-- of `C13_rule_roundtrip_parts`"): hypothesis `PartsPlain` added.  `PathSameC` demands the same label and
-- the same three conditions argument by argument; counterexamples without the hypothesis (evaluated on
-- the model, `C13_roundtrip_changes`):
--   * `MapOrListValue(key=True, index=1)` – built by the API – is written as `1` and rebuilt as
--     `MapOrListValue(key=1, index=1)`: `to_part_specs` accepts the candidate because it is `==`.
--     LIBRARY QUIRK (pattern of D16), harmless: equal, and the same selection (next theorems);
--   * a map part with the label `some None`, or with a list condition (which a map part never reads): model
--     states no constructor produces; the rebuilt part has no label / no list condition.
-- Under the hypothesis the rebuilt path is not merely the same up to operand and keyword order: it is
-- the original.  Without it: `C13_roundtrip_path_close` / `C13_roundtrip_path_selection`.
/-- **(1) the rebuilt path is the original path** (and `PathSameC` to it) when its parts are plain -/
theorem C13_roundtrip_path_same (fuel : Nat) (p : Path) (specs : List PyVal) (h : toPartSpecs p = .ok specs)
    (hb : ∃ args, Path.mk' args = .ok p) (hplain : PartsPlain p) :
    ∃ p', fromPartSpecs (fuel + 2) specs = .ok p' ∧ p' = p ∧ PathSameC p' p := by
  obtain ⟨p', h1, h2, h3⟩ := C13_roundtrip_path_close fuel p specs h hb
  have hparts : p'.parts = p.parts := by
    have hl := h2.len
    have hz := h2.parts
    generalize p'.parts = qs at hl hz h3
    have hpl : ∀ part ∈ p.parts, _ := hplain
    generalize p.parts = ps at hl hz h3 hpl
    induction qs generalizing ps with
    | nil => cases ps with
      | nil => rfl
      | cons a as => simp at hl
    | cons q qs ih =>
      cases ps with
      | nil => simp at hl
      | cons a as =>
        have e1 : q = a := by
          obtain ⟨g1, g2, g3⟩ := hpl a (by simp)
          exact close_eq q a (hz (q, a) (by simp)) (h3 (q, a) (by simp)).1 (h3 (q, a) (by simp)).2 g1 g2 g3
        have e2 := ih as (by simpa using hl) (fun x hx => hz x (by simp [hx])) (fun x hx => h3 x (by simp [hx]))
          (fun part hp => hpl part (by simp [hp]))
        rw [e1, e2]
  have heq : p' = p := by
    obtain ⟨a1, a2, a3, a4, a5⟩ := p'
    obtain ⟨b1, b2, b3, b4, b5⟩ := p
    simp only at hparts
    have := h2.concrete; have := h2.datum; have := h2.multi; have := h2.source
    simp_all
  refine ⟨p', h1, heq, ?_⟩
  subst heq
  refine ⟨rfl, ?_, rfl, rfl, rfl, rfl⟩
  intro x hx
  have hxx : x.1 = x.2 := by
    have : ∀ (l : List Part) (y : Part × Part), y ∈ l.zip l → y.1 = y.2 := by
      intro l
      induction l with
      | nil => intro y hy; simp at hy
      | cons a as ih =>
        intro y hy
        simp only [List.zip_cons_cons, List.mem_cons] at hy
        rcases hy with rfl | hy
        · rfl
        · exact ih y hy
    exact this _ x hx
  have hr := (h3 x hx).2
  have hn1 := simple_kwNodup _ hr.cond
  have hn2 := simple_kwNodup _ hr.listCond
  have hn3 := simple_kwNodup _ hr.mapCond
  exact ⟨hxx ▸ rfl, hxx ▸ rfl, hxx ▸ CondSame.refl' _ hn1, hxx ▸ CondSame.refl' _ hn2, hxx ▸ CondSame.refl' _ hn3⟩

/-- what the round trip does change without `PartsPlain`: `MapOrListValue(key=True, index=1)` is written
    as `1` and comes back as `MapOrListValue(key=1, index=1)`; a `some None` label and the list condition
    of a map part are dropped (both paths equal their originals and select the same nodes) -/
theorem C13_roundtrip_changes :
    (match Part.mkMolv (.val (.bool true)) (.val (.int 1)) .none none none none none with
     | .ok part =>
        (match toPartSpecs { parts := [part, barePart .list], concrete := false, datum := .none, multi := .none, source := none } with
         | .ok [.int 1, .dict _] => true
         | _ => false) &&
        (match Part.ofPrim (.int 1) with
         | .ok q => partEq q part && (match q.mapCond, part.mapCond with
             | .leaf a, .leaf b =>
                 (match a.kwargs, b.kwargs with
                  | [(_, .int 1)], [(_, .bool true)] => true
                  | _, _ => false)
             | _, _ => false)
         | _ => false)
     | _ => false) = true ∧
    (match C12L.emit { kind := .map, cond := eqLeaf .key (.str "a"), listCond := eqLeaf .index (.int 1), mapCond := Cond.null, label := some .none } with
     | .ok (.str "a") => true
     | _ => false) = true := by
  constructor <;> decide +kernel

/-! ### (2) the rebuilt rule -/

/-- a rule of the fragment is written and read back as a rule with the same condition tree, the same
    casts and a close path -/
theorem C13_roundtrip_rule_close (r : RuleM) (h : RuleFrag r) :
    ∃ js, ruleToJson r = .ok js ∧
      ∀ fuel, ∃ pr, parseRule (fuel + Cond.depthA r.cond + 3) js = .ok pr ∧ RuleClose pr.rule r := by
  obtain ⟨c, hc1, hc2⟩ := C11_tree_roundtrip r.cond h.wf h.leaves
  obtain ⟨specs, hs⟩ := h.path
  have key : ∀ cast, C13L.castJson r.cast = .ok cast → parseCasts (some cast) = .ok r.cast →
      ∃ js, ruleToJson r = .ok js ∧
        ∀ fuel, ∃ pr, parseRule (fuel + Cond.depthA r.cond + 3) js = .ok pr ∧ RuleClose pr.rule r := by
    intro cast h1 h2
    refine ⟨_, C13L.ruleToJson_of r c cast specs h1 hc1 hs, ?_⟩
    intro fuel
    obtain ⟨p', hp1, hp2, _⟩ := C13_roundtrip_path_close (fuel + Cond.depthA r.cond + 1) r.path specs hs h.built
    exact ⟨_, C13L.parseRule_json _ c cast specs r.cond p' r.cast (hc2 fuel) hp1 h2, ⟨rfl, rfl, hp2⟩⟩
  rcases h.cast with hk | hk | hk
  · exact key .none (by rw [hk]; exact C13L.castJson_nil) (by rw [hk]; exact C13L.parseCasts_none)
  · exact key _ (by rw [hk]; exact C13L.castJson_str_int) (by rw [hk]; exact C13L.parseCasts_str_int)
  · exact key _ (by rw [hk]; exact C13L.castJson_str_bool) (by rw [hk]; exact C13L.parseCasts_str_bool)

/-- **(2) the rebuilt rule gives the same test.**  For every document and every shared copy,
    `rule.test(data, _data_copy=copy)` of the rebuilt rule and of the original are the same call result:
    tested, validity, the failures (index, value, path, reasons), the copy after the casts – and the same
    exception if the test raises.  Likewise the rule test proper (`ruleTestOn`) and the test without a
    shared copy. -/
theorem C13_roundtrip_same_test (r : RuleM) (h : RuleFrag r) :
    ∃ js, ruleToJson r = .ok js ∧
      ∀ fuel, ∃ pr, parseRule (fuel + Cond.depthA r.cond + 3) js = .ok pr ∧
        pr.rule.cond = r.cond ∧ pr.rule.cast = r.cast ∧
        (∀ doc, selection pr.rule.path doc = selection r.path doc) ∧
        (∀ doc copy, pr.rule.test doc copy = r.test doc copy) ∧
        (∀ doc, ruleTestOn pr.rule doc = ruleTestOn r doc) ∧
        (∀ doc, pr.rule.testAlone doc = r.testAlone doc) := by
  obtain ⟨js, h1, h2⟩ := C13_roundtrip_rule_close r h
  refine ⟨js, h1, fun fuel => ?_⟩
  obtain ⟨pr, h3, h4⟩ := h2 fuel
  have hsel := C13B.selection_close pr.rule.path r.path h4.path
  refine ⟨pr, h3, h4.cond, h4.cast, hsel, C13B.ruleClose_test pr.rule r h4,
    C13B.ruleTestOn_congr pr.rule r h4.cond hsel, ?_⟩
  intro doc
  unfold RuleM.testAlone
  rw [C13B.ruleClose_test pr.rule r h4]

/-- … in the form of `C14_rule_same_tested`: whatever test the original gives, the rebuilt rule gives -/
theorem C13_roundtrip_same_verdict (r : RuleM) (h : RuleFrag r) :
    ∃ js, ruleToJson r = .ok js ∧
      ∀ fuel, ∃ pr, parseRule (fuel + Cond.depthA r.cond + 3) js = .ok pr ∧
        ∀ doc copy t copy', r.test doc copy = .ok (t, copy') →
          ∃ t', pr.rule.test doc copy = .ok (t', copy') ∧ t'.tested = t.tested ∧ t'.isValid = t.isValid ∧
            t'.failures.map (fun f => (f.index, f.value, f.path)) = t.failures.map (fun f => (f.index, f.value, f.path)) := by
  obtain ⟨js, h1, h2⟩ := C13_roundtrip_same_test r h
  refine ⟨js, h1, fun fuel => ?_⟩
  obtain ⟨pr, h3, _, _, _, h7, _⟩ := h2 fuel
  exact ⟨pr, h3, fun doc copy t copy' ht => ⟨t, by rw [h7, ht], rfl, rfl, rfl⟩⟩

/-! ### (3) the rebuilt schema -/

theorem rules_roundtrip_close (N : Nat) :
    ∀ (rs : List RuleM) (jss : List PyVal), rs.mapM ruleToJson = .ok jss →
      (∀ r ∈ rs, ∀ js, ruleToJson r = .ok js → ∃ pr, parseRule N js = .ok pr ∧ RuleClose pr.rule r) →
      ∃ rs', jss.mapM (C13S.parseRuleOnly N) = .ok rs' ∧ AllClose rs' rs := by
  intro rs
  induction rs with
  | nil => intro jss h _; rw [(C12L.mapM_nil_ok _ _).1 h]; exact ⟨[], rfl, .nil⟩
  | cons r rs ih =>
    intro jss h hall
    obtain ⟨js, jss', hjs, hjss, rfl⟩ := (C12L.mapM_cons_ok _ _ _ _).1 h
    obtain ⟨rs', h1, h2⟩ := ih jss' hjss (fun x hx => hall x (by simp [hx]))
    obtain ⟨pr, hp, he⟩ := hall r (by simp) js hjs
    exact ⟨pr.rule :: rs', (C12L.mapM_cons_ok _ _ _ _).2 ⟨pr.rule, rs', C13S.parseRuleOnly_ok N js pr hp, h1, rfl⟩,
      .cons he h2⟩

/-- **(3) the rebuilt schema gives the same validation.**  A schema (rules in applied order) of rules of
    the fragment is written, read back and re-sorted; the rebuilt schema holds rules close to the
    originals in the same order, and `Schema.validate` of the two is the same call result on every
    document: the rule tests in order (tested, validity, failures), the cast data – and the same
    exception if validation raises. -/
theorem C13_schema_roundtrip_same_validation (rs : List RuleM) (h : ∀ r ∈ rs, RuleFrag r)
    (hsorted : Schema.mk' rs = rs) :
    ∃ js, schemaToJson rs = .ok js ∧
      ∀ fuel, ∃ rs', parseSchema (fuel + schemaFuel rs) js = .ok rs' ∧ AllClose rs' rs ∧
        ∀ doc, validate rs' doc = validate rs doc := by
  obtain ⟨jss, hj⟩ := C13S.mapM_ok_of_forall ruleToJson rs (fun r hr => by
    obtain ⟨js, h1, _⟩ := C13_roundtrip_rule_close r (h r hr)
    exact ⟨js, h1⟩)
  refine ⟨.list jss, by rw [C13_schema_json, hj]; rfl, ?_⟩
  intro fuel
  have hall : ∀ r ∈ rs, ∀ js, ruleToJson r = .ok js →
      ∃ pr, parseRule (fuel + schemaFuel rs) js = .ok pr ∧ RuleClose pr.rule r := by
    intro r hr js hjs
    obtain ⟨js', g1, g2⟩ := C13_roundtrip_rule_close r (h r hr)
    rw [hjs] at g1; cases g1
    have hle := depth_le_schemaFuel rs r hr
    obtain ⟨pr, g3, g4⟩ := g2 (fuel + schemaFuel rs - (Cond.depthA r.cond + 3))
    rw [show fuel + schemaFuel rs - (Cond.depthA r.cond + 3) + Cond.depthA r.cond + 3 = fuel + schemaFuel rs by
      omega] at g3
    exact ⟨pr, g3, g4⟩
  obtain ⟨rs', h1, h2⟩ := rules_roundtrip_close (fuel + schemaFuel rs) rs jss hj hall
  have hs : Schema.mk' rs' = rs' := by
    unfold Schema.mk'
    refine List.mergeSort_of_pairwise ?_
    rw [C13S.sorted_iff_lengths, C13B.allClose_lengths rs' rs h2, ← C13S.sorted_iff_lengths]
    exact C13S.pairwise_of_sorted rs hsorted
  refine ⟨rs', ?_, h2, C13B.validate_close rs' rs h2⟩
  rw [C13S.parseSchema_eq, h1]
  simp only [bind, Except.bind, pure, Except.pure, hs]

/-- … spelled out: validity, number of failures, number of rules tested, the cast data and, test by test,
    (tested, validity, failing (index, value, path)) -/
theorem C13_schema_roundtrip_same_outcome (rs : List RuleM) (h : ∀ r ∈ rs, RuleFrag r)
    (hsorted : Schema.mk' rs = rs) :
    ∃ js, schemaToJson rs = .ok js ∧
      ∀ fuel, ∃ rs', parseSchema (fuel + schemaFuel rs) js = .ok rs' ∧
        ∀ doc v, validate rs doc = .ok v →
          ∃ v', validate rs' doc = .ok v' ∧ v'.isValid = v.isValid ∧ v'.numFailures = v.numFailures ∧
            v'.numRulesTested = v.numRulesTested ∧ v'.castData = v.castData ∧
            v'.tests.map (fun t => (t.tested, t.isValid, t.failures.map (fun f => (f.index, f.value, f.path)))) =
              v.tests.map (fun t => (t.tested, t.isValid, t.failures.map (fun f => (f.index, f.value, f.path)))) := by
  obtain ⟨js, h1, h2⟩ := C13_schema_roundtrip_same_validation rs h hsorted
  refine ⟨js, h1, fun fuel => ?_⟩
  obtain ⟨rs', h3, _, h5⟩ := h2 fuel
  exact ⟨rs', h3, fun doc v hv => ⟨v, by rw [h5, hv], rfl, rfl, rfl, rfl, rfl⟩⟩

/-! ### non-vacuity: the two-rule schema of `C13Schema.lean` -/

/-- the schema `[exRuleB, exRuleA]` is written and read back (fuel 4 or more) as a schema that validates
    every document exactly as the original does -/
theorem C13_schema_same_validation_example :
    ∃ js, schemaToJson [exRuleB, exRuleA] = .ok js ∧
      ∀ fuel, ∃ rs', parseSchema (fuel + 4) js = .ok rs' ∧
        ∀ doc, validate rs' doc = validate [exRuleB, exRuleA] doc := by
  obtain ⟨js, h1, h2⟩ := C13_schema_roundtrip_same_validation [exRuleB, exRuleA]
    (by
      intro r hr
      simp only [List.mem_cons, List.not_mem_nil, or_false] at hr
      rcases hr with rfl | rfl
      · exact exRuleB_rt.frag
      · exact exRuleA_rt.frag)
    (by
      unfold Schema.mk'
      refine List.mergeSort_of_pairwise ?_
      simp [exRuleB, exRuleA, ruleLe])
  exact ⟨js, h1, fun fuel => by
    obtain ⟨rs', g1, _, g3⟩ := h2 fuel
    exact ⟨rs', g1, g3⟩⟩

/-- what is compared in the evaluation below -/
def validationIs (v : Except Exc Validated) (valid : Bool) (nFail nTested : Nat)
    (tests : List (Bool × Bool × List Nat)) (castData : PyVal) : Bool :=
  match v with
  | .ok v => v.isValid == valid && v.numFailures == nFail && v.numRulesTested == nTested &&
      v.tests.map (fun t => (t.tested, t.isValid, t.failures.map (·.index))) == tests &&
      PyVal.pyEq v.castData castData
  | .error _ => false

/-- … e.g. on `{"a": ["1", "x"], "b": 3}` (evaluated by the kernel for the original and for the rules read
    back from the JSON form, in the order they are read – the stable sort of `Schema.__init__`, which the
    kernel does not unfold, leaves them in place, as proved above): both rules tested, the first valid (`3` is in range), the second invalid –
    `"1"` is cast to `1` and passes `less_than(3)`, `"x"` cannot be cast and fails –, and the cast data is
    `{"a": [1, "x"], "b": 3}` -/
example :
    validationIs (validate [exRuleB, exRuleA] (.dict [(.str "a", .list [.str "1", .str "x"]), (.str "b", .int 3)]))
      false 1 2 [(true, true, []), (true, false, [1])]
      (.dict [(.str "a", .list [.int 1, .str "x"]), (.str "b", .int 3)]) = true ∧
    validationIs (do
        let js ← schemaToJson [exRuleB, exRuleA]
        let items ← Py.iter js
        let rs' ← items.mapM (C13S.parseRuleOnly 4)
        validate rs' (.dict [(.str "a", .list [.str "1", .str "x"]), (.str "b", .int 3)]))
      false 1 2 [(true, true, []), (true, false, [1])]
      (.dict [(.str "a", .list [.int 1, .str "x"]), (.str "b", .int 3)]) = true := by
  constructor <;> decide +kernel

end ValidaProofs
