/-
  The library keeps no state between calls – read from the source.

  The model is purely functional: a condition, a path, a rule, a schema are values; `filter`, `get_data`,
  `from_spec`, `test`, `validate` are functions of their arguments. Whether the code may be modelled so is a
  fact about the source, and it is re-read on every run: the translator lists every function of the library
  that has a write which can outlive the call (`ValidaGen.writers`: stores into attributes or items of a
  parameter or of a non-local object, mutating calls on module-level objects, `global`, `setattr`, decorators
  other than classmethod / staticmethod / property – a cache would be one). The theorems below say that these
  are exactly the writers the model accounts for; a memo, a cache, an in-place resolution or a result kept on
  the schema makes one of them fail. (Syntactic: a write through a local alias of a shared list is not seen
  here – the harness's state snapshots and fresh-object / fresh-interpreter re-runs look for those.)
-/
import Valida.Rule
import ValidaGen.Tables
namespace ValidaProofs
open Valida ValidaGen

/-- the writers the model accounts for:
    * `classproperty` on `Value.length / dtype`, `Key.length / dtype` – a read-only descriptor;
    * `data.set_datum` – writes one item of the container it is given (the model's `setAt`);
    * `Data.extract_paths` – fills `_values` of the `Data` wrapper it is called on, built per call by `Rule.test`;
    * `RuleTest._test` – the fields of the new result object;
    * `Schema.add_schema` – rebinds `self.rules` (the model's `addSchema` returns the new rule list). -/
def knownWriters : List (String × String × List String) :=
  [("conditions.py", "Value.length", ["decorator classproperty"]),
   ("conditions.py", "Value.dtype", ["decorator classproperty"]),
   ("conditions.py", "Key.length", ["decorator classproperty"]),
   ("conditions.py", "Key.dtype", ["decorator classproperty"]),
   ("data.py", "set_datum", ["item data[..]"]),
   ("data.py", "Data.extract_paths", ["attribute self._values"]),
   ("rules.py", "RuleTest._test", ["attribute self._failures", "attribute self._is_valid", "attribute self._tested",
                                    "attribute self.filter", "attribute self.sub_data"]),
   ("schema.py", "Schema.add_schema", ["attribute self.rules"])]

/-- C08: no function of the library writes anything that outlives the call, other than the known writers -/
theorem C08_only_known_writers : writers = knownWriters := by decide

/-- C02: no function of `conditions.py` – constructors, `flatten`, `filter`, the combination operators – writes
    into its operands, into itself or into a module-level object: combining and filtering leave every operand
    as it was, so a shared operand can be reused in any number of combinations -/
theorem C02_conditions_write_nothing :
    (writers.filter (fun e => e.1 == "conditions.py")).all (fun e => e.2.2 == ["decorator classproperty"]) = true := by
  decide

/-- C09: no function of the parsers' modules (`conditions.py`, `datapath.py`, `utils.py`) writes into a
    module-level object, an argument or a class: what a spec parses to cannot depend on the specs parsed before -/
theorem C09_parsing_keeps_no_state :
    (writers.filter (fun e => e.1 == "conditions.py" || e.1 == "datapath.py" || e.1 == "utils.py")).all
      (fun e => e.2.2 == ["decorator classproperty"]) = true := by
  decide

/-- C14: a schema that has validated documents is the schema it was: `Schema.validate` writes no attribute and
    returns a new `ValidatedData(self, data)`, whose constructor writes attributes of the new object only – nothing
    `__eq__` reads is written by use -/
theorem C14_validate_writes_no_schema_state :
    validateStateless = true ∧ (writers.filter (fun e => e.1 == "schema.py")).map (·.2.1) = ["Schema.add_schema"] := by
  decide

/-- C18: what S judges after an addition cannot depend on what S or T validated before it: `validate` has no
    state to read but the current rules and the document, and `add_schema` is the only writer of `schema.py` -/
theorem C18_validate_writes_no_schema_state :
    validateStateless = true ∧ (writers.filter (fun e => e.1 == "schema.py")).map (·.2.1) = ["Schema.add_schema"] := by
  decide

end ValidaProofs
