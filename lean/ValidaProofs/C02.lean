/-
  C02 – and/or/xor combinations are pointwise Boolean algebra with null as identity; building a
  combination never alters its operands.

  Tree level: `Cond.mkBin` (what `a & b` builds) and `filterAux` on combinations.
  Object level: `Heap.construct` under CPython's `type.__call__` protocol; whether `__init__`
  leaves an existing object alone is *read from the source* (`ValidaGen.binopInitGuard`).
-/
import Valida.Cond
import Valida.Heap
import ValidaProofs.Lemmas.Basic
import ValidaProofs.Lemmas.C02Tree
import ValidaProofs.Lemmas.C02Heap
import ValidaProofs.C01
namespace ValidaProofs
open Valida ValidaGen

/-! ### trees -/

/-- filtering without paths never changes the wrapped data and extracts no paths -/
theorem C02_filter_frame (c : Cond RArg) (d : DataV) (fd : FD) (d' : DataV) (p : Option (List PyVal))
    (h : filterAux c d false = .ok (fd, d', p)) : d' = d ∧ p = none :=
  filterAux_frame c d fd d' p h

/-- a combination gives, for every item, exactly the Boolean combination of what its operands give
    on the same data – at any depth, since the operands are arbitrary trees -/
theorem C02_pointwise (op : BinOp) (a b : Cond RArg) (d : DataV) (fd : FD) (d' : DataV) (p : Option (List PyVal))
    (h : filterAux (.bin op a b) d false = .ok (fd, d', p)) :
    ∃ fa fb, filterAux a d false = .ok (fa, d, none) ∧ filterAux b d false = .ok (fb, d, none) ∧
      fd = .bin op fa fb ∧ fd.result = List.zipWith op.apply fa.result fb.result := by
  obtain ⟨fa, fb, ha, hb, rfl⟩ := filterAux_bin_inv op a b d fd d' p h
  exact ⟨fa, fb, ha, hb, rfl, rfl⟩

/-- conversely: if both operands filter, so does the combination -/
theorem C02_combination_total (op : BinOp) (a b : Cond RArg) (d : DataV) (fa fb : FD)
    (ha : filterAux a d false = .ok (fa, d, none)) (hb : filterAux b d false = .ok (fb, d, none)) :
    filterAux (.bin op a b) d false = .ok (.bin op fa fb, d, none) :=
  filterAux_bin_ok op a b d fa fb ha hb

/-- the operators are the Boolean ones -/
theorem C02_truth_tables :
    (∀ x y, BinOp.and.apply x y = (x && y)) ∧ (∀ x y, BinOp.or.apply x y = (x || y)) ∧
    (∀ x y, BinOp.xor.apply x y = (x != y)) ∧
    binaryClasses = [("ConditionAnd", "and", "and_"), ("ConditionOr", "or", "or_"), ("ConditionXor", "xor", "xor")] := by
  refine ⟨fun x y => rfl, fun x y => rfl, fun x y => rfl, ?_⟩
  decide

/-- one boolean per item for every tree: the result has as many entries as the data has items -/
theorem C02_result_length (c : Cond RArg) (d : DataV) (fd : FD) (d' : DataV) (p : Option (List PyVal))
    (hd : d.keys.length = d.values.length)
    (h : filterAux c d false = .ok (fd, d', p)) : fd.result.length = d.values.length :=
  filterAux_result_length c d fd d' p hd h

/-- any tree of conditions with literal arguments filters without aborting -/
theorem C02_never_aborts (c : Cond PyVal) (d : DataV) :
    ∀ e, filterAux c.lit d false = .error e → e = .unmodelled :=
  filterAux_never_aborts_of_leaves c C01_never_aborts d

/-- null is the identity of every operator, on either side -/
theorem C02_null_right (op : BinOp) (a : Cond PyVal) : Cond.mkBin op a Cond.null = .ok a :=
  mkBin_null_right op a
theorem C02_null_left (op : BinOp) (b : Cond PyVal) (hb : b.isNull = false) : Cond.mkBin op Cond.null b = .ok b :=
  mkBin_null_left op b hb

/-- key-kind mixed with index-kind is refused; anything else (value with key, value with index) builds -/
theorem C02_mixed_kinds (op : BinOp) (a b : Cond PyVal) (ha : a.isNull = false) (hb : b.isNull = false) :
    Cond.mkBin op a b =
      if (a.leaves ++ b.leaves).any (fun l => Cond.likeOf l.cls == "key") &&
         (a.leaves ++ b.leaves).any (fun l => Cond.likeOf l.cls == "index")
      then .error .typeError else .ok (.bin op a b) :=
  mkBin_mixed op a b ha hb

/-! ### objects: histories of constructions over shared operands -/

/-- the source has the guard that keeps `__init__` from re-initialising an existing object -/
theorem C02_init_guard : binopInitGuard = true := by
  rfl

/-- constructing a combination never writes to an existing object: every object of the old heap is
    still there, unchanged -/
theorem C02_frame (h : Heap) (fuel : Nat) (op : BinOp) (a b : Nat) :
    ∀ i, i < h.size → (Heap.construct h fuel op a b).1[i]? = h[i]? :=
  HeapL.construct_frame h fuel op a b

/-- the invariant "combinations refer to older objects only" is preserved -/
theorem C02_acyclic (h : Heap) (fuel : Nat) (op : BinOp) (a b : Nat) (hac : h.Acyclic)
    (ha : a < h.size) (hb : b < h.size) : (Heap.construct h fuel op a b).1.Acyclic :=
  HeapL.construct_acyclic h fuel op a b hac ha hb

/-- in an acyclic heap the denotation of an object only depends on the objects below it, so it is
    unchanged by any later construction (operands can be reused in further combinations) -/
theorem C02_den_stable (h : Heap) (fuel fuel' : Nat) (op : BinOp) (a b : Nat) (hac : h.Acyclic)
    (ha : a < h.size) (hb : b < h.size) :
    ∀ i, i < h.size → Heap.den (Heap.construct h fuel op a b).1 fuel' i = Heap.den h fuel' i := by
  -- holds for any operands: the bounds `ha`, `hb` are not needed
  have _ := ha; have _ := hb
  exact HeapL.construct_den_stable h fuel fuel' op a b hac

/-- what the returned object denotes: the tree-level combination of what the operands denote -/
theorem C02_construct_den (h : Heap) (fuel : Nat) (op : BinOp) (a b : Nat) (ca cb : Cond PyVal) (r : Nat)
    (hac : h.Acyclic) (ha : a < h.size) (hb : b < h.size)
    (hfa : Heap.den h fuel a = .ok ca) (hfb : Heap.den h fuel b = .ok cb)
    (h' : Heap) (hc : Heap.construct h (fuel + 1) op a b = (h', .ok r)) :
    ∃ c, Cond.mkBin op ca cb = .ok c ∧ Heap.den h' (fuel + 1) r = .ok c :=
  HeapL.construct_den h fuel op a b ca cb r hac ha hb hfa hfb h' hc

/-- every history keeps the heap acyclic and never changes what an existing object denotes -/
theorem C02_history (fuel fuel' : Nat) (ops : List HOp) (h : Heap) (objs : List (Option Nat)) (hac : h.Acyclic)
    (hobjs : ∀ o ∈ objs, ∀ i, o = some i → i < h.size) :
    (runHistory fuel h objs ops).1.Acyclic ∧
    ∀ i, i < h.size → Heap.den (runHistory fuel h objs ops).1 fuel' i = Heap.den h fuel' i := by
  obtain ⟨h1, _, h3⟩ := HeapL.history_inv fuel fuel' ops h objs hac hobjs
  exact ⟨h1, h3⟩

/-! ### non-vacuity -/

/-- the D1 history: `ab = gt(1) & lt(4); NullCondition() & ab` leaves `ab` as it was -/
example :
    let l1 : Leaf PyVal := { cls := .value, fn := "greater_than", args := [], kwargs := [("value", .int 1)] }
    let l2 : Leaf PyVal := { cls := .value, fn := "less_than", args := [], kwargs := [("value", .int 4)] }
    let nl : Leaf PyVal := { cls := .null, fn := "null", args := [], kwargs := [] }
    let r := runHistory 16 #[] [] [.leaf l1, .leaf l2, .leaf nl, .comb .and 0 1, .comb .and 2 3]
    (r.2.map (fun o => match o with | .ok i => some i | .error _ => none)) = [some 0, some 1, some 2, some 3, some 3]
      ∧ r.1.size = 4 := by
  decide +kernel

end ValidaProofs
