/-
  C20 (type texts) – "the documentation tree is produced without error": the formatter of the
  always-applicable type-like conditions (`format_map_key_value_data_type_conditions`, model
  `Valida.TypeFmt`) returns a text for every list of conditions `to_tree` hands it, over the
  property's domain: type, length and membership conditions whose arguments are type objects,
  integers, or plain literals.
-/
import Valida.TypeFmt
import ValidaProofs.Lemmas.Basic
import ValidaProofs.Lemmas.C20TypeFmt
namespace ValidaProofs
open Valida ValidaGen Valida.TypeFmt Valida.Repr ValidaProofs.C20T

-- STATEMENT CHANGED: `repr` of an int with more than 4300 digits raises ValueError (CPython ≥ 3.11,
-- `sys.get_int_max_str_digits()`); counterexample `.int (10^4300)`. Ints are bounded by `10^4300`.
/-- literals whose `repr` the model defines outright: None, bools, ints within the digit limit of
    int-to-text conversion, type objects, ASCII strings -/
def PlainLit : PyVal → Prop
  | .none => True
  | .bool _ => True
  | .int n => n.natAbs < 10 ^ 4300
  | .type t => t ≠ .obj
  | .str s => ∀ c ∈ s.toList, c.toNat < 127
  | _ => False

-- STATEMENT CHANGED: `lenEq`, `lenIn`, `lenOther` bound every integer argument by `10^4300`: `repr` /
-- `str` of an int with more than 4300 digits raises ValueError; counterexample
-- `ValueLength.equal_to(10^4300)`, whose text is an error.
/-- the conditions `get_always_applicable_type_like_conditions` collects, with arguments as the DSL
    stores them for the C20 domain -/
inductive TypeLike : Leaf Arg → Prop
  /-- `ValueDataType.equal_to(T)` / `KeyDataType.equal_to(T)` -/
  | dtypeEq (cls : CClass) (t : PyType) (hc : cls = .valueDataType ∨ cls = .keyDataType) (ht : t ≠ .obj) :
      TypeLike { cls := cls, fn := "equal_to", args := [], kwargs := [("value", .lit (.type t))] }
  /-- `ValueDataType.in_([T…])` / `KeyDataType.in_([T…])` -/
  | dtypeIn (cls : CClass) (ts : List PyType) (hc : cls = .valueDataType ∨ cls = .keyDataType)
      (ht : ∀ t ∈ ts, t ≠ .obj) :
      TypeLike { cls := cls, fn := "in_", args := [], kwargs := [("value", .lit (.list (ts.map PyVal.type)))] }
  /-- `ValueLength.equal_to(n)` -/
  | lenEq (n : Int) (hn : n.natAbs < 10 ^ 4300) :
      TypeLike { cls := .valueLength, fn := "equal_to", args := [], kwargs := [("value", .lit (.int n))] }
  /-- `ValueLength.in_([n…])` -/
  | lenIn (ns : List Int) (hn : ∀ n ∈ ns, n.natAbs < 10 ^ 4300) :
      TypeLike { cls := .valueLength, fn := "in_", args := [], kwargs := [("value", .lit (.list (ns.map PyVal.int)))] }
  /-- any other length comparison with integer arguments, e.g. `ValueLength.less_than(3)`, `in_range(1, 4)` -/
  | lenOther (fn : String) (kw : List (String × Int)) (hfn : fn ≠ "equal_to" ∧ fn ≠ "in_")
      (hn : ∀ p ∈ kw, p.2.natAbs < 10 ^ 4300) :
      TypeLike { cls := .valueLength, fn := fn, args := [], kwargs := kw.map (fun p => (p.1, .lit (.int p.2))) }
  /-- `Value.is_instance(T…)` / `Value.keys_is_instance(T…)` -/
  | isInstance (fn : String) (ts : List PyType) (hfn : fn = "is_instance" ∨ fn = "keys_is_instance")
      (ht : ∀ t ∈ ts, t ≠ .obj) :
      TypeLike { cls := .value, fn := fn, args := ts.map (fun t => .lit (.type t)), kwargs := [] }
  /-- `Value.in_([literal…])` -/
  | valueIn (xs : List PyVal) (hx : ∀ x ∈ xs, PlainLit x) :
      TypeLike { cls := .value, fn := "in_", args := [], kwargs := [("value", .lit (.list xs))] }

/-- `repr` of a plain literal is defined -/
theorem C20_plain_repr_total (v : PyVal) (h : PlainLit v) : ∃ s, pyRepr v = .ok s := by
  cases v <;> simp only [PlainLit] at h
  · exact ⟨_, rfl⟩
  · exact ⟨_, rfl⟩
  · exact ⟨_, pyRepr_int _ h⟩
  · simp only [pyRepr]; exact reprStr_ok _ h
  · exact pyRepr_type_ok _ h

/-- the text of one type-like condition is defined -/
theorem C20_type_text_one (l : Leaf Arg) (h : TypeLike l) : ∃ s, fmtOne l = .ok s := by
  cases h with
  | dtypeEq cls t hc ht =>
      have h1 : (("equal_to" : String) == "equal_to") = true := by decide
      simp only [fmtOne, preOf_dtype_ne_len cls hc, h1, if_true, kwValue_value, ok_bind]
      exact typeText_type_ok t ht
  | dtypeIn cls ts hc ht =>
      have h1 : (("in_" : String) == "equal_to") = false := by decide
      have h2 : (("in_" : String) == "is_instance") = false := by decide
      have h3 : (("in_" : String) == "keys_is_instance") = false := by decide
      have h4 : (("in_" : String) == "in_") = true := by decide
      obtain ⟨ss, hss⟩ := mapM_ok pyRepr (ts.map PyVal.type) (by
        intro x hx
        obtain ⟨t, ht', rfl⟩ := List.mem_map.mp hx
        exact pyRepr_type_ok t (ht t ht'))
      simp only [fmtOne, preOf_dtype_ne_len cls hc, h1, h2, h3, h4, Bool.or_self, if_true, if_false,
        Bool.false_eq_true, kwValue_value, ok_bind, Py.iter, hss]
      exact ⟨_, rfl⟩
  | lenEq n hn =>
      simp only [fmtOne, preOf_valueLength_len, if_true, kwValue_value, ok_bind, pyStr_int n hn]
      exact ⟨_, rfl⟩
  | lenIn ns hn =>
      have h1 : (("in_" : String) == "equal_to") = false := by decide
      have h4 : (("in_" : String) == "in_") = true := by decide
      have hss : (ns.map PyVal.int).mapM pyStr = .ok (ns.map toString) :=
        mapM_map_ok_map _ _ _ ns (fun n hm => pyStr_int n (hn n hm))
      simp only [fmtOne, preOf_valueLength_len, h1, h4, if_true, if_false, Bool.false_eq_true,
        kwValue_value, ok_bind, Py.iter, hss]
      exact ⟨_, rfl⟩
  | lenOther fn kw hfn hn =>
      have h1 : (fn == "equal_to") = false := beq_eq_false_iff_ne.mpr hfn.1
      have h2 : (fn == "in_") = false := beq_eq_false_iff_ne.mpr hfn.2
      have hkw : (kw.map (fun p => (p.1, Arg.lit (.int p.2)))).mapM (fun kv => do
            let r ← argRepr kv.2
            pure (kv.1 ++ "=" ++ r)) = .ok (kw.map (fun p => p.1 ++ "=" ++ toString p.2)) :=
        mapM_map_ok_map _ _ _ kw (fun p hp => by simp only [argRepr_int p.2 (hn p hp), ok_bind]; rfl)
      simp only [fmtOne, preOf_valueLength_len, h1, h2, if_true, if_false, Bool.false_eq_true,
        List.mapM_nil, ok_bind, hkw]
      exact ⟨_, rfl⟩
  | isInstance fn ts hfn ht =>
      have h1 : (fn == "equal_to") = false := by rcases hfn with rfl | rfl <;> decide
      have h2 : (fn == "is_instance" || fn == "keys_is_instance") = true := by
        rcases hfn with rfl | rfl <;> decide
      have ha : (ts.map (fun t => Arg.lit (.type t))).mapM argVal = .ok (ts.map PyVal.type) :=
        mapM_map_ok_map _ _ _ ts (fun _ _ => rfl)
      obtain ⟨ss, hss⟩ := mapM_ok typeText (ts.map PyVal.type) (by
        intro x hx
        obtain ⟨t, ht', rfl⟩ := List.mem_map.mp hx
        exact typeText_type_ok t (ht t ht'))
      simp only [fmtOne, preOf_value_ne_len, h1, h2, if_true, if_false, Bool.false_eq_true, ha, ok_bind, hss]
      exact ⟨_, rfl⟩
  | valueIn xs hx =>
      have h1 : (("in_" : String) == "equal_to") = false := by decide
      have h2 : (("in_" : String) == "is_instance") = false := by decide
      have h3 : (("in_" : String) == "keys_is_instance") = false := by decide
      have h4 : (("in_" : String) == "in_") = true := by decide
      obtain ⟨ss, hss⟩ := mapM_ok pyRepr xs (fun x hx' => C20_plain_repr_total x (hx x hx'))
      simp only [fmtOne, preOf_value_ne_len, h1, h2, h3, h4, Bool.or_self, if_true, if_false,
        Bool.false_eq_true, kwValue_value, ok_bind, Py.iter, hss]
      exact ⟨_, rfl⟩

/-- **no error from the formatter**: for every non-empty list of type-like conditions (what `to_tree`
    passes: it calls the formatter only when the list is non-empty) the text is defined -/
theorem C20_type_text_total (ls : List (Leaf Arg)) (hne : ls ≠ []) (h : ∀ l ∈ ls, TypeLike l) :
    ∃ s, TypeFmt.format ls = .ok s := by
  obtain ⟨ss, hss⟩ := mapM_ok fmtOne ls (fun l hl => C20_type_text_one l (h l hl))
  simp only [TypeFmt.format, hss, ok_bind]
  match ss, hss with
  | [], hss => exact absurd (mapM_ok_nil hss) hne
  | [x], _ => exact ⟨_, rfl⟩
  | _ :: _ :: _, _ => exact ⟨_, rfl⟩

/-- a type the library names is shown by that name … -/
theorem C20_type_text_named (cls : CClass) (t : PyType) (n : String)
    (hc : cls = .valueDataType ∨ cls = .keyDataType) (hn : (t, n) ∈ invDtypeLookup) :
    fmtOne { cls := cls, fn := "equal_to", args := [], kwargs := [("value", .lit (.type t))] } = .ok n := by
  have h1 : (("equal_to" : String) == "equal_to") = true := by decide
  simp only [fmtOne, preOf_dtype_ne_len cls hc, h1, if_true, kwValue_value]
  exact typeText_named t n hn

/-- … `is_instance` by the names of its types joined with ` | ` -/
theorem C20_type_text_is_instance (ts : List (PyType × String)) (h : ∀ p ∈ ts, p ∈ invDtypeLookup) :
    fmtOne { cls := .value, fn := "is_instance", args := ts.map (fun p => .lit (.type p.1)), kwargs := [] } =
      .ok (String.intercalate " | " (ts.map (·.2))) := by
  have h1 : (("is_instance" : String) == "equal_to") = false := by decide
  have h2 : (("is_instance" : String) == "is_instance") = true := by decide
  have ha : (ts.map (fun p => Arg.lit (.type p.1))).mapM argVal = .ok (ts.map (fun p => PyVal.type p.1)) :=
    mapM_map_ok_map _ _ _ ts (fun _ _ => rfl)
  have hb : (ts.map (fun p => PyVal.type p.1)).mapM typeText = .ok (ts.map (·.2)) :=
    mapM_map_ok_map _ _ _ ts (fun p hp => typeText_named p.1 p.2 (h p hp))
  simp only [fmtOne, preOf_value_ne_len, h1, h2, Bool.true_or, if_true, ha, ok_bind, hb]
  rfl

-- STATEMENT CHANGED: added `hn`: `str(n)` of an int with more than 4300 digits raises ValueError;
-- counterexample `n = 10^4300`, for which the text is `.error .valueError`.
/-- … a length by `length: n` -/
theorem C20_type_text_length (n : Int) (hn : n.natAbs < 10 ^ 4300) :
    fmtOne { cls := .valueLength, fn := "equal_to", args := [], kwargs := [("value", .lit (.int n))] } =
      .ok ("length: " ++ toString n) := by
  simp only [fmtOne, preOf_valueLength_len, if_true, kwValue_value, ok_bind, pyStr_int n hn]
  rfl

/-- several conditions are joined with `, `; a single one stands alone -/
theorem C20_type_text_join (ls : List (Leaf Arg)) (ss : List String) (h : ls.mapM fmtOne = .ok ss)
    (h2 : 2 ≤ ss.length) : TypeFmt.format ls = .ok (String.intercalate ", " ss) := by
  simp only [TypeFmt.format, h, ok_bind]
  match ss, h2 with
  | _ :: _ :: _, _ => rfl

/-- the formatter refuses an empty list (`out[0]`): `to_tree` must not call it with one -/
theorem C20_type_text_empty : TypeFmt.format [] = .error .indexError := by
  rfl

/-- Bool-valued comparison of a text outcome (for kernel-evaluated examples) -/
def textIs (r : Except Exc String) (expected : String) : Bool :=
  match r with
  | .ok s => s.toList == expected.toList
  | .error _ => false

/-- `[ValueDataType.equal_to(value=int), ValueLength.in_(value=[1, 2])]` reads `int, length: 1 or 2` -/
example : textIs (TypeFmt.format [
    { cls := .valueDataType, fn := "equal_to", args := [], kwargs := [("value", .lit (.type .int))] },
    { cls := .valueLength, fn := "in_", args := [], kwargs := [("value", .lit (.list [.int 1, .int 2]))] }])
    "int, length: 1 or 2" = true := by decide +kernel

/-- `[Value.in_(value=["a", 1, None])]` reads `('a' | 1 | None)` -/
example : textIs (TypeFmt.format [
    { cls := .value, fn := "in_", args := [], kwargs := [("value", .lit (.list [.str "a", .int 1, .none]))] }])
    "('a' | 1 | None)" = true := by decide +kernel

end ValidaProofs
