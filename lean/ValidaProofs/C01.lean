/-
  C01 – a single condition filters every item to its documented meaning, never aborting.

  Property theorems only (helper lemmas live in ValidaProofs/Lemmas).  The statements are about the
  model `Valida.*` instantiated with the tables and callables *generated from the source*
  (`ValidaGen.*`), against the independent specification `ValidaSpec.Meaning`.
-/
import Valida.Cond
import ValidaSpec.Meaning
import ValidaProofs.Lemmas.Basic
import ValidaProofs.Lemmas.Filter
import ValidaProofs.Lemmas.Partition
import ValidaProofs.Lemmas.Meaning
namespace ValidaProofs
open Valida ValidaGen ValidaGen.Callables ValidaSpec
open PyVal (pyEq numKey scale hashable instOf)

/-! ### never aborting -/

/-- Every callable of `valida/callables.py`, called with any datum and any stored arguments
    (any arity, any keywords, any value kinds), either returns a `bool` or raises an exception that
    the `except` clause of `Condition._filter` (read from the source) catches.  The pseudo-outcome
    `unmodelled` (operations on an opaque `DataPath` object) is the only other possibility. -/
theorem C01_callable_safe (fn : String) (x : PyVal) (pos : List PyVal) (kw : List (String × PyVal)) :
    RaisesOnly Caught (callFn fn x pos kw) ∧ ReturnsBool (callFn fn x pos kw) := by
  exact callFn_safe fn x pos kw

/-- One loop iteration of `Condition._filter` never lets an exception escape, whatever the datum:
    given arguments whose resolution raises only caught exceptions (literals never raise). -/
theorem C01_item_total (pre fn : String) (args : List RArg) (kwargs : List (String × RArg)) (datum : PyVal)
    (hargs : ∀ a ∈ args, RaisesOnly Caught a) (hkw : ∀ a ∈ kwargs, RaisesOnly Caught a.2) :
    ∀ e, evalItem pre fn args kwargs datum = .error e → e = .unmodelled := by
  exact evalItem_error pre fn args kwargs datum hargs hkw

/-- Filtering wrapped data with a single condition with literal arguments never aborts. -/
theorem C01_never_aborts (l : Leaf PyVal) (d : DataV) :
    ∀ e, filterAux (Cond.lit (.leaf l)) d false = .error e → e = .unmodelled := by
  exact filterAux_leaf_error l d

/-- The entry point `filter` on a raw document only refuses: non-containers and empty containers
    (`Data(...)`), a key-kind condition on a list, an index-kind condition on a mapping – all `TypeError`. -/
theorem C01_filter_errors (l : Leaf PyVal) (doc : PyVal) :
    ∀ e, filterPy (Cond.lit (.leaf l)) doc = .error e → e = .typeError ∨ e = .unmodelled := by
  exact filterPy_leaf_error l doc

theorem C01_kind_refusal_key (l : Leaf PyVal) (xs : List PyVal) (h : Cond.likeOf l.cls = "key") :
    filterPy (Cond.lit (.leaf l)) (.list xs) = .error .typeError := by
  simp [filterPy, Cond.lit, Cond.mapArgs, h]
  rfl

theorem C01_kind_refusal_index (l : Leaf PyVal) (kvs : List (PyVal × PyVal)) (h : Cond.likeOf l.cls = "index") :
    filterPy (Cond.lit (.leaf l)) (.dict kvs) = .error .typeError := by
  simp [filterPy, Cond.lit, Cond.mapArgs, h]
  rfl

/-! ### one boolean per item, in item order; the partition -/

/-- exactly one flag triple per item, the data is left as it was -/
theorem C01_result_shape (l : Leaf PyVal) (d : DataV) (fd : FD) (d' : DataV) (p : Option (List PyVal))
    (h : filterAux (Cond.lit (.leaf l)) d false = .ok (fd, d', p)) :
    d' = d ∧ p = none ∧
      (fd.result.length = d.values.length ∨ fd.result.length = d.keys.length) := by
  exact filterAux_leaf_ok l d fd d' p h

/-- the i-th boolean is the callable's verdict on the i-th item's datum (after the pre-processor);
    "not defined" (any caught exception) counts as `false` -/
theorem C01_item_meaning (pre fn : String) (args : List PyVal) (kwargs : List (String × PyVal)) (datum : PyVal)
    (f : ItemFlags)
    (h : evalItem pre fn (args.map .ok) (kwargs.map (fun kv => (kv.1, .ok kv.2))) datum = .ok f) :
    f.result = (match applyPre pre datum with
                | .ok p => (asBool (callFn fn p args kwargs)).getD false
                | .error _ => false) := by
  exact evalItem_meaning pre fn args kwargs datum f h

/-- selected values / keys are a sub-list of the items, in original order -/
theorem C01_partition_sublist (res : List Bool) (xs : List PyVal) : (pickBy res xs).Sublist xs := by
  exact pickBy_sublist res xs

/-- selected items are exactly those whose boolean is true -/
theorem C01_partition_selected (res : List Bool) (xs : List PyVal) (h : res.length = xs.length) :
    pickBy res xs = (List.range xs.length).filterMap (fun i => if res.getD i false then xs[i]? else none) := by
  exact pickBy_eq res xs h

/-- failure indices are exactly the positions holding `false`, ascending -/
theorem C01_partition_failures (res : List Bool) :
    (∀ i, i ∈ failureIndices res ↔ (i < res.length ∧ res[i]? = some false)) ∧
    (failureIndices res).Pairwise (· < ·) := by
  exact ⟨mem_failureIndices res, failureIndices_pairwise res⟩

/-- every item is either selected or a failure, never both -/
theorem C01_partition_count (res : List Bool) (xs : List PyVal) (h : res.length = xs.length) :
    (pickBy res xs).length + (failureIndices res).length = xs.length := by
  exact partition_count res xs h

/-! ### documented meaning of the callables (App. D) -/

theorem C01_equal_to (x v : PyVal) : asBool (Callables.equal_to x v) = ValidaSpec.equal_to x v := by
  exact equal_to_meaning x v
theorem C01_not_equal_to (x v : PyVal) : asBool (Callables.not_equal_to x v) = ValidaSpec.not_equal_to x v := by
  exact not_equal_to_meaning x v
theorem C01_less_than (x v : PyVal) : asBool (Callables.less_than x v) = ordered .lt x v := by
  exact asBool_cmp .lt x v
theorem C01_greater_than (x v : PyVal) : asBool (Callables.greater_than x v) = ordered .gt x v := by
  exact asBool_cmp .gt x v
theorem C01_less_than_or_equal_to (x v : PyVal) :
    asBool (Callables.less_than_or_equal_to x v) = ordered .le x v := by
  exact asBool_cmp .le x v
theorem C01_greater_than_or_equal_to (x v : PyVal) :
    asBool (Callables.greater_than_or_equal_to x v) = ordered .ge x v := by
  exact asBool_cmp .ge x v
theorem C01_in (x c : PyVal) (hc : ∀ n, c ≠ .obj n) : asBool (Callables.in_ x c) = ValidaSpec.in_ x c := by
  exact in_meaning x c hc
theorem C01_not_in (x c : PyVal) (hc : ∀ n, c ≠ .obj n) :
    asBool (Callables.not_in x c) = (ValidaSpec.in_ x c).map (!·) := by
  exact not_in_meaning x c hc

/-- `in_range(l, u)` with integer bounds: true iff the datum equals an integer of the half-open range -/
theorem C01_in_range (x l u : PyVal) (lo hi : Int) (hl : Py.asInt l = some lo) (hu : Py.asInt u = some hi) :
    ∃ r, Callables.in_range x l u = .ok (.bool r) ∧ (r = true ↔ InRange x lo hi) := by
  exact inRange_spec x l u lo hi hl hu
theorem C01_not_in_range (x l u : PyVal) (lo hi : Int) (hl : Py.asInt l = some lo) (hu : Py.asInt u = some hi) :
    ∃ r, Callables.not_in_range x l u = .ok (.bool r) ∧ (r = true ↔ ¬ InRange x lo hi) := by
  exact notInRange_spec x l u lo hi hl hu
/-- non-integer bounds: not defined -/
theorem C01_in_range_undefined (x l u : PyVal) (h : Py.asInt l = none ∨ Py.asInt u = none) :
    asBool (Callables.in_range x l u) = none ∧ asBool (Callables.not_in_range x l u) = none := by
  exact in_range_undefined_meaning x l u h

theorem C01_truthy (x : PyVal) : asBool (Callables.truthy x) = some (PyVal.truthy x) := by
  exact truthy_meaning x
theorem C01_falsy (x : PyVal) : asBool (Callables.falsy x) = some (!PyVal.truthy x) := by
  exact falsy_meaning x
theorem C01_null (x : PyVal) : asBool (Callables.null x) = some true := by
  exact null_meaning x

/-- integers: `has_factor(v)` is divisibility of the datum by `v`; a zero divisor is undefined -/
theorem C01_has_factor_int (a c : Int) :
    asBool (Callables.has_factor (.int a) (.int c)) = if c = 0 then none else some (decide (c ∣ a)) := by
  exact has_factor_int_meaning a c
theorem C01_factor_of_int (a c : Int) :
    asBool (Callables.factor_of (.int a) (.int c)) = if a = 0 then none else some (decide (a ∣ c)) := by
  exact factor_of_int_meaning a c
/-- a string datum (or argument) never satisfies a divisibility condition -/
theorem C01_has_factor_str (s : String) (v : PyVal) :
    asBool (Callables.has_factor (.str s) v) = none ∨ asBool (Callables.has_factor (.str s) v) = some false := by
  exact has_factor_str_meaning s v

theorem C01_equal_to_approx_int (a c t : Int) :
    asBool (Callables.equal_to_approx (.int a) (.int c) (.int t)) = some (decide (((a - c).natAbs : Int) < t)) := by
  exact equal_to_approx_int_meaning a c t

/-- `is_instance(T₁, …)` with type arguments: the datum is an instance of one of them (bool ⊂ int) -/
theorem C01_is_instance (x : PyVal) (ts : List PyType) :
    asBool (Callables.is_instance x (ts.map PyVal.type)) = some (ts.any (fun t => instOf x t)) := by
  exact is_instance_meaning x ts

theorem C01_keys_contain (x k : PyVal) (hx : ∀ n, x ≠ .obj n) :
    asBool (Callables.keys_contain x k) =
      (match keysOf x with
       | some xs => if hashable k then some (decide (MemEq k xs)) else none
       | none => none) := by
  exact keys_contain_meaning x k hx

theorem C01_keys_contain_any_of (x : PyVal) (xs ks : List PyVal) (hx : keysOf x = some xs)
    (hk : ∀ k ∈ ks, hashable k = true) :
    asBool (Callables.keys_contain_any_of x ks) = some (decide (∃ k ∈ ks, MemEq k xs)) := by
  exact keys_contain_any_of_meaning x xs ks hx hk
theorem C01_keys_contain_all_of (x : PyVal) (xs ks : List PyVal) (hx : keysOf x = some xs)
    (hk : ∀ k ∈ ks, hashable k = true) :
    asBool (Callables.keys_contain_all_of x ks) = some (decide (∀ k ∈ ks, MemEq k xs)) := by
  exact keys_contain_all_of_meaning x xs ks hx hk
/-- keys of a non-mapping are undefined as soon as one key is inspected -/
theorem C01_keys_of_non_mapping (x k : PyVal) (ks : List PyVal) (hx : keysOf x = none) (hx' : ∀ n, x ≠ .obj n) :
    asBool (Callables.keys_contain x k) = none ∧
    asBool (Callables.keys_contain_any_of x (k :: ks)) = none ∧
    asBool (Callables.keys_contain_all_of x (k :: ks)) = none ∧
    asBool (Callables.keys_equal_to x ks) = none ∧
    asBool (Callables.allowed_keys x ks) = none ∧
    asBool (Callables.required_keys x ks) = none ∧
    asBool (Callables.forbidden_keys x ks) = none := by
  exact keys_of_non_mapping_meaning x k ks hx hx'

/-- the `N_of` family counts, with multiplicity, how many of `ks` are keys of the mapping -/
theorem C01_keys_contain_N_of (x N : PyVal) (xs ks : List PyVal) (hx : keysOf x = some xs)
    (hk : ∀ k ∈ ks, hashable k = true) :
    Callables.keys_contain_N_of x N (.list ks) = Py.eq (.int (countPresent xs ks)) N ∧
    Callables.keys_contain_at_least_N_of x N (.list ks) = Py.ge (.int (countPresent xs ks)) N ∧
    Callables.keys_contain_at_most_N_of x N (.list ks) = Py.le (.int (countPresent xs ks)) N := by
  exact keys_contain_N_of_meaning x N xs ks hx hk
theorem C01_keys_contain_one_of (x : PyVal) (xs ks : List PyVal) (hx : keysOf x = some xs)
    (hk : ∀ k ∈ ks, hashable k = true) :
    asBool (Callables.keys_contain_one_of x ks) = some (countPresent xs ks == 1) ∧
    asBool (Callables.keys_contain_at_least_one_of x (.list ks)) = some (decide (countPresent xs ks ≥ 1)) ∧
    asBool (Callables.keys_contain_at_most_one_of x (.list ks)) = some (decide (countPresent xs ks ≤ 1)) := by
  exact keys_contain_one_of_meaning x xs ks hx hk

/-- set comparisons of the keys of a mapping (hashable keys on both sides) -/
theorem C01_allowed_keys (x : PyVal) (ks : List PyVal) (h : KeysDefined x ks) :
    ∃ r, Callables.allowed_keys x ks = .ok (.bool r) ∧ (r = true ↔ AllowedKeys x ks) := by
  exact allowed_keys_spec x ks h
theorem C01_required_keys (x : PyVal) (ks : List PyVal) (h : KeysDefined x ks) :
    ∃ r, Callables.required_keys x ks = .ok (.bool r) ∧ (r = true ↔ RequiredKeys x ks) := by
  exact required_keys_spec x ks h
theorem C01_forbidden_keys (x : PyVal) (ks : List PyVal) (h : KeysDefined x ks) :
    ∃ r, Callables.forbidden_keys x ks = .ok (.bool r) ∧ (r = true ↔ ForbiddenKeys x ks) := by
  exact forbidden_keys_spec x ks h
theorem C01_keys_equal_to (x : PyVal) (ks : List PyVal) (h : KeysDefined x ks) :
    ∃ r, Callables.keys_equal_to x ks = .ok (.bool r) ∧ (r = true ↔ (AllowedKeys x ks ∧ RequiredKeys x ks)) := by
  exact keys_equal_to_spec x ks h

/-- `keys_is_instance(T₁, …)`: every key is an instance of one of the types -/
theorem C01_keys_is_instance (x : PyVal) (xs : List PyVal) (ts : List PyType) (hx : keysOf x = some xs) :
    asBool (Callables.keys_is_instance x (ts.map PyVal.type)) =
      some (xs.all (fun k => ts.any (fun t => instOf k t))) := by
  exact keys_is_instance_meaning x xs ts hx

/-- `items_contain(k=v, …)`: every named key is present with an equal value -/
theorem C01_items_contain (kvs : List (PyVal × PyVal)) (items : List (String × PyVal)) :
    asBool (Callables.items_contain (.dict kvs) items) =
      some (items.all (fun kv => match Py.dictGet (.str kv.1) kvs with
                                 | some v => pyEq v kv.2
                                 | none => false)) := by
  exact items_contain_meaning kvs items

/-! ### non-vacuity: concrete instances evaluated by the kernel -/

example : resultIs (filterPy (Cond.lit (.leaf { cls := .value, fn := "less_than", args := [], kwargs := [("value", .int 3)] }))
    (.list [.int 1, .str "a", .int 5])) [true, false, false] = true := by
  decide +kernel

example : resultIs (filterPy (Cond.lit (.leaf { cls := .value, fn := "factor_of", args := [], kwargs := [("value", .int 6)] }))
    (.list [.int 0, .int 2, .int 4])) [false, true, false] = true := by
  decide +kernel

example : KeysDefined (.dict [(.str "a", .int 1)]) [.str "a", .int 1] := by
  refine ⟨[.str "a"], rfl, ?_, ?_⟩ <;> decide

end ValidaProofs
