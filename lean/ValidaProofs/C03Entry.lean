/-
  C03 (entry points) – "the same nodes … through every entry point: the raw document, a wrapped
  document, `Data.get(path)`, `Data.get(*parts)`, and a path bound to its document".

  In the model the entry points differ only in where the document comes from: the argument of
  `get_data`, or the path's own bound `source_data` (which wins when truthy).
-/
import Valida.Path
import ValidaProofs.C03
namespace ValidaProofs
open Valida ValidaGen

/-- a path bound to a (truthy) document resolves in it, whatever is passed as argument -/
theorem C03_bound_source_wins (p : Path) (doc : PyVal) (arg : Option PyVal) (rp : Bool)
    (hd : PyVal.truthy doc = true) :
    ({ p with source := some doc }).getData arg rp = ({ p with source := none }).getData (some doc) rp := by
  simp [Path.getData, hd]

/-- a path bound to a falsy document falls back to the argument -/
theorem C03_falsy_source_falls_back (p : Path) (src : PyVal) (arg : Option PyVal) (rp : Bool)
    (hs : PyVal.truthy src = false) :
    ({ p with source := some src }).getData arg rp = ({ p with source := none }).getData arg rp := by
  simp [Path.getData, hs]

/-- no document at all (neither bound nor given, or a falsy one): `ValueError`, before anything is walked -/
theorem C03_no_document (p : Path) (rp : Bool) (arg : Option PyVal)
    (ha : ∀ d, arg = some d → PyVal.truthy d = false) :
    ({ p with source := none }).getData arg rp = .error .valueError := by
  cases arg with
  | none => simp [Path.getData, bind, Except.bind, throw, throwThe, MonadExceptOf.throw]
  | some d => simp [Path.getData, ha d rfl, bind, Except.bind, throw, throwThe, MonadExceptOf.throw]

end ValidaProofs
