/-
  C11 (headline) – a condition serialised with `to_json_like()` and parsed back is the same condition:
  uniformly over the generated constructor tables (every class × every constructor, aliases
  included), for every choice of scalar literal arguments, and lifted to whole trees.

  Fragment (as the property states it: "conditions built from literal arguments"): arguments are
  scalar literals (None, bool, int, float, str) – or type objects the library names, for the dtype
  classes and the two instance tests.  Mappings / lists as arguments are outside these theorems (an
  item that looks like a path spec is re-read as a data path: finding D11).
-/
import Valida.Spec.Parse
import Valida.Spec.Ser
import Valida.Dsl
import Valida.Eq
import ValidaProofs.Lemmas.Basic
import ValidaProofs.Lemmas.C11RoundLeaf
import ValidaProofs.C11
namespace ValidaProofs
open Valida ValidaGen

/-- scalar literals: nothing a parser step re-reads -/
def ScalarLit : PyVal → Prop
  | .none => True
  | .bool _ => True
  | .int _ => True
  | .float _ => True
  | .str _ => True
  | _ => False

/-- type objects the library has a name for -/
def NamedType (v : PyVal) : Prop := ∃ t n, v = .type t ∧ (t, n) ∈ invDtypeLookup

/-- the stored form round-trips exactly: written, and read back as the very same single condition
    with any fuel from 3 on -/
def LeafRT (l : Leaf Arg) : Prop :=
  ∃ js, leafToJson l = .ok js ∧ ∀ fuel, parseCond (fuel + 3) js = .ok (.leaf l)

/-- caller-chosen keyword names (`items_contain(**items)`) that do not make the written mapping
    `{name: value…}` look like a data-path spec to `from_spec`: no name contains the escape code
    `\path`; and if there is exactly one name, it is ASCII (the model's `str.lower`) and its first
    dot-token, lower-cased, is not `path` -/
def PlainKwNames (kw : List (String × PyVal)) : Prop :=
  (∀ kv ∈ kw, containsSub "\\path" kv.1 = false) ∧
  (∀ k v, kw = [(k, v)] →
    isAscii k = true ∧
    (splitDot k).head?.map (fun t => String.ofList (t.toList.map Char.toLower)) ≠ some "path")

-- STATEMENT CHANGED: hypothesis `hkeys` added (finding D11).  For a var-keyword constructor
-- (`items_contain(**items)`) the keyword names are chosen by the caller and the serialiser writes them
-- as the keys of a mapping, which `from_spec` first tries to read as a data-path spec.  Counterexamples
-- (evaluated on the model; all other hypotheses hold):
--   `Value.items_contain(path=1)`  is written `{"value.items_contain": {"path": 1}}` and
--       `parseCond 6` of that is `.error .typeError` (`DataPath.from_spec` iterates over `1`);
--   `Value.items_contain(path="ab")`  →  `.error .malformedCond`;
--   `Value.items_contain(**{"\\path": 1})`  is read back as `items_contain(path=1)`, another condition;
--   `Value.items_contain(**{"a\\pathb": 1, "c": 2})`  is read back with the name `apathb`.
-- The hypothesis is only about var-keyword constructors; for all others the theorem is as before.
-- (A non-ASCII single name makes the *model* answer `unmodelled` – `pyLower` is ASCII-only –, hence
-- `isAscii`; with several names only the escape code matters.)
/-- **Every DSL condition with scalar literal arguments round-trips** – classes without the `type`
    pre-processor, callables other than the two instance tests; any constructor of the class (an
    alias included), positional and keyword arguments as the signature admits (whenever the DSL
    call itself is accepted, `hl`). -/
theorem C11_leaf_roundtrip (cls : CClass) (info : CondClassInfo) (c : Ctor)
    (pos : List PyVal) (kw : List (String × PyVal)) (l : Leaf Arg)
    (hinfo : cls.info = .ok info) (hcls : cls ≠ .null) (hpre : info.pre ≠ "type")
    (hc : c ∈ ctorsOf info) (hfn : c.target ≠ "is_instance" ∧ c.target ≠ "keys_is_instance")
    (hpos : ∀ v ∈ pos, ScalarLit v) (hkw : ∀ kv ∈ kw, ScalarLit kv.2)
    (hkeys : c.varKw.isSome = true → PlainKwNames kw)
    (hl : buildLeaf Arg.lit cls c (pos.map Arg.lit) (kw.map (fun kv => (kv.1, Arg.lit kv.2))) = .ok l) :
    LeafRT l := by
  have hnull : (cls == .null) = false := by simpa using hcls
  have hsc : ∀ v, ScalarLit v → C11R.scalarB v = true := by
    intro v hv; cases v <;> first | rfl | exact hv.elim
  refine C11R.rt_plain cls info c hinfo hnull (C11R.facts_at cls info c hinfo hnull hc)
    (by simp [C11R.isInst, hpre, hfn.1, hfn.2]) _ _ l ?_ ?_ ?_ hl
  · intro a ha
    obtain ⟨v, hv, rfl⟩ := List.mem_map.mp ha
    exact ⟨v, rfl, hsc v (hpos v hv)⟩
  · intro kv hkv
    obtain ⟨kv', hkv', rfl⟩ := List.mem_map.mp hkv
    exact ⟨kv'.2, rfl, hsc _ (hkw kv' hkv')⟩
  · intro hvk
    obtain ⟨h1, h2⟩ := hkeys hvk
    rw [List.map_map]
    refine ⟨?_, ?_⟩
    · intro k hk
      obtain ⟨kv, hkv, rfl⟩ := List.mem_map.mp hk
      exact h1 kv hkv
    · intro k hk
      match kw, hk, h2 with
      | [(k', v)], hk, h2 =>
        simp only [List.map_cons, List.map_nil, Function.comp_apply, List.cons.injEq, and_true] at hk
        subst hk
        exact h2 k' v rfl

/-- … and with named type objects as arguments, for the dtype classes (`equal_to(T)`,
    `not_equal_to(T)`) and the two instance tests (`is_instance(T…)`, `keys_is_instance(T…)`) -/
theorem C11_leaf_roundtrip_types (cls : CClass) (info : CondClassInfo) (c : Ctor)
    (pos : List PyVal) (l : Leaf Arg)
    (hinfo : cls.info = .ok info) (hcls : cls ≠ .null)
    (hc : c ∈ ctorsOf info)
    (hdom : (info.pre = "type" ∧ (c.target = "equal_to" ∨ c.target = "not_equal_to") ∧ pos.length = 1) ∨
            (info.pre ≠ "type" ∧ (c.target = "is_instance" ∨ c.target = "keys_is_instance")))
    (hpos : ∀ v ∈ pos, NamedType v)
    (hl : buildLeaf Arg.lit cls c (pos.map Arg.lit) [] = .ok l) :
    LeafRT l := by
  have hnull : (cls == .null) = false := by simpa using hcls
  have hf := C11R.facts_at cls info c hinfo hnull hc
  have hty : ∀ v ∈ pos, C11R.TypeRT v := by
    intro v hv
    obtain ⟨t, n, rfl, hn⟩ := hpos v hv
    exact C11R.typeRT_of_named t n hn
  rcases hdom with ⟨hpre, htarget, hlen⟩ | ⟨hpre, htarget⟩
  · match pos, hlen, hty, hl with
    | [x], _, hty, hl =>
      exact C11R.rt_types_eq cls info c hinfo hnull hf hpre htarget (.lit x) l
        ⟨x, rfl, hty x (by simp)⟩ hl
  · refine C11R.rt_types_inst cls info c hinfo hnull hf hpre htarget _ l ?_ hl
    intro a ha
    obtain ⟨v, hv, rfl⟩ := List.mem_map.mp ha
    exact ⟨v, rfl, hty v hv⟩

/-! ### non-vacuity: the hypotheses hold for concrete DSL calls (kernel-evaluated Bool helpers) -/

def scalarLitB : PyVal → Bool
  | .none | .bool _ | .int _ | .float _ | .str _ => true
  | _ => false

def plainKwNamesB (kw : List (String × PyVal)) : Bool :=
  kw.all (fun kv => !containsSub "\\path" kv.1) &&
  (match kw with
   | [(k, _)] =>
      isAscii k && ((splitDot k).head?.map (fun t => String.ofList (t.toList.map Char.toLower)) != some "path")
   | _ => true)

def buildsB (cls : CClass) (c : Ctor) (pos : List PyVal) (kw : List (String × PyVal)) : Bool :=
  match buildLeaf Arg.lit cls c (pos.map Arg.lit) (kw.map (fun kv => (kv.1, Arg.lit kv.2))) with
  | .ok _ => true
  | .error _ => false

/-- every hypothesis of `C11_leaf_roundtrip` for the DSL call `cls.name(*pos, **kw)` -/
def leafHypsB (cls : CClass) (name : String) (pos : List PyVal) (kw : List (String × PyVal)) : Bool :=
  match cls.info with
  | .ok info =>
    cls != .null && info.pre != "type" &&
    (match (ctorsOf info).find? (fun c => c.name == name) with
     | some c =>
        c.target != "is_instance" && c.target != "keys_is_instance" &&
        pos.all scalarLitB && kw.all (fun kv => scalarLitB kv.2) &&
        (!c.varKw.isSome || plainKwNamesB kw) && buildsB cls c pos kw
     | none => false)
  | .error _ => false

theorem leafHypsB_sound (cls : CClass) (name : String) (pos : List PyVal) (kw : List (String × PyVal))
    (h : leafHypsB cls name pos kw = true) :
    ∃ info c l, cls.info = .ok info ∧ cls ≠ .null ∧ info.pre ≠ "type" ∧ c ∈ ctorsOf info ∧
      (ctorsOf info).find? (fun c => c.name == name) = some c ∧
      (c.target ≠ "is_instance" ∧ c.target ≠ "keys_is_instance") ∧
      (∀ v ∈ pos, ScalarLit v) ∧ (∀ kv ∈ kw, ScalarLit kv.2) ∧ (c.varKw.isSome = true → PlainKwNames kw) ∧
      buildLeaf Arg.lit cls c (pos.map Arg.lit) (kw.map (fun kv => (kv.1, Arg.lit kv.2))) = .ok l := by
  have hsc : ∀ v, scalarLitB v = true → ScalarLit v := by
    intro v hv; cases v <;> first | trivial | cases hv
  unfold leafHypsB at h
  split at h
  · rename_i info hinfo
    split at h
    · rename_i c hfind
      simp only [Bool.and_eq_true, bne_iff_ne, ne_eq, List.all_eq_true, Bool.or_eq_true, Bool.not_eq_true'] at h
      obtain ⟨⟨hn, hp⟩, ⟨⟨⟨⟨⟨ht1, ht2⟩, hpos⟩, hkw⟩, hkeys⟩, hb⟩⟩ := h
      unfold buildsB at hb
      split at hb
      · rename_i l hl
        refine ⟨info, c, l, hinfo, hn, hp, List.mem_of_find?_eq_some hfind, hfind, ⟨ht1, ht2⟩,
          fun v hv => hsc v (hpos v hv), fun kv hkv => hsc _ (hkw kv hkv), ?_, hl⟩
        intro hvk
        rcases hkeys with hk | hk
        · rw [hvk] at hk; cases hk
        · unfold plainKwNamesB at hk
          simp only [Bool.and_eq_true, List.all_eq_true, Bool.not_eq_true'] at hk
          refine ⟨hk.1, ?_⟩
          intro k v hkv
          subst hkv
          simpa using hk.2
      · cases hb
    · simp at h
  · cases h

/-- the round trip stated for DSL calls by constructor name -/
theorem C11_call_roundtrip (cls : CClass) (name : String) (pos : List PyVal) (kw : List (String × PyVal))
    (h : leafHypsB cls name pos kw = true) :
    ∃ l, Dsl.call Arg.lit cls name (pos.map Arg.lit) (kw.map (fun kv => (kv.1, Arg.lit kv.2))) = .ok (.leaf l) ∧
      LeafRT l := by
  obtain ⟨info, c, l, hinfo, hcls, hpre, hc, hfind, hfn, hpos, hkw, hkeys, hl⟩ := leafHypsB_sound cls name pos kw h
  refine ⟨l, ?_, C11_leaf_roundtrip cls info c pos kw l hinfo hcls hpre hc hfn hpos hkw hkeys hl⟩
  have hb : (cls == CClass.null) = false := by simpa using hcls
  simp [Dsl.call, findCtor, hinfo, hfind, hb, hl, bind, Except.bind, pure, Except.pure]

/-- `Value.in_range(1, 5)` -/
example : leafHypsB .value "in_range" [.int 1, .int 5] [] = true := by decide +kernel
/-- `Key.equal_to("a")` -/
example : leafHypsB .key "equal_to" [.str "a"] [] = true := by decide +kernel
/-- `ValueLength.less_than(3)` -/
example : leafHypsB .valueLength "less_than" [.int 3] [] = true := by decide +kernel
/-- `Value.equal_to_approx(1.5)` (default tolerance); 1.5 in units of 2^-1074 -/
example : leafHypsB .value "equal_to_approx" [.float (3 * 2 ^ 1073)] [] = true := by decide +kernel
/-- `Value.items_contain(a=1)` -/
example : leafHypsB .value "items_contain" [] [("a", .int 1)] = true := by decide +kernel
/-- … and the key check is not vacuous: `Value.items_contain(path=1)` is refused -/
example : leafHypsB .value "items_contain" [] [("path", .int 1)] = false := by decide +kernel

def namedTypeB : PyVal → Bool
  | .type t => invDtypeLookup.any (fun p => p.1 == t)
  | _ => false

/-- every hypothesis of `C11_leaf_roundtrip_types` for the DSL call `cls.name(*pos)` -/
def typesHypsB (cls : CClass) (name : String) (pos : List PyVal) : Bool :=
  match cls.info with
  | .ok info =>
    cls != .null &&
    (match (ctorsOf info).find? (fun c => c.name == name) with
     | some c =>
        ((info.pre == "type" && (c.target == "equal_to" || c.target == "not_equal_to") && pos.length == 1) ||
         (info.pre != "type" && (c.target == "is_instance" || c.target == "keys_is_instance"))) &&
        pos.all namedTypeB && buildsB cls c pos []
     | none => false)
  | .error _ => false

theorem typesHypsB_sound (cls : CClass) (name : String) (pos : List PyVal) (h : typesHypsB cls name pos = true) :
    ∃ info c l, cls.info = .ok info ∧ cls ≠ .null ∧ c ∈ ctorsOf info ∧
      (ctorsOf info).find? (fun c => c.name == name) = some c ∧
      ((info.pre = "type" ∧ (c.target = "equal_to" ∨ c.target = "not_equal_to") ∧ pos.length = 1) ∨
       (info.pre ≠ "type" ∧ (c.target = "is_instance" ∨ c.target = "keys_is_instance"))) ∧
      (∀ v ∈ pos, NamedType v) ∧
      buildLeaf Arg.lit cls c (pos.map Arg.lit) [] = .ok l := by
  have hnt : ∀ v, namedTypeB v = true → NamedType v := by
    intro v hv
    cases v <;> try (cases hv)
    rename_i t
    simp only [namedTypeB, List.any_eq_true, beq_iff_eq] at hv
    obtain ⟨⟨t', n⟩, hm, rfl⟩ := hv
    exact ⟨t', n, rfl, hm⟩
  unfold typesHypsB at h
  split at h
  · rename_i info hinfo
    split at h
    · rename_i c hfind
      simp only [Bool.and_eq_true, bne_iff_ne, ne_eq, List.all_eq_true, Bool.or_eq_true, beq_iff_eq] at h
      obtain ⟨hn, ⟨hdom, hpos⟩, hb⟩ := h
      unfold buildsB at hb
      split at hb
      · rename_i l hl
        refine ⟨info, c, l, hinfo, hn, List.mem_of_find?_eq_some hfind, hfind, ?_,
          fun v hv => hnt v (hpos v hv), hl⟩
        rcases hdom with ⟨⟨h1, h2⟩, h3⟩ | ⟨h1, h2⟩
        · exact Or.inl ⟨h1, h2, h3⟩
        · exact Or.inr ⟨h1, h2⟩
      · cases hb
    · simp at h
  · cases h

theorem C11_call_roundtrip_types (cls : CClass) (name : String) (pos : List PyVal)
    (h : typesHypsB cls name pos = true) :
    ∃ l, Dsl.call Arg.lit cls name (pos.map Arg.lit) [] = .ok (.leaf l) ∧ LeafRT l := by
  obtain ⟨info, c, l, hinfo, hcls, hc, hfind, hdom, hpos, hl⟩ := typesHypsB_sound cls name pos h
  refine ⟨l, ?_, C11_leaf_roundtrip_types cls info c pos l hinfo hcls hc hdom hpos hl⟩
  have hb : (cls == CClass.null) = false := by simpa using hcls
  simp [Dsl.call, findCtor, hinfo, hfind, hb, hl, bind, Except.bind, pure, Except.pure]

/-- `ValueDataType.equal_to(int)` -/
example : typesHypsB .valueDataType "equal_to" [.type .int] = true := by decide +kernel
/-- `Value.is_instance(int, str)` -/
example : typesHypsB .value "is_instance" [.type .int, .type .str] = true := by decide +kernel

/-- depth of a tree (fuel the parser needs) -/
def Cond.depthA : Cond Arg → Nat
  | .leaf _ => 0
  | .bin _ a b => max (Cond.depthA a) (Cond.depthA b) + 1

/-- a tree as the constructors build it: no null operand inside a combination, key-kind and
    index-kind conditions not mixed -/
def WFTree : Cond Arg → Prop
  | .leaf _ => True
  | .bin op a b => WFTree a ∧ WFTree b ∧ a.isNull = false ∧ b.isNull = false ∧ Cond.mkBin op a b = .ok (.bin op a b)

/-- **Trees**: if every single condition of a well-formed tree round-trips, the tree does – written as
    nested `{op: [left, right]}` mappings and read back as the same tree. -/
theorem C11_tree_roundtrip (c : Cond Arg) (hwf : WFTree c) (hleaves : ∀ l ∈ c.leaves, LeafRT l) :
    ∃ js, condToJson c = .ok js ∧ ∀ fuel, parseCond (fuel + Cond.depthA c + 3) js = .ok c := by
  induction c with
  | leaf l =>
    obtain ⟨js, h1, h2⟩ := hleaves l (by simp [Cond.leaves])
    exact ⟨js, h1, fun fuel => h2 fuel⟩
  | bin op a b iha ihb =>
    obtain ⟨wa, wb, na, _, hmk⟩ := hwf
    obtain ⟨ja, ha1, ha2⟩ := iha wa (fun l hl => hleaves l (by simp [Cond.leaves, hl]))
    obtain ⟨jb, hb1, hb2⟩ := ihb wb (fun l hl => hleaves l (by simp [Cond.leaves, hl]))
    refine ⟨.dict [(.str op.symbol, .list [ja, jb])], ?_, ?_⟩
    · simp [condToJson, ha1, hb1, bind, Except.bind, pure, Except.pure]
    · intro fuel
      have hfa : parseCond (fuel + max (Cond.depthA a) (Cond.depthA b) + 3) ja = .ok a := by
        have := ha2 (fuel + (max (Cond.depthA a) (Cond.depthA b) - Cond.depthA a))
        rwa [show fuel + (max (Cond.depthA a) (Cond.depthA b) - Cond.depthA a) + Cond.depthA a + 3 =
          fuel + max (Cond.depthA a) (Cond.depthA b) + 3 by omega] at this
      have hfb : parseCond (fuel + max (Cond.depthA a) (Cond.depthA b) + 3) jb = .ok b := by
        have := hb2 (fuel + (max (Cond.depthA a) (Cond.depthA b) - Cond.depthA b))
        rwa [show fuel + (max (Cond.depthA a) (Cond.depthA b) - Cond.depthA b) + Cond.depthA b + 3 =
          fuel + max (Cond.depthA a) (Cond.depthA b) + 3 by omega] at this
      have h := (C11_bin _ op a b ja jb a b ha1 hb1 hfa hfb na).2
      rw [hmk] at h
      rw [show fuel + Cond.depthA (.bin op a b) + 3 = fuel + max (Cond.depthA a) (Cond.depthA b) + 3 + 1 by
        simp only [Cond.depthA]; omega]
      exact h

/-- non-vacuity of the tree theorem: `Value.in_range(1, 5) & Value.truthy()` round-trips (both
    leaves through `C11_leaf_roundtrip`, by way of `C11_call_roundtrip`) -/
example :
    let t : Cond Arg := .bin .and
      (.leaf { cls := .value, fn := "in_range", args := [],
               kwargs := [("lower", .lit (.int 1)), ("upper", .lit (.int 5))] })
      (.leaf { cls := .value, fn := "truthy", args := [], kwargs := [] })
    ∃ js, condToJson t = .ok js ∧ ∀ fuel, parseCond (fuel + 1 + 3) js = .ok t := by
  intro t
  refine C11_tree_roundtrip t ⟨trivial, trivial, rfl, rfl, rfl⟩ ?_
  intro l hl
  simp only [t, Cond.leaves, List.cons_append, List.nil_append, List.mem_cons, List.not_mem_nil, or_false] at hl
  rcases hl with rfl | rfl
  · obtain ⟨l, h1, h2⟩ := C11_call_roundtrip .value "in_range" [.int 1, .int 5] [] (by decide +kernel)
    have : l = { cls := .value, fn := "in_range", args := [],
                 kwargs := [("lower", .lit (.int 1)), ("upper", .lit (.int 5))] } := by
      have h3 : Dsl.call Arg.lit .value "in_range" ([.int 1, .int 5].map Arg.lit) [] =
          .ok (.leaf { cls := .value, fn := "in_range", args := [],
                       kwargs := [("lower", .lit (.int 1)), ("upper", .lit (.int 5))] }) := rfl
      rw [show ([] : List (String × PyVal)).map (fun kv => (kv.1, Arg.lit kv.2)) = [] from rfl, h3] at h1
      cases h1; rfl
    exact this ▸ h2
  · obtain ⟨l, h1, h2⟩ := C11_call_roundtrip .value "truthy" [] [] (by decide +kernel)
    have : l = { cls := .value, fn := "truthy", args := [], kwargs := [] } := by
      have h3 : Dsl.call Arg.lit .value "truthy" [] [] =
          .ok (.leaf { cls := .value, fn := "truthy", args := [], kwargs := [] }) := rfl
      rw [show ([] : List (String × PyVal)).map (fun kv => (kv.1, Arg.lit kv.2)) = [] from rfl,
        show ([] : List PyVal).map Arg.lit = [] from rfl, h3] at h1
      cases h1; rfl
    exact this ▸ h2

end ValidaProofs
