/-
  C11 (headline) – a condition serialised with `to_json_like()` and parsed back is the same condition:
  uniformly over the generated constructor tables (every class × every constructor, aliases
  included), for every choice of scalar literal arguments, and lifted to whole trees.

  Fragment (as the property states it: "conditions built from literal arguments"): arguments are
  scalar literals (None, bool, int, float, str) – or type objects the library names, for the dtype
  classes and the two instance tests.  Mappings / lists as arguments are outside these theorems (an
  item that looks like a path spec is re-read as a data path: finding D11).
-/
import Valida.Spec.Parse
import Valida.Spec.Ser
import Valida.Dsl
import Valida.Eq
import ValidaProofs.Lemmas.Basic
import ValidaProofs.C11
namespace ValidaProofs
open Valida ValidaGen

/-- scalar literals: nothing a parser step re-reads -/
def ScalarLit : PyVal → Prop
  | .none => True
  | .bool _ => True
  | .int _ => True
  | .float _ => True
  | .str _ => True
  | _ => False

/-- type objects the library has a name for -/
def NamedType (v : PyVal) : Prop := ∃ t n, v = .type t ∧ (t, n) ∈ invDtypeLookup

/-- the stored form round-trips exactly: written, and read back as the very same single condition
    with any fuel from 3 on -/
def LeafRT (l : Leaf Arg) : Prop :=
  ∃ js, leafToJson l = .ok js ∧ ∀ fuel, parseCond (fuel + 3) js = .ok (.leaf l)

/-- **Every DSL condition with scalar literal arguments round-trips** – classes without the `type`
    pre-processor, callables other than the two instance tests; any constructor of the class (an
    alias included), positional and keyword arguments as the signature admits (whenever the DSL
    call itself is accepted, `hl`). -/
theorem C11_leaf_roundtrip (cls : CClass) (info : CondClassInfo) (c : Ctor)
    (pos : List PyVal) (kw : List (String × PyVal)) (l : Leaf Arg)
    (hinfo : cls.info = .ok info) (hcls : cls ≠ .null) (hpre : info.pre ≠ "type")
    (hc : c ∈ ctorsOf info) (hfn : c.target ≠ "is_instance" ∧ c.target ≠ "keys_is_instance")
    (hpos : ∀ v ∈ pos, ScalarLit v) (hkw : ∀ kv ∈ kw, ScalarLit kv.2)
    (hl : buildLeaf Arg.lit cls c (pos.map Arg.lit) (kw.map (fun kv => (kv.1, Arg.lit kv.2))) = .ok l) :
    LeafRT l := by
  sorry

/-- … and with named type objects as arguments, for the dtype classes (`equal_to(T)`,
    `not_equal_to(T)`) and the two instance tests (`is_instance(T…)`, `keys_is_instance(T…)`) -/
theorem C11_leaf_roundtrip_types (cls : CClass) (info : CondClassInfo) (c : Ctor)
    (pos : List PyVal) (l : Leaf Arg)
    (hinfo : cls.info = .ok info) (hcls : cls ≠ .null)
    (hc : c ∈ ctorsOf info)
    (hdom : (info.pre = "type" ∧ (c.target = "equal_to" ∨ c.target = "not_equal_to") ∧ pos.length = 1) ∨
            (info.pre ≠ "type" ∧ (c.target = "is_instance" ∨ c.target = "keys_is_instance")))
    (hpos : ∀ v ∈ pos, NamedType v)
    (hl : buildLeaf Arg.lit cls c (pos.map Arg.lit) [] = .ok l) :
    LeafRT l := by
  sorry

/-- depth of a tree (fuel the parser needs) -/
def Cond.depthA : Cond Arg → Nat
  | .leaf _ => 0
  | .bin _ a b => max (Cond.depthA a) (Cond.depthA b) + 1

/-- a tree as the constructors build it: no null operand inside a combination, key-kind and
    index-kind conditions not mixed -/
def WFTree : Cond Arg → Prop
  | .leaf _ => True
  | .bin op a b => WFTree a ∧ WFTree b ∧ a.isNull = false ∧ b.isNull = false ∧ Cond.mkBin op a b = .ok (.bin op a b)

/-- **Trees**: if every single condition of a well-formed tree round-trips, the tree does – written as
    nested `{op: [left, right]}` mappings and read back as the same tree. -/
theorem C11_tree_roundtrip (c : Cond Arg) (hwf : WFTree c) (hleaves : ∀ l ∈ c.leaves, LeafRT l) :
    ∃ js, condToJson c = .ok js ∧ ∀ fuel, parseCond (fuel + Cond.depthA c + 3) js = .ok c := by
  sorry

end ValidaProofs
