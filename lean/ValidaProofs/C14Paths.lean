/-
  C14 (parts, paths, rules) – "objects that compare equal select the same nodes and give the same
  verdicts on every document".

  Lifted from conditions (`C14_same_behaviour`) to the objects built from them: parts, paths and rules
  that are the same up to the order of the operands of combinations and the order of keyword
  arguments (identical arguments: finding D16 excludes more) compare equal, select the same nodes with
  the same concrete paths, and give the same rule test.
-/
import Valida.Path
import Valida.Rule
import Valida.Eq
import ValidaProofs.C14Behave
import ValidaProofs.Lemmas.C14PathsPart
import ValidaProofs.Lemmas.C14PathsRule
namespace ValidaProofs
open Valida ValidaGen

/-- the same part: kind, label, and the three conditions up to operand / keyword order -/
structure PartSameC (p q : Part) : Prop where
  kind : p.kind = q.kind
  label : p.label = q.label
  cond : CondSame p.cond q.cond
  listCond : CondSame p.listCond q.listCond
  mapCond : CondSame p.mapCond q.mapCond

/-- the same path: parts pairwise the same, the same concreteness, modifiers and bound document -/
structure PathSameC (p q : Path) : Prop where
  len : p.parts.length = q.parts.length
  parts : ∀ x ∈ p.parts.zip q.parts, PartSameC x.1 x.2
  concrete : p.concrete = q.concrete
  datum : p.datum = q.datum
  multi : p.multi = q.multi
  source : p.source = q.source

/-- a part that is the same filters every node in the same way (same selected items, same errors) -/
theorem C14_part_same_filter (p q : Part) (h : PartSameC p q) (node : PyVal) :
    (Part.filter p node).map (fun r => (r.1.result, r.2)) = (Part.filter q node).map (fun r => (r.1.result, r.2)) :=
  C14P.part_filter_same p q h.kind h.cond h.listCond h.mapCond node

/-- … hence the same step of the walk -/
theorem C14_part_same_step (p q : Part) (h : PartSameC p q) (node : PyVal) :
    stepNode p node = stepNode q node :=
  C14P.stepNode_same p q node (C14_part_same_filter p q h node)

/-- **paths that are the same select the same nodes with the same concrete paths** (every entry
    point, with and without paths, modifiers included) -/
theorem C14_path_same_selection (p q : Path) (h : PathSameC p q) (data : Option PyVal) (rp : Bool) :
    p.getData data rp = q.getData data rp := by
  obtain ⟨hl, hparts, hc, hd, hm, hs⟩ := h
  obtain ⟨ps, c, dm, mm, src⟩ := p
  obtain ⟨qs, c', dm', mm', src'⟩ := q
  simp only at hl hparts hc hd hm hs
  subst hc hd hm hs
  exact C14P.getData_same ps qs hl (fun x hx node => C14_part_same_step x.1 x.2 (hparts x hx) node) _ _ _ _ data rp

/-- … and compare equal (given that `==` is reflexive on their stored literals, as for hashable
    arguments) -/
theorem C14_path_same_is_equal (p q : Path) (h : PathSameC p q)
    (hrefl : ∀ x ∈ p.parts, ∀ a ∈ condArgs x.cond ++ condArgs x.listCond ++ condArgs x.mapCond, PyVal.pyEq a a = true)
    (hlabel : ∀ x ∈ p.parts, ∀ l, x.label = some l → PyVal.pyEq l l = true)
    (hsrc : ∀ s, p.source = some s → PyVal.pyEq s s = true) :
    pathEq p q = true := by
  have h1 : listEq partEq p.parts q.parts = true :=
    C14P.listEq_of_zip partEq _ _ h.len (fun x hx =>
      have hs := h.parts x hx
      have hmem : x.1 ∈ p.parts := (List.of_mem_zip hx).1
      C14P.partEq_same x.1 x.2 hs.kind hs.label hs.cond hs.listCond hs.mapCond (hrefl _ hmem) (hlabel _ hmem))
  have h2 : optValEq p.source q.source = true := by rw [← h.source]; exact C14P.optValEq_self _ hsrc
  simp only [pathEq, h1, h2, h.concrete, h.datum, h.multi, beq_self_eq_true, Bool.and_self]

/-- **rules that are the same give the same rule test** on every document: tested, verdict, the failing
    nodes with their indices, values and paths – and the same exception when the test raises.  (The reason
    kinds of a failing node are the same up to ORDER only – crossed operands list them in the other order –
    and are therefore not compared.)  Proved for every document and every path, bound or not: the selection
    handed to the condition always consists of `(value, path)` pairs (`C14P.selection_pairs`). -/
theorem C14_rule_same_verdict (r s : RuleM) (hp : PathSameC r.path s.path) (hc : CondSame r.cond s.cond)
    (hlit : ∀ l ∈ r.cond.leaves, (∀ a ∈ l.args, ∃ v, a = Arg.lit v) ∧ (∀ kv ∈ l.kwargs, ∃ v, kv.2 = Arg.lit v))
    (doc : PyVal) :
    (ruleTestOn r doc).map (fun t => (t.tested, t.isValid, t.failures.map (fun f => (f.index, f.value, f.path)))) =
    (ruleTestOn s doc).map (fun t => (t.tested, t.isValid, t.failures.map (fun f => (f.index, f.value, f.path)))) := by
  have hsel : selection r.path doc = selection s.path doc := by
    unfold selection
    rw [C14_path_same_selection r.path s.path hp, hp.datum, hp.multi, hp.concrete]
  exact C14P.ruleTest_same C14_filter_unpacks_values_only r s doc hsel hc hlit

/-- the rule test is also related the other way round: related rules are tested on the same documents -/
theorem C14_rule_same_tested (r s : RuleM) (hp : PathSameC r.path s.path) (hc : CondSame r.cond s.cond)
    (hlit : ∀ l ∈ r.cond.leaves, (∀ a ∈ l.args, ∃ v, a = Arg.lit v) ∧ (∀ kv ∈ l.kwargs, ∃ v, kv.2 = Arg.lit v))
    (doc : PyVal) (t : RuleTestR) (h : ruleTestOn r doc = .ok t) :
    ∃ t', ruleTestOn s doc = .ok t' ∧ t'.tested = t.tested ∧ t'.isValid = t.isValid ∧
      t'.failures.map (fun f => (f.index, f.value, f.path)) = t.failures.map (fun f => (f.index, f.value, f.path)) := by
  have hv := C14_rule_same_verdict r s hp hc hlit doc
  rw [h] at hv
  cases hs : ruleTestOn s doc with
  | error e => rw [hs] at hv; simp [Except.map] at hv
  | ok t' =>
    rw [hs] at hv
    simp only [Except.map, Except.ok.injEq, Prod.mk.injEq] at hv
    exact ⟨t', rfl, hv.1.symm, hv.2.1.symm, hv.2.2.symm⟩

/-! ### non-vacuity:
    `DataPath("xs", ListValue(value=Value.in_range(lower=1, upper=9) & Value.greater_than(2)))` and
    `DataPath("xs", ListValue(value=Value.greater_than(2) & Value.in_range(upper=9, lower=1)))` -/

private def keyXs : Part :=
  { kind := .map, cond := eqLeaf .key (.str "xs"), listCond := Cond.null, mapCond := Cond.null, label := none }

private def inRange19 : Cond PyVal :=
  .leaf { cls := .value, fn := "in_range", args := [], kwargs := [("lower", .int 1), ("upper", .int 9)] }
private def inRange91 : Cond PyVal :=
  .leaf { cls := .value, fn := "in_range", args := [], kwargs := [("upper", .int 9), ("lower", .int 1)] }
private def gt2 : Cond PyVal :=
  .leaf { cls := .value, fn := "greater_than", args := [.int 2], kwargs := [] }

private def listPart (c : Cond PyVal) : Part :=
  { kind := .list, cond := c, listCond := Cond.null, mapCond := Cond.null, label := none }

def exPathC : Path :=
  { parts := [keyXs, listPart (.bin .and inRange19 gt2)], concrete := false, datum := .none, multi := .none, source := none }
def exPathD : Path :=
  { parts := [keyXs, listPart (.bin .and gt2 inRange91)], concrete := false, datum := .none, multi := .none, source := none }

private theorem null_same : CondSame (Cond.null : Cond PyVal) Cond.null :=
  .leaf _ _ _ _ _ (.refl _) (by simp)

private theorem part_refl (p : Part) (h : KwNodup p.cond ∧ KwNodup p.listCond ∧ KwNodup p.mapCond) : PartSameC p p :=
  ⟨rfl, rfl, CondSame.refl' _ h.1, CondSame.refl' _ h.2.1, CondSame.refl' _ h.2.2⟩

/-- the two paths are the same up to operand and keyword order -/
theorem exPath_same : PathSameC exPathC exPathD := by
  refine ⟨rfl, ?_, rfl, rfl, rfl, rfl⟩
  intro x hx
  simp only [exPathC, exPathD, List.zip_cons_cons, List.zip_nil_right, List.mem_cons, List.not_mem_nil,
    or_false] at hx
  rcases hx with rfl | rfl
  · exact part_refl keyXs (by simp [keyXs, eqLeaf, Cond.null, KwNodup, Cond.leaves])
  · refine ⟨rfl, rfl, ?_, null_same, null_same⟩
    exact .crossed _ _ _ _ _ (.leaf _ _ _ _ _ (.swap _ _ _) (by simp)) (.leaf _ _ _ _ _ (.refl _) (by simp))

/-- hence they select the same nodes on every document … -/
example (doc : PyVal) : exPathC.getData (some doc) true = exPathD.getData (some doc) true :=
  C14_path_same_selection _ _ exPath_same _ _

/-- … e.g. on `{"xs": [1, 3, 5, 10]}` both select `3` at `("xs", 1)` and `5` at `("xs", 2)` (evaluated by
    the kernel) -/
example :
    let doc : PyVal := .dict [(.str "xs", .list [.int 1, .int 3, .int 5, .int 10])]
    let expected : PyVal := .list [.tuple [.int 3, .tuple [.str "xs", .int 1]], .tuple [.int 5, .tuple [.str "xs", .int 2]]]
    valueIs (exPathC.getData (some doc) true) expected = true ∧
    valueIs (exPathD.getData (some doc) true) expected = true := by
  constructor <;> decide +kernel

/-- … and they compare equal -/
example : pathEq exPathC exPathD = true := by
  refine C14_path_same_is_equal _ _ exPath_same ?_ ?_ ?_
  · intro x hx a ha
    simp only [exPathC, List.mem_cons, List.not_mem_nil, or_false] at hx
    rcases hx with rfl | rfl <;>
      simp [keyXs, listPart, eqLeaf, Cond.null, inRange19, gt2, condArgs] at ha
    · subst ha; exact pyEq_refl _ rfl
    · rcases ha with rfl | rfl | rfl <;> exact pyEq_refl _ rfl
  · intro x hx l hl
    simp only [exPathC, List.mem_cons, List.not_mem_nil, or_false] at hx
    rcases hx with rfl | rfl <;> simp [keyXs, listPart] at hl
  · intro s hs; simp [exPathC] at hs

/-- rules on these paths with related conditions give the same rule test, e.g. on `{"xs": [1, 3, 5, 10]}`:
    tested, invalid, the node `5` at `("xs", 2)` failing (evaluated by the kernel for both) -/
example :
    let c : Cond Arg := .leaf { cls := .value, fn := "in_range", args := [], kwargs := [("lower", .lit (.int 0)), ("upper", .lit (.int 4))] }
    let c' : Cond Arg := .leaf { cls := .value, fn := "in_range", args := [], kwargs := [("upper", .lit (.int 4)), ("lower", .lit (.int 0))] }
    let doc : PyVal := .dict [(.str "xs", .list [.int 1, .int 3, .int 5, .int 10])]
    let shape (t : Except Exc RuleTestR) : Option (Bool × Bool × List Nat) :=
      match t with | .ok t => some (t.tested, t.isValid, t.failures.map (·.index)) | .error _ => none
    shape (ruleTestOn { path := exPathC, cond := c, cast := [] } doc) = some (true, false, [1]) ∧
    shape (ruleTestOn { path := exPathD, cond := c', cast := [] } doc) = some (true, false, [1]) := by
  constructor <;> decide +kernel

end ValidaProofs
