/-
  C10 – path, part, rule and YAML specs build the same objects as the Python API.

  `parsePart` / `parsePathSpec` / `fromPartSpecs` / `fromStr` / `parseRule` transcribe the spec
  parsers; `Part.mkMap` / `mkList` / `mkMolv` / `Path.mk'` / `withDatum` / `withMulti` are the API.
  YAML loading (ruamel) is a parameter: the harness hands the loaded structure to the same parser.
-/
import Valida.Spec.Parse
import Valida.Eq
import ValidaProofs.Lemmas.Basic
import ValidaProofs.Lemmas.C10Parse
import ValidaProofs.Lemmas.C10Path
namespace ValidaProofs
open Valida ValidaGen

/-- the part-type table of the source -/
theorem C10_cls_lookup :
    clsLookup = [("map_value", "MapValue"), ("list_value", "ListValue"), ("map_or_list_value", "MapOrListValue")] := by
  rfl

/-- bare parts: `{type: map_value}` is `MapValue()`, `{type: list_value}` is `ListValue()`, `{}` and
    `{type: map_or_list_value}` are `MapOrListValue()`; a label is kept -/
theorem C10_bare_parts (fuel : Nat) (l : PyVal) (hl : l ≠ .none) :
    parsePart (fuel + 1) [(.str "type", .str "map_value")] = Part.mkMap .none .none (some Cond.null) none ∧
    parsePart (fuel + 1) [(.str "type", .str "list_value")] = Part.mkList .none .none (some Cond.null) none ∧
    parsePart (fuel + 1) [] = Part.mkMolv .none .none .none (some Cond.null) (some Cond.null) (some Cond.null) none ∧
    parsePart (fuel + 1) [(.str "type", .str "map_or_list_value")] = parsePart (fuel + 1) [] ∧
    parsePart (fuel + 1) [(.str "label", l), (.str "type", .str "map_value")] = Part.mkMap .none .none (some Cond.null) (some l) := by
  refine ⟨?_, ?_, ?_, ?_, ?_⟩
  · rw [parsePart.eq_2]; rfl
  · rw [parsePart.eq_2]; rfl
  · rw [parsePart.eq_2]; rfl
  · rw [parsePart.eq_2]; rfl
  · rw [parsePart.eq_2]; cases l <;> first | exact absurd rfl hl | rfl

/-- the long form `key: <condition spec>` and the dotted shorthand `key.<callable>: args` build the same
    part, and so do `value` / `index` – whatever the condition spec parses to -/
theorem C10_long_is_short (fuel : Nat) (k : String) (v : PyVal) (c : Cond Arg)
    (hk : "key.".toList.isPrefixOf k.toList = true)
    (hc : parseCond (fuel + 1) (.dict [(.str k, v)]) = .ok c) (hlike : (litCond c).isLike "key" = true) :
    parsePart (fuel + 2) [(.str "type", .str "map_value"), (.str "key", .dict [(.str k, v)])] =
    parsePart (fuel + 2) [(.str "type", .str "map_value"), (.str k, v)] :=
  C10L.long_is_short fuel k v c hk hc hlike

/-- `key: {key.equal_to: s}` is `MapValue(key=s)` (equal as parts), `index.eq: n` is `ListValue(index=n)` -/
theorem C10_key_equal_is_api (fuel : Nat) (s : String) (n : Int) :
    (∃ p q, parsePart (fuel + 4) [(.str "type", .str "map_value"), (.str "key.equal_to", .str s)] = .ok p ∧
            Part.mkMap (.val (.str s)) .none none none = .ok q ∧ partEq p q = true) ∧
    (∃ p q, parsePart (fuel + 4) [(.str "type", .str "list_value"), (.str "index.eq", .int n)] = .ok p ∧
            Part.mkList (.val (.int n)) .none none none = .ok q ∧ partEq p q = true) :=
  C10L.key_equal_is_api fuel s n

/-- primitive part specs are the primitives of the API: `from_part_specs(*prims) = DataPath(*prims)` -/
theorem C10_prim_specs (fuel : Nat) (prims : List PyVal) (h : ∀ v ∈ prims, ∀ kvs, v ≠ .dict kvs) :
    fromPartSpecs (fuel + 1) prims = Path.mk' (prims.map PartArg.prim) :=
  C10L.prim_specs fuel prims h

/-- a part given as a mapping makes the path non-concrete, like a part object in the API -/
theorem C10_mapping_part_non_concrete (fuel : Nat) (pre post : List PyVal) (kvs : List (PyVal × PyVal)) (p : Path)
    (h : fromPartSpecs (fuel + 1) (pre ++ [.dict kvs] ++ post) = .ok p) : p.concrete = false :=
  C10L.mapping_part_non_concrete fuel pre post kvs p h

/-- path specs: the suffix tokens are the modifier methods, in either order, with the aliases
    type/len -/
theorem C10_suffixes (fuel : Nat) (parts : PyVal) (p : Path) (items : List PyVal)
    (hi : Py.iter parts = .ok items) (hp : fromPartSpecs (fuel + 1) items = .ok p) :
    parsePathSpec (fuel + 2) (.dict [(.str "path", parts)]) = .ok (.path p) ∧
    parsePathSpec (fuel + 2) (.dict [(.str "PATH.Length", parts)]) = (p.withDatum .length).map Sniffed.path ∧
    parsePathSpec (fuel + 2) (.dict [(.str "path.len", parts)]) = (p.withDatum .length).map Sniffed.path ∧
    parsePathSpec (fuel + 2) (.dict [(.str "path.type", parts)]) = (p.withDatum .dtype).map Sniffed.path ∧
    parsePathSpec (fuel + 2) (.dict [(.str "path.first", parts)]) = (p.withMulti .first).map Sniffed.path ∧
    parsePathSpec (fuel + 2) (.dict [(.str "path.map_keys.single", parts)]) =
      ((p.withDatum .mapKeys).bind (fun q => q.withMulti .single)).map Sniffed.path ∧
    parsePathSpec (fuel + 2) (.dict [(.str "path.single.map_keys", parts)]) =
      ((p.withMulti .single).bind (fun q => q.withDatum .mapKeys)).map Sniffed.path :=
  C10L.suffixes fuel parts p items hi hp

/-- path strings: tokens that are not numbers are plain keys -/
theorem C10_from_str_plain (toks : List String) (delim : Char)
    (h : ∀ t ∈ toks, fromStrToken t = .ok (.prim (.str t)))
    (hs : (splitOnChar delim [] (String.intercalate (String.singleton delim) toks).toList).map String.ofList = toks)
    (hne : toks ≠ []) (hne' : String.intercalate (String.singleton delim) toks ≠ "") :
    fromStr (String.intercalate (String.singleton delim) toks) delim = Path.mk' (toks.map (fun t => PartArg.prim (.str t))) :=
  C10L.from_str_plain toks delim h hs hne'

/-- an integer token matches the string key, the integer key and the list index -/
theorem C10_from_str_int_token :
    ∃ part, fromStrToken "12" = .ok (.part part) ∧ part.kind = .molv ∧
      condEqLit part.listCond (eqLeaf .index (.int 12)) = true ∧
      condEqLit part.mapCond (.leaf { cls := .key, fn := "in_", args := [], kwargs := [("value", .tuple [.str "12", .int 12])] }) = true := by
  refine ⟨_, rfl, rfl, ?_, ?_⟩ <;> decide +kernel

/-- rule specs: the fields -/
theorem C10_rule_fields (fuel : Nat) (pathSpec condSpec : PyVal) (items : List PyVal) (p : Path) (c : Cond Arg)
    (hi : Py.iter pathSpec = .ok items) (hp : fromPartSpecs fuel items = .ok p) (hc : parseCond fuel condSpec = .ok c) :
    (∃ r, parseRule fuel (.dict [(.str "path", pathSpec), (.str "condition", condSpec)]) = .ok r ∧
        r.rule.path = p ∧ r.rule.cond = c ∧ r.rule.cast = [] ∧ r.doc = none) ∧
    (∃ r, parseRule fuel (.dict [(.str "condition", condSpec), (.str "cast", .dict [(.str "str", .str "int")]), (.str "path", pathSpec)]) = .ok r ∧
        r.rule.path = p ∧ r.rule.cond = c ∧ r.rule.cast = [(PyType.str, "int")]) ∧
    (∃ r, parseRule fuel (.dict [(.str "path", pathSpec), (.str "condition", condSpec), (.str "cast", .dict [(.str "str", .str "bool")])]) = .ok r ∧
        r.rule.cast = [(PyType.str, "cast_string_to_bool")]) :=
  C10L.rule_fields fuel pathSpec condSpec items p c hi hp hc

/-- `doc` in every accepted shape is normalised to `{description: [...], examples: [...]}` with the
    entries stripped -/
theorem C10_doc_shapes :
    normDoc none = .ok none ∧
    normDoc (some (.str " text \n")) = .ok (some (.dict [(.str "description", .list [.str "text"]), (.str "examples", .list [])])) ∧
    normDoc (some (.list [.str "a ", .str " b"])) = .ok (some (.dict [(.str "description", .list [.str "a", .str "b"]), (.str "examples", .list [])])) ∧
    normDoc (some (.dict [(.str "description", .str " d ")])) = .ok (some (.dict [(.str "description", .list [.str "d"]), (.str "examples", .list [])])) ∧
    normDoc (some (.dict [(.str "examples", .list [.str "e "])])) = .ok (some (.dict [(.str "examples", .list [.str "e"]), (.str "description", .list [])])) := by
  refine ⟨rfl, ?_, ?_, ?_, ?_⟩ <;> rfl

end ValidaProofs
