/-
  C13 – rules and schemas survive the JSON round trip, casts included.
-/
import Valida.Spec.Ser
import ValidaProofs.Lemmas.Basic
namespace ValidaProofs
open Valida ValidaGen

/-- the cast tables can be inverted: every cast function of the source is written back as the pair of
    type names that `Rule.from_spec` maps to it -/
theorem C13_cast_tables_invert :
    castLookup.all (fun e =>
      (castDtypeLookup.any (fun p => p.2 == e.1.1)) && (castDtypeLookup.any (fun p => p.2 == e.1.2))) = true ∧
    (castDtypeLookup.map (·.2)).Nodup ∧ (castLookup.map (·.1)).Nodup := by
  sorry

/-- shape of a serialised rule: `condition`, `cast` (None or a mapping of type names), `path` -/
theorem C13_rule_json_shape (r : RuleM) (js : PyVal) (h : ruleToJson r = .ok js) :
    ∃ c cast ps, js = .dict [(.str "condition", c), (.str "cast", cast), (.str "path", .list ps)] ∧
      condToJson r.cond = .ok c ∧ toPartSpecs r.path = .ok ps ∧ (r.cast = [] ↔ cast = .none) := by
  sorry

/-- casts round-trip: what is written for `{str: int}` / `{str: cast_string_to_bool}` is read back as
    the same cast -/
theorem C13_casts_roundtrip :
    (∀ r : RuleM, r.cast = [(PyType.str, "int")] → ∀ js, ruleToJson r = .ok js →
      ∃ cast, Py.dictGet (.str "cast") (match js with | .dict kvs => kvs | _ => []) = some cast ∧
        parseCasts (some cast) = .ok r.cast) ∧
    (∀ r : RuleM, r.cast = [(PyType.str, "cast_string_to_bool")] → ∀ js, ruleToJson r = .ok js →
      ∃ cast, Py.dictGet (.str "cast") (match js with | .dict kvs => kvs | _ => []) = some cast ∧
        parseCasts (some cast) = .ok r.cast) := by
  sorry

/-- a rule whose condition and path round-trip, round-trips: the parsed rule has the re-parsed
    condition, the rebuilt path and the same casts -/
theorem C13_rule_roundtrip (fuel : Nat) (r : RuleM) (c ps : PyVal) (items : List PyVal) (c' : Cond Arg) (p' : Path)
    (hcast : r.cast = [] ∨ r.cast = [(PyType.str, "int")] ∨ r.cast = [(PyType.str, "cast_string_to_bool")])
    (hc : condToJson r.cond = .ok c) (hp : toPartSpecs r.path = .ok items) (hps : ps = .list items)
    (hc' : parseCond fuel c = .ok c') (hp' : fromPartSpecs fuel items = .ok p') :
    ∃ js pr, ruleToJson r = .ok js ∧ parseRule fuel js = .ok pr ∧
      pr.rule.cond = c' ∧ pr.rule.path = p' ∧ pr.rule.cast = r.cast := by
  sorry

/-- `Schema.__init__` re-sorts the rebuilt rules; sorting an already sorted list changes nothing -/
theorem C13_sort_idempotent (rs : List RuleM) : Schema.mk' (Schema.mk' rs) = Schema.mk' rs := by
  sorry

/-- a schema is serialised rule by rule, in applied order -/
theorem C13_schema_json (rs : List RuleM) : schemaToJson rs = (rs.mapM ruleToJson).map PyVal.list := by
  sorry

end ValidaProofs
