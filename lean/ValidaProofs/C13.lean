/-
  C13 – rules and schemas survive the JSON round trip, casts included.
-/
import Valida.Spec.Ser
import ValidaProofs.Lemmas.Basic
import ValidaProofs.Lemmas.C06Schema
import ValidaProofs.Lemmas.C13Ser
namespace ValidaProofs
open Valida ValidaGen

/-- the cast tables can be inverted: every cast function of the source is written back as the pair of
    type names that `Rule.from_spec` maps to it -/
theorem C13_cast_tables_invert :
    castLookup.all (fun e =>
      (castDtypeLookup.any (fun p => p.2 == e.1.1)) && (castDtypeLookup.any (fun p => p.2 == e.1.2))) = true ∧
    (castDtypeLookup.map (·.2)).Nodup ∧ (castLookup.map (·.1)).Nodup := by
  decide

/-- shape of a serialised rule: `condition`, `cast` (None or a mapping of type names), `path` -/
theorem C13_rule_json_shape (r : RuleM) (js : PyVal) (h : ruleToJson r = .ok js) :
    ∃ c cast ps, js = .dict [(.str "condition", c), (.str "cast", cast), (.str "path", .list ps)] ∧
      condToJson r.cond = .ok c ∧ toPartSpecs r.path = .ok ps ∧ (r.cast = [] ↔ cast = .none) := by
  obtain ⟨c, cast, ps, rfl, hcast, hc, hp⟩ := C13L.ruleToJson_ok r js h
  exact ⟨c, cast, ps, rfl, hc, hp, C13L.castJson_none_iff r.cast cast hcast⟩

/-- casts round-trip: what is written for `{str: int}` / `{str: cast_string_to_bool}` is read back as
    the same cast -/
theorem C13_casts_roundtrip :
    (∀ r : RuleM, r.cast = [(PyType.str, "int")] → ∀ js, ruleToJson r = .ok js →
      ∃ cast, Py.dictGet (.str "cast") (match js with | .dict kvs => kvs | _ => []) = some cast ∧
        parseCasts (some cast) = .ok r.cast) ∧
    (∀ r : RuleM, r.cast = [(PyType.str, "cast_string_to_bool")] → ∀ js, ruleToJson r = .ok js →
      ∃ cast, Py.dictGet (.str "cast") (match js with | .dict kvs => kvs | _ => []) = some cast ∧
        parseCasts (some cast) = .ok r.cast) := by
  constructor <;> intro r hr js h <;>
    obtain ⟨c, cast, ps, rfl, hcast, _, _⟩ := C13L.ruleToJson_ok r js h <;>
    rw [hr] at hcast ⊢
  · rw [C13L.castJson_str_int] at hcast; cases hcast
    exact ⟨_, (C13L.dictGet_json c _ _).2.2.1, C13L.parseCasts_str_int⟩
  · rw [C13L.castJson_str_bool] at hcast; cases hcast
    exact ⟨_, (C13L.dictGet_json c _ _).2.2.1, C13L.parseCasts_str_bool⟩

/-- a rule whose condition and path round-trip, round-trips: the parsed rule has the re-parsed
    condition, the rebuilt path and the same casts -/
theorem C13_rule_roundtrip (fuel : Nat) (r : RuleM) (c ps : PyVal) (items : List PyVal) (c' : Cond Arg) (p' : Path)
    (hcast : r.cast = [] ∨ r.cast = [(PyType.str, "int")] ∨ r.cast = [(PyType.str, "cast_string_to_bool")])
    (hc : condToJson r.cond = .ok c) (hp : toPartSpecs r.path = .ok items) (hps : ps = .list items)
    (hc' : parseCond fuel c = .ok c') (hp' : fromPartSpecs fuel items = .ok p') :
    ∃ js pr, ruleToJson r = .ok js ∧ parseRule fuel js = .ok pr ∧
      pr.rule.cond = c' ∧ pr.rule.path = p' ∧ pr.rule.cast = r.cast := by
  have key : ∀ cast, C13L.castJson r.cast = .ok cast → parseCasts (some cast) = .ok r.cast →
      ∃ js pr, ruleToJson r = .ok js ∧ parseRule fuel js = .ok pr ∧
        pr.rule.cond = c' ∧ pr.rule.path = p' ∧ pr.rule.cast = r.cast := by
    intro cast h1 h2
    exact ⟨_, _, C13L.ruleToJson_of r c cast items h1 hc hp,
      C13L.parseRule_json fuel c cast items c' p' r.cast hc' hp' h2, rfl, rfl, rfl⟩
  rcases hcast with h | h | h
  · exact key .none (by rw [h]; exact C13L.castJson_nil) (by rw [h]; exact C13L.parseCasts_none)
  · exact key _ (by rw [h]; exact C13L.castJson_str_int) (by rw [h]; exact C13L.parseCasts_str_int)
  · exact key _ (by rw [h]; exact C13L.castJson_str_bool) (by rw [h]; exact C13L.parseCasts_str_bool)

/-- `Schema.__init__` re-sorts the rebuilt rules; sorting an already sorted list changes nothing -/
theorem C13_sort_idempotent (rs : List RuleM) : Schema.mk' (Schema.mk' rs) = Schema.mk' rs := by
  unfold Schema.mk'
  exact List.mergeSort_of_pairwise (List.pairwise_mergeSort C06L.ruleLe_trans C06L.ruleLe_total rs)

/-- a schema is serialised rule by rule, in applied order -/
theorem C13_schema_json (rs : List RuleM) : schemaToJson rs = (rs.mapM ruleToJson).map PyVal.list := by
  unfold schemaToJson
  cases rs.mapM ruleToJson <;> rfl

end ValidaProofs
