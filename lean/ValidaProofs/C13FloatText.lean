/-
  C13 (float arguments) – "serialised … pushed through real JSON text and rebuilt, is equal to the
  original": for a float argument the JSON text is `repr(x)`, and reading it back must give the same
  double.  Here, on the model of `repr(float)` (`Valida.Repr`: shortest digit string that reads back)
  and of `float(str)` (`Valida.Spec.Parse.pyFloatOfStr`):

  * `C13_float_round_is_rational`      – `nearestDoubleQ` depends only on the rational `num/den`;
  * `C13_float_digits_read_back`       – the digits `shortestAt` returns read back as `k`
                                         (carry `99…9 → 10…0` included);
  * `C13_float_shortest_read_back`     – the same for the search `shortestFrom`, with the digit-count
                                         bounds and "no shorter digit count was accepted";
  * `C13_float_repr_digits_read_back`  – the digits behind `reprPosFloat`, both notations;
  * `C13_float_fixed_notation_iff`     – the text has no `e` exactly when the decimal point position of
                                         the digits is in `(-4, 16]`;
  * `C13_float_rounders_agree`         – `Parse.nearestDouble` and `Repr.nearestDoubleQ` are the same
                                         rounding function;
  * `C13_float_fixed_text_round_trip`, `C13_float_text_round_trip` – on the TEXT: whenever `repr`
    answers in fixed notation (no `e` in the text), `float(repr(x)) = x`; all three layouts
    (`0.00ddd`, `ddd00.0`, `dd.ddd`), sign and `0.0` included;
  * `C13_float_examples`               – non-vacuity (`0.1`, `1e+16`, `1e-05`, `2251799813685247.8`,
                                         the carry case `1e+23`, `-2.5`, and `float("0.1")`).

  Not covered: the exponent notation on the text level – `pyFloatOfStr` models plain decimal text only
  (anything with an exponent is `unmodelled` there), so for `1e+16`, `1e-05` the statement stops at the
  digits (`C13_float_repr_digits_read_back`: mantissa `m`, decimal point `e`, `m · 10^(e-n)` rounds to
  `k`); the layout `d.ddde±XX` of those digits is not tied to a reader.
-/
import Valida.Repr
import Valida.Spec.Parse
import ValidaProofs.Lemmas.C13FloatText
namespace ValidaProofs
open Valida Valida.Repr

/-- `nearestDoubleQ` is a function of the rational number: a common factor cancels, and two
    fractions that are equal (cross-multiplied) round to the same double -/
theorem C13_float_round_is_rational :
    (∀ a b c : Nat, 0 < c → nearestDoubleQ (a * c) (b * c) = nearestDoubleQ a b) ∧
    (∀ a b a' b' : Nat, 0 < b → 0 < b' → a * b' = a' * b → nearestDoubleQ a b = nearestDoubleQ a' b') :=
  ⟨C13F.ndq_scale, C13F.ndq_of_cross⟩

/-- the digits `shortestAt` returns read back: the decimal `m · 10^(e' - n)` rounds to `k`.  Also:
    `m` has exactly `n` digits and `e'` is `e`, or `e + 1` after the carry `99…9 → 10…0`.
    -- STATEMENT CHANGED: `1 ≤ n` is required.  With `n = 0` the carry step turns the candidate
    -- `10^0 = 1` at exponent `e` into `10^(0-1) = 1` at exponent `e + 1`, a different number:
    -- `shortestAt (nearestDoubleQ 1 10) (-1) 0 = some (1, 0)`, yet `candFrac 1 (0 - 0) = (1, 1)` rounds
    -- to `2^1074`, not to the double of `0.1` (checked with `#eval`; `C13_float_digits_n0_counterexample`).
    -- `shortestFrom` is only ever started at `n = 1` (`reprPosFloat`). -/
theorem C13_float_digits_read_back (k : Nat) (e : Int) (n : Nat) (hn : 1 ≤ n) (m : Nat) (e' : Int)
    (h : shortestAt k e n = some (m, e')) :
    nearestDoubleQ (candFrac m (Int.ofNat n - e')).1 (candFrac m (Int.ofNat n - e')).2 = k ∧
      10 ^ (n - 1) ≤ m ∧ m < 10 ^ n ∧ (e' = e ∨ e' = e + 1) :=
  C13F.shortestAt_spec k e n hn m e' h

/-- the counterexample behind the `1 ≤ n` above -/
theorem C13_float_digits_n0_counterexample :
    (shortestAt (nearestDoubleQ 1 10) (-1) 0 == some (1, 0)) = true ∧
    (nearestDoubleQ (candFrac 1 (Int.ofNat 0 - 0)).1 (candFrac 1 (Int.ofNat 0 - 0)).2
      == nearestDoubleQ 1 10) = false := by
  constructor <;> decide +kernel

/-- the search for the shortest text: what `shortestFrom` (started at `n0 ≥ 1` digits) returns is a
    result of `shortestAt` for `n` digits, reads back as `k`, has exactly `n` digits, and no digit
    count from `n0` up to `n - 1` was accepted -/
theorem C13_float_shortest_read_back (k : Nat) (e : Int) (fuel n0 : Nat) (hn0 : 1 ≤ n0)
    (m : Nat) (e' : Int) (n : Nat) (h : shortestFrom k e fuel n0 = some (m, e', n)) :
    nearestDoubleQ (candFrac m (Int.ofNat n - e')).1 (candFrac m (Int.ofNat n - e')).2 = k ∧
      10 ^ (n - 1) ≤ m ∧ m < 10 ^ n ∧ (e' = e ∨ e' = e + 1) ∧
      n0 ≤ n ∧ n < n0 + fuel ∧ ∀ n', n0 ≤ n' → n' < n → shortestAt k e n' = none := by
  obtain ⟨hat, h1, h2, h3⟩ := C13F.shortestFrom_spec k e fuel n0 hn0 m e' n h
  obtain ⟨a, b, c, d⟩ := C13F.shortestAt_spec k e n (by omega) m e' hat
  exact ⟨a, b, c, d, h1, h2, h3⟩

/-- the digits behind `repr(x)` (both notations): `reprPosFloat k` answers exactly when the search
    finds digits, and those digits – at most 17, mantissa `m`, decimal point `e` – read back as `k` -/
theorem C13_float_repr_digits_read_back (k : Nat) (s : String) (h : reprPosFloat k = .ok s) :
    ∃ m e n, shortestFrom k (decpt k) 17 1 = some (m, e, n) ∧ 1 ≤ n ∧ n ≤ 17 ∧
      10 ^ (n - 1) ≤ m ∧ m < 10 ^ n ∧
      nearestDoubleQ (candFrac m (Int.ofNat n - e)).1 (candFrac m (Int.ofNat n - e)).2 = k := by
  unfold reprPosFloat at h
  split at h
  · cases h
  · rename_i m e n hsf
    obtain ⟨a, b, c, _, h1, h2, _⟩ :=
      C13_float_shortest_read_back k (decpt k) 17 1 (Nat.le_refl 1) m e n hsf
    exact ⟨m, e, n, hsf, h1, by omega, b, c, a⟩

/-- which notation: the text of `repr(x)` has no `e` exactly when the decimal point position `e` of
    the digits found lies in `(-4, 16]` (CPython's rule for `repr`) – so the hypothesis "fixed
    notation" of the round-trip theorems below is this range of magnitudes -/
theorem C13_float_fixed_notation_iff (k : Nat) (s : String) (h : reprPosFloat k = .ok s)
    (m : Nat) (e : Int) (n : Nat) (hsf : shortestFrom k (decpt k) 17 1 = some (m, e, n)) :
    'e' ∉ s.toList ↔ (-4 < e ∧ e ≤ 16) := by
  obtain ⟨m', e', n', hsf', hcase⟩ := C13F.reprPosFloat_shape k s h
  rw [hsf] at hsf'
  cases hsf'
  rcases hcase with ⟨h1, h2, h3⟩ | ⟨h1, h2⟩
  · exact ⟨fun _ => ⟨h1, h2⟩, fun _ => h3.no_e⟩
  · exact ⟨fun hc => absurd h2 hc, fun hc => absurd hc h1⟩

/-- the two rounding functions, written separately for the reader (`Parse.lean`) and for `repr`
    (`Repr.lean`), are the same function -/
theorem C13_float_rounders_agree (n j : Nat) :
    nearestDouble n j = Int.ofNat (nearestDoubleQ n (10 ^ j)) := rfl

/-- positive doubles, on the text: if `repr(x)` is in fixed notation (no `e` in it), then
    `float(repr(x))` is `x` -/
theorem C13_float_fixed_text_round_trip (k : Nat) (hk : (k : Int) < 2 ^ 2098) (s : String)
    (h : reprPosFloat k = .ok s) (hfix : 'e' ∉ s.toList) :
    pyFloatOfStr s = .ok (.float (Int.ofNat k)) := by
  obtain ⟨ip, fr, rfl, hip, hfr, hne, hv⟩ := C13F.reprPosFloat_fixed k s h hfix
  have hv' : nearestDouble (Nat.ofDigitChars 10 (ip ++ fr) 0) fr.length = Int.ofNat k := by
    rw [C13F.nearestDouble_eq_ndq, hv]
  have := C13F.pyFloatOfStr_pos ip fr hip hfr hne (by rw [hv']; exact hk)
  rw [hv'] at this
  exact this

/-- any finite double (zero, positive, negative), on the text: if `repr(x)` is in fixed notation,
    then `float(repr(x))` is `x` -/
theorem C13_float_text_round_trip (k : Int) (hk : k.natAbs < 2 ^ 2098) (s : String)
    (h : reprFloat k = .ok s) (hfix : 'e' ∉ s.toList) :
    pyFloatOfStr s = .ok (.float k) := by
  unfold reprFloat at h
  split at h
  · rename_i h0
    have : k = 0 := by simpa using h0
    subst this
    cases h
    have := C13F.pyFloatOfStr_pos ['0'] ['0'] (by decide) (by decide) (by simp) (by decide +kernel)
    have hz : nearestDouble (Nat.ofDigitChars 10 (['0'] ++ ['0']) 0) ['0'].length = 0 := by
      decide +kernel
    rw [hz] at this
    exact this
  · split at h
    · rename_i _ hpos
      have hk' : ((k.toNat : Nat) : Int) < 2 ^ 2098 := by
        have : (k.toNat : Int) = (k.natAbs : Int) := by omega
        rw [this]; exact C13F.cast_lt_bound _ hk
      have := C13_float_fixed_text_round_trip k.toNat hk' s h hfix
      rw [this]
      have : Int.ofNat k.toNat = k := by
        simp only [Int.ofNat_eq_natCast]; omega
      rw [this]
    · rename_i hn0 hnpos
      have hneg : k < 0 := by
        have : k ≠ 0 := by simpa using hn0
        omega
      cases hr : reprPosFloat (-k).toNat with
      | error er => rw [hr] at h; cases h
      | ok s' =>
        rw [hr] at h
        have hs : s = "-" ++ s' := (Except.ok.inj h).symm
        subst hs
        have hfix' : 'e' ∉ s'.toList := by
          intro hc; apply hfix; simp [String.toList_append, hc]
        obtain ⟨ip, fr, rfl, hip, hfr, hne, hv⟩ := C13F.reprPosFloat_fixed _ s' hr hfix'
        have hv' : nearestDouble (Nat.ofDigitChars 10 (ip ++ fr) 0) fr.length = Int.ofNat (-k).toNat := by
          rw [C13F.nearestDouble_eq_ndq, hv]
        have hk' : (Int.ofNat (-k).toNat) < 2 ^ 2098 := by
          have : Int.ofNat (-k).toNat = (k.natAbs : Int) := by
            simp only [Int.ofNat_eq_natCast]; omega
          rw [this]; exact C13F.cast_lt_bound _ hk
        have := C13F.pyFloatOfStr_neg ip fr hip hfr hne (by rw [hv']; exact hk')
        rw [hv'] at this
        have hstr : "-" ++ String.ofList (ip ++ '.' :: fr) = String.ofList ('-' :: (ip ++ '.' :: fr)) := by
          apply String.toList_inj.mp
          simp [String.toList_append]
        rw [hstr, this]
        have : -Int.ofNat (-k).toNat = k := by
          simp only [Int.ofNat_eq_natCast]; omega
        rw [this]

/-! ### non-vacuity -/

/-- `repr` of the double nearest to `num / den` is the text `s` -/
def c13fRepr (neg : Bool) (num den : Nat) (s : String) : Bool :=
  let k : Int := Int.ofNat (nearestDoubleQ num den)
  match reprFloat (if neg then -k else k) with
  | .ok t => t == s
  | .error _ => false

/-- `float(s)` is the double nearest to `num / den` -/
def c13fRead (s : String) (num den : Nat) : Bool :=
  match pyFloatOfStr s with
  | .ok (.float k) => k == Int.ofNat (nearestDoubleQ num den)
  | _ => false

/-- `repr` of the doubles 0.1, 1e16, 1e-5, 2251799813685247.75, 1e23 (the carry `9 → 10`: the double
    nearest to 10^23 lies below it), -2.5, 0.0; the inputs of the theorems above exist
    (`shortestAt` answers, with and without carry); and `float("0.1")`, `float("-2.5")`,
    `float("2251799813685247.8")` give back the same doubles -/
theorem C13_float_examples :
    c13fRepr false 1 10 "0.1" = true ∧
    c13fRepr false (10 ^ 16) 1 "1e+16" = true ∧
    c13fRepr false 1 100000 "1e-05" = true ∧
    c13fRepr false 225179981368524775 100 "2251799813685247.8" = true ∧
    c13fRepr false (10 ^ 23) 1 "1e+23" = true ∧
    c13fRepr true 25 10 "-2.5" = true ∧
    c13fRepr false 0 1 "0.0" = true ∧
    (shortestAt (nearestDoubleQ 1 10) (decpt (nearestDoubleQ 1 10)) 1 == some (1, 0)) = true ∧
    (decpt (nearestDoubleQ (10 ^ 23) 1) == 23 &&
      shortestAt (nearestDoubleQ (10 ^ 23) 1) 23 1 == some (1, 24)) = true ∧
    c13fRead "0.1" 1 10 = true ∧
    c13fRead "2251799813685247.8" 225179981368524775 100 = true ∧
    (match pyFloatOfStr "-2.5" with
      | .ok (.float k) => k == -Int.ofNat (nearestDoubleQ 25 10)
      | _ => false) = true := by
  refine ⟨?_, ?_, ?_, ?_, ?_, ?_, ?_, ?_, ?_, ?_, ?_, ?_⟩ <;> decide +kernel

end ValidaProofs
