/-
  C05 (headline form) – a rule is valid iff every node the part-by-part walk selects satisfies its
  condition; the failure list is exactly the selected nodes that do not, in selection order, with their
  true concrete paths.  Composition of C03 (`get_data` = walk) with C05 (`C05_verdict`).
  Also the C18 corollary: a re-rooted rule judges the document as the original rule judges what lies
  at the root.
-/
import Valida.AddSchema
import Valida.Dsl
import ValidaSpec.Walk
import ValidaProofs.Lemmas.Basic
import ValidaProofs.C03
import ValidaProofs.C05
import ValidaProofs.C07
import ValidaProofs.C18
import ValidaProofs.Lemmas.C05Walk
namespace ValidaProofs
open Valida ValidaGen ValidaSpec

/-- a rule of C05's domain: modifier-free path without bound data, every step total, value-kind
    condition tree with literal arguments -/
structure RuleInDomain (r : RuleM) (c : Cond PyVal) : Prop where
  datum : r.path.datum = .none
  multi : r.path.multi = .none
  source : r.path.source = none
  steps : StepsOk r.path.parts
  lits : r.cond = c.mapArgs Arg.lit
  valueKind : ∀ l ∈ c.leaves, (l.cls.info.map (·.readsKeys)) = .ok false

/-- the selected nodes as wrapped data -/
def selData (sel : List (PyVal × List PyVal)) : DataV := plainData (sel.map (fun vq => (vq.1, PyVal.tuple vq.2)))

theorem C05_valid_iff_every_selected_node_satisfies (r : RuleM) (c : Cond PyVal) (doc : PyVal) (d : DataV) (t : RuleTestR)
    (hr : RuleInDomain r c) (hdoc : DataV.ofPy doc = .ok d)
    (hconc : r.path.concrete = true → (walk childrenOf r.path.parts doc []).length ≤ 1)
    (ht : ruleTestOn r doc = .ok t) :
    let sel := walk childrenOf r.path.parts doc []
    t.tested = !sel.isEmpty ∧
    (sel = [] → t.isValid = true ∧ t.failures = []) ∧
    (sel ≠ [] → ∃ fd, filterAux c.lit (selData sel) false = .ok (fd, selData sel, none) ∧
        fd.result.length = sel.length ∧
        t.isValid = fd.result.all id ∧
        t.failures.map (fun f => (f.value, f.path)) =
          ((sel.zip fd.result).filter (fun x => !x.2)).map (fun x => (x.1.1, PyVal.tuple x.1.2)) ∧
        ∀ f ∈ t.failures, f.reasons ≠ []) := by
  exact C05W.verdict_walk r c doc d t hr.datum hr.multi hr.source hr.steps hr.lits hr.valueKind hdoc hconc ht

/-- prefixing a reported concrete path -/
def prefixPath (pre : List PyVal) : PyVal → PyVal
  | .tuple q => .tuple (pre ++ q)
  | v => v

/-- C18: the re-rooted rule judges the document exactly as the original rule judges the sub-document
    the root reaches – same tested flag, same verdict, same failing values, failing paths prefixed by
    the root's concrete path -/
theorem C18_rerooted_rule_judges_subdocument (root : Path) (r : RuleM) (c : Cond PyVal) (doc sub : PyVal)
    (rootPath : List PyVal) (d ds : DataV) (t t' : RuleTestR)
    (hroot : walk childrenOf root.parts doc [] = [(sub, rootPath)]) (hrootne : root.parts ≠ [])
    (hrootsteps : StepsOk root.parts)
    (hr : RuleInDomain r c) (hdoc : DataV.ofPy doc = .ok d) (hsub : DataV.ofPy sub = .ok ds)
    (hconc : r.path.concrete = true → (walk childrenOf r.path.parts sub []).length ≤ 1)
    (ht : ruleTestOn r sub = .ok t) (ht' : ruleTestOn (reroot root r) doc = .ok t') :
    t'.tested = t.tested ∧ t'.isValid = t.isValid ∧
    t'.failures.map (·.value) = t.failures.map (·.value) ∧
    t'.failures.map (·.path) = t.failures.map (fun f => prefixPath rootPath f.path) := by
  exact C05W.judges_subdocument root r c doc sub rootPath d ds t t' (prefixPath rootPath) (fun _ => rfl)
    hroot hrootne hrootsteps hr.datum hr.multi hr.source hr.steps hr.lits hr.valueKind hdoc hsub hconc ht ht'

/-- … and when the root reaches nothing, the re-rooted rule is untested and valid -/
theorem C18_rerooted_rule_absent_root (root : Path) (r : RuleM) (c : Cond PyVal) (doc : PyVal) (d : DataV)
    (hroot : walk childrenOf root.parts doc [] = []) (hrootne : root.parts ≠ [])
    (hrootsteps : StepsOk root.parts) (hr : RuleInDomain r c) (hdoc : DataV.ofPy doc = .ok d) :
    ruleTestOn (reroot root r) doc = .ok { tested := false, isValid := true, failures := [], data := doc } := by
  exact C05W.absent_root root r doc d hroot hrootne hrootsteps hr.steps hdoc

/-! ### non-vacuity -/

/-- Bool-valued check of a rule test (for kernel-evaluated examples): tested, invalid, exactly one
    failure, with the given index, value and concrete path -/
def oneFailureAt (r : Except Exc RuleTestR) (idx : Nat) (value path : PyVal) : Bool :=
  match r with
  | .ok t => t.tested && !t.isValid &&
      (match t.failures with
       | [f] => f.index == idx && valueIs (.ok f.value) value && valueIs (.ok f.path) path && !f.reasons.isEmpty
       | _ => false)
  | .error _ => false

/-- the rule `("a", ListValue())` / `Value.greater_than(value=1)` on `{"a": [0, 2]}`: tested, not
    valid, one failure – the value `0` at path `("a", 0)` -/
example : oneFailureAt (do
    let lv ← Part.mkList .none .none none none
    let p ← Path.mk' [.prim (.str "a"), .part lv]
    let c ← Dsl.call Arg.lit .value "greater_than" [] [("value", .lit (.int 1))]
    ruleTestOn { path := p, cond := c, cast := [] } (.dict [(.str "a", .list [.int 0, .int 2])]))
      0 (.int 0) (.tuple [.str "a", .int 0]) = true := by
  decide +kernel

end ValidaProofs
