/-
  C04 – reported concrete paths are truthful; path modifiers mean what they say.
-/
import Valida.Path
import ValidaSpec.Walk
import ValidaProofs.Lemmas.Basic
import ValidaProofs.C03
namespace ValidaProofs
open Valida ValidaGen ValidaSpec

/-- one step is truthful: looking a matched key up in the node gives the matched child
    (mappings with pairwise distinct keys; list indices always) -/
theorem C04_step_truthful (p : Part) (node : PyVal) (kvs : List (PyVal × PyVal))
    (h : stepNode p node = .ok kvs)
    (hd : ∀ items, node = .dict items → DistinctKeys items ∧ ∀ kv ∈ items, PyVal.pyEq kv.1 kv.1 = true) :
    ∀ kv ∈ kvs, childAt node kv.1 = some kv.2 := by
  sorry

/-- every (value, path) pair of the walk is such that indexing the document along the path reaches
    the value – given that each step is truthful on the nodes it visits -/
theorem C04_truthful (children : Part → PyVal → List (PyVal × PyVal)) (parts : List Part) (doc : PyVal)
    (htr : ∀ p node kv, kv ∈ children p node → childAt node kv.1 = some kv.2) :
    ∀ vq ∈ walk children parts doc [], index doc vq.2 = some vq.1 := by
  sorry

/-- the paths are pairwise distinct when each step returns pairwise distinct keys -/
theorem C04_distinct (children : Part → PyVal → List (PyVal × PyVal)) (parts : List Part) (doc : PyVal) (pre : List PyVal)
    (hk : ∀ p node, ((children p node).map (·.1)).Nodup) :
    ((walk children parts doc pre).map (·.2)).Nodup := by
  sorry

/-- the result without paths is the same values in the same order -/
theorem C04_same_values (p : Path) (doc : PyVal) (hne : p.parts ≠ []) (hm : p.multi = .none ∨ p.multi = .all)
    (hc : p.concrete = false) (withP : List PyVal)
    (h : p.getData (some doc) true = .ok (.list withP)) :
    ∃ vals, p.getData (some doc) false = .ok (.list vals) ∧
      vals.length = withP.length ∧
      ∀ (i : Nat) (v : PyVal), vals[i]? = some v → ∃ q, withP[i]? = some (PyVal.tuple [v, q]) := by
  sorry

/-- datum modifiers: that function of each selected node -/
theorem C04_datum_fn (v : PyVal) :
    datumFn .none v = .ok v ∧ datumFn .dtype v = .ok (.type (PyVal.typeOf v)) ∧
    datumFn .length v = Py.len v ∧
    (∀ kvs, datumFn .mapKeys (.dict kvs) = .ok (.list (kvs.map (·.1)))) ∧
    (∀ kvs, datumFn .mapValues (.dict kvs) = .ok (.list (kvs.map (·.2)))) := by
  sorry

/-- multiplicity modifiers on a non-empty selection: the first, the last, the only (an error if there
    are several), all -/
theorem C04_multi (x : PyVal) (rest : List PyVal) (c : Bool) :
    matchMulti .first c (x :: rest) = .ok x ∧
    matchMulti .last c (x :: rest) = .ok ((x :: rest).getLast (by simp)) ∧
    matchMulti .single c [x] = .ok x ∧
    (rest ≠ [] → matchMulti .single c (x :: rest) = .error .valueError) ∧
    matchMulti .all c (x :: rest) = .ok (.list (x :: rest)) ∧
    matchMulti .none false (x :: rest) = .ok (.list (x :: rest)) ∧
    matchMulti .none true (x :: rest) = .ok x := by
  sorry

/-- the two kinds of modifier commute: both application orders build the same path -/
theorem C04_commute (p : Path) (d : DatumMod) (m : MultiMod) :
    (p.withDatum d).bind (fun q => q.withMulti m) = (p.withMulti m).bind (fun q => q.withDatum d)
    ∨ ((p.withDatum d).bind (fun q => q.withMulti m)).toOption = none
      ∧ ((p.withMulti m).bind (fun q => q.withDatum d)).toOption = none := by
  sorry

/-- multiplicity modifiers are refused on concrete paths -/
theorem C04_concrete_refuses (p : Path) (m : MultiMod) (hc : p.concrete = true) (hm : m ≠ .none) :
    p.withMulti m = .error .valueError := by
  sorry

/-- a modifier can be set only once -/
theorem C04_modifier_once (p : Path) (d d' : DatumMod) (q : Path) (hd : d ≠ .none) (h : p.withDatum d = .ok q) :
    q.withDatum d' = .error .valueError := by
  sorry

/-- an empty selection is `[]` (non-concrete) whatever the modifiers -/
theorem C04_empty_selection (p : Path) (doc : PyVal) (rp : Bool) (hne : p.parts ≠ []) (hc : p.concrete = false)
    (h : ∃ paths, walkParts p.parts true [match p.source with | some s => if PyVal.truthy s then s else doc | none => doc] [] = .ok ([], paths))
    (hdoc : PyVal.truthy doc = true) :
    p.getData (some doc) rp = .ok (.list []) := by
  sorry

end ValidaProofs
