/-
  C04 – reported concrete paths are truthful; path modifiers mean what they say.
-/
import Valida.Path
import ValidaSpec.Walk
import ValidaProofs.Lemmas.Basic
import ValidaProofs.C03
import ValidaProofs.Lemmas.C04Paths
import ValidaProofs.Lemmas.C04GetData
namespace ValidaProofs
open Valida ValidaGen ValidaSpec
open C04

/-- one step is truthful: looking a matched key up in the node gives the matched child
    (mappings with pairwise distinct keys on which `==` is reflexive and symmetric; list indices
    always) -/
-- STATEMENT CHANGED: the hypothesis on mapping nodes now also asks `==` to be symmetric on the keys
-- (`pyEq a.1 b.1 = pyEq b.1 a.1`).  `DistinctKeys` only says that no *earlier* key `==` a later one,
-- whereas `Py.dictGet k` tests `pyEq k k'` with the looked-up key on the left, and the model's `==`
-- is not symmetric on association lists with duplicate keys.  Counterexample to the original
-- statement (kernel-checked in the `example` below): `A = {1: 1, 2: 2}`, `B = [(1,1),(1,1)]` as a
-- mapping, `pyEq A B = false`, `pyEq B A = true`, both reflexive; node `{A: 1, B: 2}` and a part with
-- the null condition: the step reports `(B, 2)` but `childAt node B = some 1`.
-- Keys of real mappings are hashable, for which the extra hypothesis (and reflexivity) holds:
-- `C04_step_truthful_hashable`.
theorem C04_step_truthful (p : Part) (node : PyVal) (kvs : List (PyVal × PyVal))
    (h : stepNode p node = .ok kvs)
    (hd : ∀ items, node = .dict items → DistinctKeys items ∧ (∀ kv ∈ items, PyVal.pyEq kv.1 kv.1 = true) ∧
      ∀ a ∈ items, ∀ b ∈ items, PyVal.pyEq a.1 b.1 = PyVal.pyEq b.1 a.1) :
    ∀ kv ∈ kvs, childAt node kv.1 = some kv.2 := by
  intro kv hkv
  obtain ⟨hlist, hdict⟩ := C03_step_items p node kvs h
  cases node with
  | list xs => exact childAt_of_mem_zip_range xs kv ((hlist xs rfl).subset hkv)
  | dict items =>
    obtain ⟨h1, h2, h3⟩ := hd items rfl
    exact dictGet_of_mem items h1 h2 h3 kv ((hdict items rfl).subset hkv)
  | _ =>
    rw [(C03_inapplicable p _ (by intro xs; simp) (by intro xs; simp))] at h
    cases h
    simp at hkv

/-- the counterexample to the original statement of `C04_step_truthful` (see above) -/
example :
    let A : PyVal := .dict [(.int 1, .int 1), (.int 2, .int 2)]
    let B : PyVal := .dict [(.int 1, .int 1), (.int 1, .int 1)]
    let node : PyVal := .dict [(A, .int 1), (B, .int 2)]
    let p : Part := { kind := .map, cond := Cond.null, listCond := Cond.null, mapCond := Cond.null, label := none }
    (PyVal.pyEq A B = false ∧ PyVal.pyEq A A = true ∧ PyVal.pyEq B B = true) ∧
    (match stepNode p node with
     | .ok kvs => kvs.length == 2 && PyVal.pyEq (.list (kvs.map (·.1))) (.list [A, B])
     | .error _ => false) = true ∧
    (match stepNode p node with
     | .ok kvs => kvs.all (fun kv => match childAt node kv.1 with
         | some v => PyVal.pyEq v kv.2 | none => false)
     | .error _ => true) = false ∧
    (match childAt node B with | some v => PyVal.pyEq v (.int 1) | none => false) = true := by
  decide +kernel

/-- … in particular for mappings whose keys are hashable (every Python `dict`) -/
theorem C04_step_truthful_hashable (p : Part) (node : PyVal) (kvs : List (PyVal × PyVal))
    (h : stepNode p node = .ok kvs)
    (hd : ∀ items, node = .dict items → DistinctKeys items ∧ ∀ kv ∈ items, PyVal.hashable kv.1 = true) :
    ∀ kv ∈ kvs, childAt node kv.1 = some kv.2 := by
  apply C04_step_truthful p node kvs h
  intro items hi
  obtain ⟨h1, h2⟩ := hd items hi
  exact ⟨h1, fun kv hkv => pyEq_refl_of_hashable _ (h2 kv hkv),
    fun a ha b _ => pyEq_symm_of_hashable _ _ (h2 a ha)⟩

/-- every (value, path) pair of the walk is such that indexing the document along the path reaches
    the value – given that each step is truthful on the nodes it visits -/
theorem C04_truthful (children : Part → PyVal → List (PyVal × PyVal)) (parts : List Part) (doc : PyVal)
    (htr : ∀ p node kv, kv ∈ children p node → childAt node kv.1 = some kv.2) :
    ∀ vq ∈ walk children parts doc [], index doc vq.2 = some vq.1 := by
  exact walk_truthful children doc htr parts doc [] rfl

/-- the paths are pairwise distinct when each step returns pairwise distinct keys -/
theorem C04_distinct (children : Part → PyVal → List (PyVal × PyVal)) (parts : List Part) (doc : PyVal) (pre : List PyVal)
    (hk : ∀ p node, ((children p node).map (·.1)).Nodup) :
    ((walk children parts doc pre).map (·.2)).Nodup := by
  exact walk_paths_nodup children hk parts doc pre

/-- the result without paths is the same values in the same order -/
theorem C04_same_values (p : Path) (doc : PyVal) (hne : p.parts ≠ []) (hm : p.multi = .none ∨ p.multi = .all)
    (hc : p.concrete = false) (withP : List PyVal)
    (h : p.getData (some doc) true = .ok (.list withP)) :
    ∃ vals, p.getData (some doc) false = .ok (.list vals) ∧
      vals.length = withP.length ∧
      ∀ (i : Nat) (v : PyVal), vals[i]? = some v → ∃ q, withP[i]? = some (PyVal.tuple [v, q]) := by
  exact getData_same_values p doc hne hm hc withP h

/-- datum modifiers: that function of each selected node -/
theorem C04_datum_fn (v : PyVal) :
    datumFn .none v = .ok v ∧ datumFn .dtype v = .ok (.type (PyVal.typeOf v)) ∧
    datumFn .length v = Py.len v ∧
    (∀ kvs, datumFn .mapKeys (.dict kvs) = .ok (.list (kvs.map (·.1)))) ∧
    (∀ kvs, datumFn .mapValues (.dict kvs) = .ok (.list (kvs.map (·.2)))) := by
  refine ⟨rfl, rfl, rfl, fun _ => rfl, fun _ => rfl⟩

/-- multiplicity modifiers on a non-empty selection: the first, the last, the only (an error if there
    are several), all -/
theorem C04_multi (x : PyVal) (rest : List PyVal) (c : Bool) :
    matchMulti .first c (x :: rest) = .ok x ∧
    matchMulti .last c (x :: rest) = .ok ((x :: rest).getLast (by simp)) ∧
    matchMulti .single c [x] = .ok x ∧
    (rest ≠ [] → matchMulti .single c (x :: rest) = .error .valueError) ∧
    matchMulti .all c (x :: rest) = .ok (.list (x :: rest)) ∧
    matchMulti .none false (x :: rest) = .ok (.list (x :: rest)) ∧
    matchMulti .none true (x :: rest) = .ok x := by
  refine ⟨rfl, ?_, rfl, ?_, rfl, rfl, rfl⟩
  · simp [matchMulti, List.getLast?_eq_some_getLast]
  · intro hr
    cases rest with
    | nil => exact absurd rfl hr
    | cons y ys => simp [matchMulti]

/-- the two kinds of modifier commute: both application orders build the same path -/
theorem C04_commute (p : Path) (d : DatumMod) (m : MultiMod) :
    (p.withDatum d).bind (fun q => q.withMulti m) = (p.withMulti m).bind (fun q => q.withDatum d)
    ∨ ((p.withDatum d).bind (fun q => q.withMulti m)).toOption = none
      ∧ ((p.withMulti m).bind (fun q => q.withDatum d)).toOption = none := by
  exact Or.inl (withDatum_withMulti p d m)

/-- multiplicity modifiers are refused on concrete paths -/
theorem C04_concrete_refuses (p : Path) (m : MultiMod) (hc : p.concrete = true) (hm : m ≠ .none) :
    p.withMulti m = .error .valueError := by
  unfold Path.withMulti
  cases m <;> simp_all

/-- a modifier can be set only once -/
theorem C04_modifier_once (p : Path) (d d' : DatumMod) (q : Path) (hd : d ≠ .none) (h : p.withDatum d = .ok q) :
    q.withDatum d' = .error .valueError := by
  unfold Path.withDatum at h ⊢
  split at h
  · simp at h
  · simp at h
    subst h
    simp [hd]

/-- an empty selection is `[]` (non-concrete) whatever the modifiers -/
theorem C04_empty_selection (p : Path) (doc : PyVal) (rp : Bool) (hne : p.parts ≠ []) (hc : p.concrete = false)
    (h : ∃ paths, walkParts p.parts true [match p.source with | some s => if PyVal.truthy s then s else doc | none => doc] [] = .ok ([], paths))
    (hdoc : PyVal.truthy doc = true) :
    p.getData (some doc) rp = .ok (.list []) := by
  exact getData_empty_selection p doc rp hne hc h hdoc

end ValidaProofs
