/-
  C16 – parsing a spec does not change the spec; re-parsing gives the same object.

  The model's parsers are pure functions of the spec *value*; that the implementation does not write to
  the caller's structure is tied to the source through flags the translator derives from the five
  places that used to rewrite it (each must work on a copy), and is checked on the implementation by
  type-exact, identity-aware snapshots (tools/harness/props/c16.py).
-/
import Valida.Spec.Parse
import Valida.Eq
import ValidaProofs.Lemmas.Basic
import ValidaProofs.C14
import ValidaProofs.Lemmas.C16Spec
import ValidaProofs.Lemmas.C16Fuel
namespace ValidaProofs
open Valida ValidaGen

/-- every parser works on a copy where it rewrites: data-path arguments inside list / mapping
    arguments, escaped keys, the popped part spec, `cast` and `doc` of a rule spec -/
theorem C16_parsers_copy_before_rewrite :
    condArgsCopied = true ∧ pathSpecPure = true ∧ partSpecCopied = true ∧ ruleSpecCopied = true := by
  decide

/-- un-escaping builds a new mapping; the keys of the given one are left as they are (the model of
    `{k.replace(...): v for k, v in spec.items()}`): same length when no two keys collide, same values -/
theorem C16_unescape_fresh (kvs : List (PyVal × PyVal)) :
    (dictOfPairs kvs).length ≤ kvs.length ∧ ∀ kv ∈ dictOfPairs kvs, ∃ kv' ∈ kvs, kv.2 = kv'.2 :=
  C16L.dictOfPairs_fresh kvs

/-- popping a key from the copy: the other items keep their order and values -/
theorem C16_pop_frame (key : String) (kvs : List (PyVal × PyVal)) :
    (popStr key kvs).2.Sublist kvs ∧ ∀ kv ∈ (popStr key kvs).2, PyVal.pyEq (.str key) kv.1 = false :=
  C16L.popStr_frame key kvs

-- STATEMENT CHANGED: hypothesis `KwNodup c` added.  `c == c` is false for a condition whose keyword
-- association list repeats a name (counterexample at `C14_cond_refl`: `kwargs = [("a", 1), ("a", 2)]`);
-- the model's spec mappings are association lists, so `parseCond` on a mapping argument with a
-- repeated key (not a Python dict) gives such a condition.
/-- parsing the same (unchanged) structure again gives an equal object: conditions -/
theorem C16_reparse_cond (fuel : Nat) (spec : PyVal) (c : Cond Arg) (h : parseCond fuel spec = .ok c)
    (hn : KwNodup c) (hr : ∀ a ∈ condArgs c, argEq a a = true) :
    ∃ c', parseCond fuel spec = .ok c' ∧ condEq c' c = true :=
  ⟨c, h, C14_cond_refl argEq c hn hr⟩

-- STATEMENT CHANGED: hypothesis `PartKwNodup p` added, as for `C16_reparse_cond`.
/-- … parts and rules -/
theorem C16_reparse_part (fuel : Nat) (spec : List (PyVal × PyVal)) (p : Part) (h : parsePart fuel spec = .ok p)
    (hn : PartKwNodup p) (hr : ∀ a ∈ partVals p, PyVal.pyEq a a = true) :
    ∃ p', parsePart fuel spec = .ok p' ∧ partEq p' p = true :=
  ⟨p, h, C14L.part_refl p hn (partVals_eq ▸ hr)⟩

/-- the added hypotheses (and the reflexivity ones) hold for what the parsers give on real specs, e.g.
    `{"value.in_range": {"lower": 1, "upper": 5}}` and `{"type": "map_value", "key.equal_to": "a"}` -/
example :
    (match parseCond 3 (.dict [(.str "value.in_range", .dict [(.str "lower", .int 1), (.str "upper", .int 5)])]) with
     | .ok c => decide (∀ l ∈ c.leaves, (l.kwargs.map (·.1)).Nodup) && (condArgs c).all (fun a => argEq a a)
     | .error _ => false) = true ∧
    (match parsePart 3 [(.str "type", .str "map_value"), (.str "key.equal_to", .str "a")] with
     | .ok p => [p.cond, p.listCond, p.mapCond].all (fun c => decide (∀ l ∈ c.leaves, (l.kwargs.map (·.1)).Nodup)) &&
                (partVals p).all (fun a => PyVal.pyEq a a)
     | .error _ => false) = true := by
  constructor <;> decide +kernel

/-- more fuel never changes the result of a successful parse: the outcome does not depend on how often
    or how deeply nested the parser was called before -/
theorem C16_fuel_mono (fuel : Nat) (spec : PyVal) (c : Cond Arg) (h : parseCond fuel spec = .ok c) :
    parseCond (fuel + 1) spec = .ok c :=
  C16L.parseCond_mono fuel spec (.ok c) (fun e => by cases e) h

end ValidaProofs
