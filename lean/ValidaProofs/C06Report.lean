/-
  C06 (report part) – "the textual failure report is always a string, naming every failing path
  when there are failures".

  The report is `Valida.Report.report ρ κ rules v` for ANY two `repr` functions `ρ` (values and
  concrete paths) and `κ` (a single condition): the theorems do not depend on what `repr` prints.
  (The correspondence check runs it with the `repr` of `Valida.Repr` against
  `ValidatedData.get_failures_string()` and `RuleTest.get_failures_string()`.)
-/
import Valida.Report
import ValidaProofs.Lemmas.Basic
import ValidaProofs.C05
import ValidaProofs.C06
namespace ValidaProofs
open Valida ValidaGen Valida.Report

/-- `piece` occurs in `s` -/
def Mentions (s piece : String) : Prop := ∃ pre post : String, s = pre ++ piece ++ post

/-- The report exists for every validation that returned: building it raises nothing (it re-reads the
    filter of each failing rule test over the very document that rule was judged on). No restriction
    on the rules: casts, path arguments, any condition. -/
theorem C06_report_total (ρ : PyVal → String) (κ : Leaf Arg → String) (rs : List RuleM) (doc : PyVal)
    (v : Validated) (h : validate rs doc = .ok v) :
    ∃ s, report ρ κ rs v = .ok s := by
  sorry

/-- A valid document: the report is the one line saying so, with the tested count. -/
theorem C06_report_valid (ρ : PyVal → String) (κ : Leaf Arg → String) (rs : List RuleM) (v : Validated) (s : String)
    (hs : report ρ κ rs v = .ok s) (hv : v.isValid = true) :
    s = "Data is valid. " ++ toString v.numRulesTested ++ "/" ++ toString rs.length ++ " rules were tested.\n" := by
  sorry

/-- An invalid document: the report starts with the failure count and the tested count. -/
theorem C06_report_header (ρ : PyVal → String) (κ : Leaf Arg → String) (rs : List RuleM) (v : Validated) (s : String)
    (hs : report ρ κ rs v = .ok s) (hv : v.isValid = false) :
    ∃ rest, s = toString v.numFailures ++ " rule" ++ (if v.numFailures > 1 then "s" else "") ++
      " failed validation. " ++ toString v.numRulesTested ++ "/" ++ toString rs.length ++ " rules were tested.\n\n" ++ rest := by
  sorry

/-- Every failure of every rule test is named in the report: its concrete path and its value, as
    `repr` prints them, in a `Path: … / Value: … / Reasons:` block. -/
theorem C06_report_names_every_failing_path (ρ : PyVal → String) (κ : Leaf Arg → String) (rs : List RuleM)
    (doc : PyVal) (v : Validated) (s : String)
    (h : validate rs doc = .ok v) (hs : report ρ κ rs v = .ok s) :
    ∀ t ∈ v.tests, ∀ f ∈ t.failures,
      Mentions s ("Path: " ++ ρ f.path ++ "\nValue: " ++ ρ f.value ++ "\nReasons:\n") := by
  sorry

/-- Every rule whose test is not valid has its own numbered section, numbered by its position in
    the applied order (from 1). -/
theorem C06_report_sections (ρ : PyVal → String) (κ : Leaf Arg → String) (rs : List RuleM)
    (doc : PyVal) (v : Validated) (s : String)
    (h : validate rs doc = .ok v) (hs : report ρ κ rs v = .ok s) (i : Nat) (t : RuleTestR)
    (ht : v.tests[i]? = some t) (hinv : t.isValid = false) :
    Mentions s ("Rule #" ++ toString (i + 1) ++ "\n") := by
  sorry

/-- The reason lines of a failure: one text per recorded reason kind, and at least one. -/
theorem C06_report_reasons (κ : Leaf Arg → String) (r : RuleM) (doc : PyVal) (t : RuleTestR)
    (h : ruleTestOn r doc = .ok t) :
    ∃ texts, reasonTextsOf κ r t = .ok texts ∧ texts.length = t.failures.length ∧
      ∀ (i : Nat) (f : Failure) (x : List String), t.failures[i]? = some f → texts[i]? = some x →
        x.length = f.reasons.length ∧ x ≠ [] := by
  sorry

end ValidaProofs
