/-
  C06 (report part) – "the textual failure report is always a string, naming every failing path
  when there are failures".

  No theorem mentions a literal text: every piece of wording is a constant of the generated
  `ValidaGen.ReportFmt` (regenerated from the Python source on every run) and the proofs treat those
  constants as opaque strings, so a reworded message flows through. The only facts about the generated
  values are the guards `C06_report_skip_rows`.

  The report is `Valida.Report.report ρ κ rules v` for ANY two `repr` functions `ρ` (values and
  concrete paths) and `κ` (a single condition): the theorems do not depend on what `repr` prints.
  (The correspondence check runs it with the `repr` of `Valida.Repr` against
  `ValidatedData.get_failures_string()` and `RuleTest.get_failures_string()`.)
-/
import Valida.Report
import Valida.Repr
import ValidaProofs.Lemmas.Basic
import ValidaProofs.C05
import ValidaProofs.C06
import ValidaProofs.Lemmas.C06Report
namespace ValidaProofs
open Valida ValidaGen Valida.Report ValidaGen.ReportFmt
open C06R

/-- `piece` occurs in `s` -/
def Mentions (s piece : String) : Prop := ∃ pre post : String, s = pre ++ piece ++ post

/-- The report exists for every validation that returned: building it raises nothing (it re-reads the
    filter of each failing rule test over the very document that rule was judged on). No restriction
    on the rules: casts, path arguments, any condition. -/
theorem C06_report_total (ρ : PyVal → String) (κ : Leaf Arg → String) (rs : List RuleM) (doc : PyVal)
    (v : Validated) (h : validate rs doc = .ok v) :
    ∃ s, report ρ κ rs v = .ok s := by
  obtain ⟨texts, ht, _⟩ := allTexts_spec κ rs v.tests (validate_tested rs doc v h)
  exact ⟨reportWith ρ v rs.length texts, by simp [report, ht, bind, Except.bind, pure, Except.pure]⟩

/-- A valid document: the report is the one line saying so, with the tested count
    (`"Data is valid. {tested}/{rules} rules were tested.\n"` in the current wording). -/
theorem C06_report_valid (ρ : PyVal → String) (κ : Leaf Arg → String) (rs : List RuleM) (v : Validated) (s : String)
    (hs : report ρ κ rs v = .ok s) (hv : v.isValid = true) :
    s = repOutInit ++ validPrefix ++ toString v.numRulesTested ++ testedSep ++ toString rs.length ++
          testedSuffix ++ validSuffix := by
  obtain ⟨texts, _, rfl⟩ := report_eq ρ κ rs v s hs
  exact reportWith_valid ρ v _ texts hv

/-- An invalid document: the report starts with the failure count and the tested count. -/
theorem C06_report_header (ρ : PyVal → String) (κ : Leaf Arg → String) (rs : List RuleM) (v : Validated) (s : String)
    (hs : report ρ κ rs v = .ok s) (hv : v.isValid = false) :
    ∃ rest, s = repOutInit ++ toString v.numFailures ++ headerRule ++
      (if v.numFailures > 1 then headerPlural else headerSingular) ++ headerFailed ++
      toString v.numRulesTested ++ testedSep ++ toString rs.length ++ testedSuffix ++ headerSuffix ++ rest := by
  obtain ⟨texts, _, rfl⟩ := report_eq ρ κ rs v s hs
  exact ⟨_, reportWith_invalid ρ v _ texts hv⟩

/-- Every failure of every rule test is named in the report: its concrete path and its value, as
    `repr` prints them, in a `Path: … / Value: … / Reasons:` block. -/
theorem C06_report_names_every_failing_path (ρ : PyVal → String) (κ : Leaf Arg → String) (rs : List RuleM)
    (doc : PyVal) (v : Validated) (s : String)
    (h : validate rs doc = .ok v) (hs : report ρ κ rs v = .ok s) :
    ∀ t ∈ v.tests, ∀ f ∈ t.failures,
      Mentions s (failPathPrefix ++ ρ f.path ++ failValuePrefix ++ ρ f.value ++ failReasonsHeader) := by
  intro t ht f hf
  have hT := validate_tested rs doc v h
  obtain ⟨i, hi⟩ := List.getElem?_of_mem ht
  have hinv : t.isValid = false := by
    cases hv : t.isValid with
    | false => rfl
    | true =>
      obtain ⟨r, _, hr⟩ := all2_getElem? hT i t hi
      have hnil := hr.valid_nil hv
      rw [hnil] at hf; cases hf
  obtain ⟨x, hxl, hsec⟩ := report_section ρ κ rs v s hT hs i t hi hinv
  obtain ⟨reasons, hrr⟩ := ruleReport_failure ρ t x hxl f hf
  exact hsec.trans ((section_report ρ (i + 1) t x hinv).trans (hrr.trans (failureText_block ρ f reasons)))

/-- Every rule whose test is not valid has its own numbered section, numbered by its position in
    the applied order (from 1). -/
theorem C06_report_sections (ρ : PyVal → String) (κ : Leaf Arg → String) (rs : List RuleM)
    (doc : PyVal) (v : Validated) (s : String)
    (h : validate rs doc = .ok v) (hs : report ρ κ rs v = .ok s) (i : Nat) (t : RuleTestR)
    (ht : v.tests[i]? = some t) (hinv : t.isValid = false) :
    Mentions s (sectionPrefix ++ toString (i + 1) ++ sectionTitleEnd) := by
  obtain ⟨x, _, hsec⟩ := report_section ρ κ rs v s (validate_tested rs doc v h) hs i t ht hinv
  exact hsec.trans (section_head ρ (i + 1) t x hinv)

/-- Guards on the generated skip rows (`if cnd_name in ("and", "or"): continue`): the rows of `and` and
    `or` nodes are skipped, the row of an `xor` node is not. These unfold the generated constants on
    purpose: they are the obligations that break if the source's skip list changes. -/
theorem C06_report_skip_rows :
    skipped BinOp.and.symbol = true ∧ skipped BinOp.or.symbol = true ∧ skipped BinOp.xor.symbol = false := by
  decide

-- STATEMENT CHANGED: new hypothesis `hκ`. The model now follows the source's skip rule
-- (`if cnd_name in ("and", "or"): continue`) by NAME, which also drops the row of a single condition
-- whose `repr` is literally "and"/"or". Counterexample without `hκ`: `κ := fun _ => skipRowA`, a rule whose
-- condition is one leaf and a document with a failing node: `f.reasons = [.cFalse]` but the texts of that
-- failure are `[]` (length 0 ≠ 1, and empty). A real `repr` of a condition (`Cls.fn(args…)`) is never one
-- of the two skipped names.
/-- The reason lines of a failure: one text per recorded reason kind, and at least one. -/
theorem C06_report_reasons (κ : Leaf Arg → String) (hκ : ∀ l, skipped (κ l) = false)
    (r : RuleM) (doc : PyVal) (t : RuleTestR)
    (h : ruleTestOn r doc = .ok t) :
    ∃ texts, reasonTextsOf κ r t = .ok texts ∧ texts.length = t.failures.length ∧
      ∀ (i : Nat) (f : Failure) (x : List String), t.failures[i]? = some f → texts[i]? = some x →
        x.length = f.reasons.length ∧ x ≠ [] := by
  exact reasonTextsOf_spec κ hκ C06_report_skip_rows r t ⟨doc, h⟩

/-! ### non-vacuity: a concrete schema of two rules (one passing, one failing) and its report -/

/-- every child of a mapping (a part object with the null condition) -/
def c06rPart : Part := { kind := .map, cond := Cond.null, listCond := Cond.null, mapCond := Cond.null, label := none }
def c06rRule (c : Cond Arg) : RuleM :=
  { path := { parts := [c06rPart], concrete := false, datum := .none, multi := .none, source := none },
    cond := c, cast := [] }
/-- "every child is an int" (passes), "every child equals 1" (fails for `b`) -/
def c06rSchema : List RuleM :=
  [c06rRule (.leaf { cls := .value, fn := "is_instance", args := [.lit (.type .int)], kwargs := [] }),
   c06rRule (.leaf { cls := .value, fn := "equal_to", args := [], kwargs := [("value", .lit (.int 1))] })]
def c06rDoc : PyVal := .dict [(.str "a", .int 1), (.str "b", .int 2)]

/-- Bool-valued comparison of a report with the expected text (for kernel-evaluated examples) -/
def reportIs (r : Except Exc String) (expected : String) : Bool :=
  match r with
  | .ok s => s.toList == expected.toList
  | .error _ => false

/-- the expected text of the report of `c06rSchema` on `c06rDoc`, assembled from the generated
    constants: one failed rule, two of two tested, the section of rule #2 with its one failure
    (path `p`, value `x`, one "returned False" reason naming the condition `k`) -/
def c06rExpected (p x k : String) : String :=
  repOutInit ++ "1" ++ headerRule ++ headerSingular ++ headerFailed ++ "2" ++ testedSep ++ "2" ++ testedSuffix ++
    headerSuffix ++
    sectionPrefix ++ "2" ++ sectionTitleEnd ++
    String.join (List.replicate (sectionPrefix ++ "2").length underlineChar) ++ underlineEnd ++
    ruleOutInit ++ failPathPrefix ++ p ++ failValuePrefix ++ x ++ failReasonsHeader ++
    reasonPrefix ++ msgCFalse.1 ++ k ++ msgCFalse.2 ++ reasonSuffix ++
    sectionEnd

/-- the validation returns and the report, with constant `repr`s, is exactly that text -/
example : reportIs (do let v ← validate c06rSchema c06rDoc; report (fun _ => "v") (fun _ => "k") c06rSchema v)
    (c06rExpected "v" "v" "k") = true := by decide +kernel

/-- the constant `κ` satisfies the hypothesis of `C06_report_reasons` -/
example : ∀ l : Leaf Arg, skipped ((fun _ => "k") l) = false := by
  have h : skipped "k" = false := by decide
  exact fun _ => h

/-- the `repr`s of `Valida.Repr` (those the correspondence check runs) -/
def c06rρ (v : PyVal) : String := match Repr.pyRepr v with | .ok s => s | .error _ => "?"
def c06rκ (l : Leaf Arg) : String := match Repr.leafRepr l with | .ok s => s | .error _ => "?"

example : reportIs (do let v ← validate c06rSchema c06rDoc; report c06rρ c06rκ c06rSchema v)
    (c06rExpected "('b',)" "2" "Value.equal_to(value=1)") = true := by decide +kernel

/-- the validation is not valid, has two tests, and the second one carries the one failure -/
example : (match validate c06rSchema c06rDoc with
     | .ok v => !v.isValid && v.tests.length == 2 && v.numFailures == 1 &&
                 v.tests.map (·.isValid) == [true, false]
     | .error _ => false) = true := by decide +kernel

end ValidaProofs
