/-
  C20 (first half) – the documentation tree of a whole schema.

  "For a schema whose rule paths are prefix-closed, the documentation tree is produced without error:
   each rule appears exactly once with its condition and doc, every node's parent precedes it and is
   its path prefix, the flat and nested forms contain the same nodes, and a key is flagged required
   exactly when an always-applicable required-keys condition names it."

  `ValidaProofs/C20.lean` proves the facts about one iteration of the loop of `Schema.to_tree`
  (`treeStep`), about `assignParents` and about nesting.  Here they are composed into theorems about
  the result of the whole function: `toTreeFlat rules [] none none` (`C20_tree_*`, `to_tree()`), and
  `toTreeFlat rules fromStr (some s) (some d)` (`C20_subtree_*`, `to_tree(from_path=…)`).

  The helper files `Lemmas/C20Tree{Order,Fold,Req,Flat,Sort,Gen,Sub,Keys,Root}.lean` (namespace `C20H`) hold the
  invariants of the loop; the statements there are generic in the sub-tree root.
-/
import Valida.Tree
import ValidaProofs.C20
import ValidaProofs.Lemmas.C20Tree
import ValidaProofs.Lemmas.C20TreeOrder
import ValidaProofs.Lemmas.C20TreeFold
import ValidaProofs.Lemmas.C20TreeReq
import ValidaProofs.Lemmas.C20TreeFlat
import ValidaProofs.Lemmas.C20TreeSort
import ValidaProofs.Lemmas.C20TreeGen
import ValidaProofs.Lemmas.C20TreeSub
import ValidaProofs.Lemmas.C20TreeKeys
import ValidaProofs.Lemmas.C20TreeRoot
namespace ValidaProofs
open Valida ValidaGen

/-! ### the hypotheses -/

/-- the rule paths are prefix-closed: every proper, non-empty prefix of a rule's path is the path of
    a rule.  (A root rule – the empty prefix – is *not* needed: `to_tree` starts its parent
    references with `{(): -1}`, so nodes with a one-component path are top-level nodes when there is
    no root node.) -/
def PrefixClosed (rules : List TRule) : Prop :=
  ∀ r ∈ rules, ∀ p, p <+: r.partStrs → p ≠ [] → p ≠ r.partStrs → ∃ r' ∈ rules, r'.partStrs = p

/-- the same, one component at a time: a rule's path without its last component is empty or the
    path of a rule -/
def ParentClosed (rules : List TRule) : Prop :=
  ∀ r ∈ rules, r.partStrs.dropLast ≠ [] → ∃ r' ∈ rules, r'.partStrs = r.partStrs.dropLast

/-- one rule per path -/
def DistinctPaths (rules : List TRule) : Prop := (rules.map (·.partStrs)).Nodup

theorem prefix_dropLast_of_lt {p q : List String} (h : p <+: q) (hl : p.length < q.length) : p <+: q.dropLast := by
  obtain ⟨t, rfl⟩ := h
  have ht : t ≠ [] := by
    intro e; subst e; simp at hl
  rw [List.dropLast_append_of_ne_nil ht]
  exact List.prefix_append _ _

/-- the two formulations of closure agree -/
theorem prefixClosed_iff_parentClosed (rules : List TRule) : PrefixClosed rules ↔ ParentClosed rules := by
  constructor
  · intro h r hr hne
    refine h r hr _ (List.dropLast_prefix _) hne ?_
    intro e
    have := congrArg List.length e
    rw [List.length_dropLast] at this
    cases hp : r.partStrs with
    | nil => rw [hp] at hne; exact hne rfl
    | cons x xs => rw [hp] at this; simp at this
  · intro h
    have key : ∀ (n : Nat) (r : TRule), r ∈ rules → ∀ p, p <+: r.partStrs → p ≠ [] →
        r.partStrs.length = p.length + (n + 1) → ∃ r' ∈ rules, r'.partStrs = p := by
      intro n
      induction n with
      | zero =>
        intro r hr p hp hne hlen
        have hpre := prefix_dropLast_of_lt hp (by omega)
        have heq : p = r.partStrs.dropLast :=
          hpre.eq_of_length (by rw [List.length_dropLast]; omega)
        obtain ⟨r', hr', hk⟩ := h r hr (heq ▸ hne)
        exact ⟨r', hr', hk.trans heq.symm⟩
      | succ n ih =>
        intro r hr p hp hne hlen
        have hpre := prefix_dropLast_of_lt hp (by omega)
        have hdl : r.partStrs.dropLast ≠ [] := by
          intro e
          rw [e] at hpre
          exact hne (List.prefix_nil.1 hpre)
        obtain ⟨r', hr', hk⟩ := h r hr hdl
        exact ih r' hr' p (hk ▸ hpre) hne (by rw [hk, List.length_dropLast]; omega)
    intro r hr p hp hne hneq
    have hle := hp.length_le
    have hlt : p.length < r.partStrs.length := by
      rcases Nat.lt_or_ge p.length r.partStrs.length with h' | h'
      · exact h'
      · exact absurd (hp.eq_of_length (by omega)) hneq
    exact key (r.partStrs.length - p.length - 1) r hr p hp hne (by omega)

theorem parentClosed_subClosed (rules : List TRule) (h : ParentClosed rules) : C20H.SubClosed [] rules := by
  intro r hr _ hne
  obtain ⟨r', hr', hk⟩ := h r hr hne
  exact ⟨r', hr', C20H.Sel_nil r', hk⟩

/-- what the examples compare: per node its path strings, rule index, `required` flag and parent.
    (`Except` has no decidable equality; `List.mergeSort` does not reduce in the kernel, so concrete
    trees are evaluated through `C20H.toTreeFlat_eq_K`: the same function with an insertion sort,
    proved equal because the node paths are distinct and the order is total.) -/
def flatSummary : Except Exc (List TItem) → Option (List (List String × Option Nat × Option Bool × Int))
  | .ok l => some (l.map (fun it => (it.pathStr, it.rule, it.required, it.parent)))
  | .error _ => none

def isKeyError : Except Exc (List TItem) → Bool
  | .error .keyError => true
  | _ => false

/-! ### (a) the tree is produced -/

/-- **(a)** the tree of a schema with prefix-closed rule paths is produced without error.
    The key nodes created from `allowed_keys` / `required_keys` conditions need no hypothesis: their
    parent is the rule's own node.  The implicitly typed parent `to_tree` creates for a rule is the
    rule's path minus one component, which closure makes a rule path too. -/
theorem C20_tree_total (rules : List TRule) (h : PrefixClosed rules) :
    ∃ flat, toTreeFlat rules [] none none = .ok flat := by
  rw [C20H.toTreeFlat_none]
  exact C20H.gen_total rules [] (parentClosed_subClosed rules ((prefixClosed_iff_parentClosed rules).1 h))

/-- … and without closure it may fail: a single rule at `a.b.c` gets an implicitly typed parent `a.b`
    whose parent `a` is missing (`KeyError` in `to_tree`) -/
def orphanRule : TRule :=
  { partStrs := ["a", "b", "c"], simpleDisp := ["a", "b", "c"], implTypes := ["MAP", "MAP", "MAP"], lastBare := "",
    cond := .leaf { cls := "Value", fn := "is_instance", keyStrs := [], keyDisp := [] } }

example : isKeyError (toTreeFlat [orphanRule] [] none none) = true := by
  rw [C20H.toTreeFlat_eq_K]; decide +kernel

example : ¬ PrefixClosed [orphanRule] := by
  intro h
  obtain ⟨r', hr', hk⟩ := h orphanRule (by simp) ["a"] ⟨["b", "c"], rfl⟩ (by simp) (by simp [orphanRule])
  simp only [List.mem_singleton] at hr'
  subst hr'
  simp [orphanRule] at hk

/-- closure is sufficient, not necessary: thanks to the implicitly typed parent a lone rule at `a.b`
    still gives a tree (nodes `a` – carrying no rule – and `a.b`) -/
def loneRule : TRule :=
  { partStrs := ["a", "b"], simpleDisp := ["a", "b"], implTypes := ["MAP", "MAP"], lastBare := "",
    cond := .leaf { cls := "Value", fn := "is_instance", keyStrs := [], keyDisp := [] } }

example : flatSummary (toTreeFlat [loneRule] [] none none) =
    some [(["a"], none, none, -1), (["a", "b"], some 0, none, 0)] := by
  rw [C20H.toTreeFlat_eq_K]; decide +kernel

/-! ### what the flat tree is: the items, sorted, with parents -/

theorem flat_assigned (rules : List TRule) (flat : List TItem) (h : toTreeFlat rules [] none none = .ok flat) :
    C20H.Assigned rules [] flat := by
  unfold C20H.Assigned
  rw [← C20H.toTreeFlat_none]; exact h

/-- one node per path: the paths of the nodes of the tree are pairwise distinct -/
theorem C20_tree_paths_nodup (rules : List TRule) (flat : List TItem) (h : toTreeFlat rules [] none none = .ok flat) :
    (flat.map (·.pathStr)).Nodup :=
  C20H.gen_paths_nodup rules [] flat (flat_assigned rules flat h)

/-- … and they are in Python's order of tuples of strings -/
theorem C20_tree_sorted (rules : List TRule) (flat : List TItem) (h : toTreeFlat rules [] none none = .ok flat) :
    flat.Pairwise (fun a b => keyLe a.pathStr b.pathStr = true) :=
  C20H.gen_sorted rules [] flat (flat_assigned rules flat h)

/-! ### (b) each rule appears exactly once -/

/-- a node never carries a rule index out of range; the node that carries rule `j` sits at that
    rule's path and shows that rule's (simplified) path – no hypothesis on the schema -/
theorem C20_tree_rule_index_sound (rules : List TRule) (flat : List TItem)
    (h : toTreeFlat rules [] none none = .ok flat) :
    ∀ it ∈ flat, ∀ j, it.rule = some j →
      ∃ r, rules[j]? = some r ∧ it.pathStr = r.partStrs ∧ it.path = some r.simpleDisp := by
  intro it hit j hj
  obtain ⟨r, hr, _, hk, hp⟩ := C20H.gen_rule_index_sound rules [] flat (flat_assigned rules flat h) it hit j hj
  exact ⟨r, hr, hk, hp⟩

/-- **(b)** with one rule per path, every rule appears exactly once: exactly one node carries the
    index `i` (hence that rule's condition and doc); it sits at the rule's path and shows the rule's
    simplified path -/
theorem C20_tree_each_rule_once (rules : List TRule) (flat : List TItem)
    (h : toTreeFlat rules [] none none = .ok flat) (hd : DistinctPaths rules) :
    ∀ (i : Nat) (r : TRule), rules[i]? = some r →
      flat.countP (fun it => it.rule == some i) = 1 ∧
      ∃ it ∈ flat, it.rule = some i ∧ it.pathStr = r.partStrs ∧ it.path = some r.simpleDisp := by
  intro i r hir
  exact C20H.gen_each_rule_once rules [] flat (flat_assigned rules flat h) hd i r hir (C20H.Sel_nil r)

/-- without the hypothesis the statement is false: of two rules with the same path only the later one
    appears (`item["condition"] = rule.condition` overwrites) -/
def twinRules : List TRule :=
  [{ partStrs := ["a"], simpleDisp := ["a"], implTypes := ["MAP"], lastBare := "",
     cond := .leaf { cls := "Value", fn := "is_instance", keyStrs := [], keyDisp := [] } },
   { partStrs := ["a"], simpleDisp := ["a"], implTypes := ["MAP"], lastBare := "",
     cond := .leaf { cls := "Value", fn := "in_", keyStrs := [], keyDisp := [] } }]

/-- the tree of `twinRules`: the implicitly typed root and one node `a` carrying rule 1 – no node
    carries rule 0 -/
example : flatSummary (toTreeFlat twinRules [] none none) =
    some [([], none, none, -1), (["a"], some 1, none, 0)] := by
  rw [C20H.toTreeFlat_eq_K]; decide +kernel

/-! ### (c) parents -/

/-- **(c)** every node's parent reference is `-1` – and then its path has at most one component –
    or the index of an earlier node whose path is the node's path without its last component -/
theorem C20_tree_parents (rules : List TRule) (flat : List TItem) (h : toTreeFlat rules [] none none = .ok flat) :
    ∀ (i : Nat) (it : TItem), flat[i]? = some it →
      (it.parent = -1 ∧ it.pathStr.dropLast = []) ∨
      (∃ (j : Nat) (p : TItem), j < i ∧ it.parent = (j : Int) ∧ flat[j]? = some p ∧
        p.pathStr = it.pathStr.dropLast) :=
  C20H.gen_parents rules [] flat (flat_assigned rules flat h)

/-- the parent is the only node with that path -/
theorem C20_tree_parent_unique (rules : List TRule) (flat : List TItem) (h : toTreeFlat rules [] none none = .ok flat)
    (j j' : Nat) (p p' : TItem) (hj : flat[j]? = some p) (hj' : flat[j']? = some p')
    (hk : p.pathStr = p'.pathStr) : j = j' :=
  C20H.gen_index_unique rules [] flat (flat_assigned rules flat h) j j' p p' hj hj' hk

/-! ### (d) the `required` flag -/

/-- the key strings a key condition names (`to_tree` walks the arguments of the condition; the
    harness hands in their string and display forms as two lists of the same length) -/
def TLeaf.keys (l : TLeaf) : List String := (l.keyStrs.zip l.keyDisp).map (·.1)

theorem TLeaf.keys_eq (l : TLeaf) (h : l.keyStrs.length = l.keyDisp.length) : TLeaf.keys l = l.keyStrs := by
  unfold TLeaf.keys
  rw [List.map_fst_zip]
  omega

/-- the node path `q` is named by a condition `fn` (`"required_keys"` / `"allowed_keys"`) of a rule
    whose condition is always applicable: `q` is that rule's path plus one of the condition's keys -/
def KeyNamedBy (rules : List TRule) (fn : String) (q : List String) : Prop :=
  ∃ r ∈ rules, r.cond.alwaysApplicable = true ∧ ∃ l ∈ r.cond.leaves, l.fn = fn ∧
    ∃ k ∈ TLeaf.keys l, q = r.partStrs ++ [k]

theorem keyNamedBy_iff (rules : List TRule) (fn : String) (q : List String) :
    KeyNamedBy rules fn q ↔ C20H.KeyNamedIn [] rules fn q := by
  constructor
  · rintro ⟨r, hr, ha, l, hl, hfn, k, hk, hq⟩
    exact ⟨r, hr, C20H.Sel_nil r, ha, l, hl, hfn, k, hk, hq⟩
  · rintro ⟨r, hr, _, ha, l, hl, hfn, k, hk, hq⟩
    exact ⟨r, hr, ha, l, hl, hfn, k, hk, hq⟩

/-- **(d)** the `required` flag of every node, for every schema (no closure or distinctness needed):
    * `True`  exactly when an always-applicable `required_keys` condition names the node's path –
      whatever `allowed_keys` conditions name it too, before or after, in the same or another rule,
      and whether or not a rule describes the node itself (the update keeps the flag);
    * `False` exactly when only always-applicable `allowed_keys` conditions name it;
    * absent  exactly when no always-applicable key condition names it (in particular a key named
      only under `or` / `xor` is not flagged). -/
theorem C20_tree_required_iff (rules : List TRule) (flat : List TItem)
    (h : toTreeFlat rules [] none none = .ok flat) :
    ∀ it ∈ flat,
      (it.required = some true ↔ KeyNamedBy rules "required_keys" it.pathStr) ∧
      (it.required = some false ↔
        KeyNamedBy rules "allowed_keys" it.pathStr ∧ ¬ KeyNamedBy rules "required_keys" it.pathStr) ∧
      (it.required = none ↔
        ¬ KeyNamedBy rules "allowed_keys" it.pathStr ∧ ¬ KeyNamedBy rules "required_keys" it.pathStr) := by
  intro it hit
  simp only [keyNamedBy_iff]
  exact C20H.gen_required_iff rules [] flat (flat_assigned rules flat h) it hit

/-- … and every named key has a node (so the characterisation is not vacuous) -/
theorem C20_tree_named_key_has_node (rules : List TRule) (flat : List TItem)
    (h : toTreeFlat rules [] none none = .ok flat) (q : List String)
    (hq : KeyNamedBy rules "required_keys" q ∨ KeyNamedBy rules "allowed_keys" q) :
    ∃ it ∈ flat, it.pathStr = q := by
  simp only [keyNamedBy_iff] at hq
  exact C20H.gen_named_has_node rules [] flat (flat_assigned rules flat h) q hq

/-- the reading of the property text: the node of key `k` below the rule path `p` is flagged required
    iff a rule at `p` with an always-applicable condition has a `required_keys` leaf naming `k` -/
theorem C20_tree_required_key (rules : List TRule) (flat : List TItem)
    (h : toTreeFlat rules [] none none = .ok flat) (p : List String) (k : String) :
    (∃ it ∈ flat, it.pathStr = p ++ [k] ∧ it.required = some true) ↔
      ∃ r ∈ rules, r.partStrs = p ∧ r.cond.alwaysApplicable = true ∧
        ∃ l ∈ r.cond.leaves, l.fn = "required_keys" ∧ k ∈ TLeaf.keys l := by
  constructor
  · rintro ⟨it, hit, hk, hreq⟩
    obtain ⟨r, hr, ha, l, hl, hfn, k', hk', hq⟩ := ((C20_tree_required_iff rules flat h it hit).1).1 hreq
    rw [hk] at hq
    obtain ⟨e1, e2⟩ := List.append_inj' hq rfl
    have : k = k' := by simpa using e2
    subst this
    exact ⟨r, hr, e1.symm, ha, l, hl, hfn, hk'⟩
  · rintro ⟨r, hr, hp, ha, l, hl, hfn, hk⟩
    have hnamed : KeyNamedBy rules "required_keys" (p ++ [k]) := ⟨r, hr, ha, l, hl, hfn, k, hk, by rw [hp]⟩
    obtain ⟨it, hit, hq⟩ := C20_tree_named_key_has_node rules flat h _ (Or.inl hnamed)
    exact ⟨it, hit, hq, ((C20_tree_required_iff rules flat h it hit).1).2 (hq ▸ hnamed)⟩

/-! ### (e) flat and nested forms -/

/-- **(e)** the nested form of the tree of a schema contains exactly the nodes of the flat form -/
theorem C20_tree_nested_same_nodes (rules : List TRule) (flat : List TItem)
    (h : toTreeFlat rules [] none none = .ok flat) :
    ((toTreeNested flat).flatMap TNode.flatten).Perm flat := by
  apply C20_nested_same_nodes
  intro i it hi
  rcases C20_tree_parents rules flat h i it hi with ⟨hp, _⟩ | ⟨j, p, hj, hp, _, _⟩
  · rw [hp]; omega
  · rw [hp]; omega

/-! ### the nodes, exactly; the exact condition for (a); the root -/

/-- the paths of the nodes `to_tree` creates: the path of a rule; that path plus a key named by an
    always-applicable `allowed_keys` / `required_keys` condition of the rule; the implicitly typed
    parent of a rule whose path has implicit types (the root for a one-part path, else the path
    minus its last component) -/
def NodePath (rules : List TRule) (q : List String) : Prop :=
  ∃ r ∈ rules,
    q = r.partStrs ∨
    (r.cond.alwaysApplicable = true ∧ ∃ l ∈ r.cond.leaves, (l.fn = "allowed_keys" ∨ l.fn = "required_keys") ∧
      ∃ k ∈ TLeaf.keys l, q = r.partStrs ++ [k]) ∨
    (r.implTypes ≠ [] ∧ q = if r.implTypes.length == 1 then [] else r.partStrs.dropLast)

theorem nodePath_iff (rules : List TRule) (q : List String) : NodePath rules q ↔ C20H.NodeKey [] rules q := by
  constructor
  · rintro ⟨r, hr, h⟩
    exact ⟨r, hr, C20H.Sel_nil r, h⟩
  · rintro ⟨r, hr, _, h⟩
    exact ⟨r, hr, h⟩

/-- the node paths of the tree are exactly these -/
theorem C20_tree_nodes (rules : List TRule) (flat : List TItem) (h : toTreeFlat rules [] none none = .ok flat)
    (q : List String) : (∃ it ∈ flat, it.pathStr = q) ↔ NodePath rules q := by
  rw [nodePath_iff]
  exact C20H.gen_keys_exact rules [] flat (flat_assigned rules flat h) q

/-- the exact condition under which `to_tree()` does not raise (for (a): prefix-closed rule paths
    are sufficient, `C20_tree_total`; what the function needs is that the *node* paths are closed) -/
theorem C20_tree_total_iff (rules : List TRule) :
    (∃ flat, toTreeFlat rules [] none none = .ok flat) ↔
      ∀ q, NodePath rules q → q.dropLast = [] ∨ NodePath rules q.dropLast := by
  rw [C20H.toTreeFlat_none]
  simp only [nodePath_iff]
  exact C20H.gen_total_iff rules []

/-- with a root node (a rule at the empty path, say) the flat tree starts with it, it is the only
    node without a parent, and the nested form has exactly one top-level node -/
theorem C20_tree_single_root (rules : List TRule) (flat : List TItem) (h : toTreeFlat rules [] none none = .ok flat)
    (hroot : ∃ r ∈ rules, r.partStrs = []) :
    (∃ root rest, flat = root :: rest ∧ root.pathStr = [] ∧ root.parent = -1 ∧
      ∀ it ∈ rest, 0 ≤ it.parent ∧ it.pathStr ≠ []) ∧
    (toTreeNested flat).length = 1 := by
  obtain ⟨r, hr, hk⟩ := hroot
  have hnode : ∃ it ∈ flat, it.pathStr = [] :=
    (C20_tree_nodes rules flat h []).2 ⟨r, hr, Or.inl hk.symm⟩
  obtain ⟨root, rest, rfl, h1, h2, h3⟩ := C20H.gen_single_root rules [] flat (flat_assigned rules flat h) hnode
  refine ⟨⟨root, rest, rfl, h1, h2, h3⟩, ?_⟩
  unfold toTreeNested
  rw [List.length_map, ← List.countP_eq_length_filter]
  have hsnd : (List.zip (List.range (root :: rest).length) (root :: rest)).map (·.2) = root :: rest := by
    rw [List.map_snd_zip]; simp
  have : List.countP (fun ix : Nat × TItem => ix.2.parent == -1) (List.zip (List.range (root :: rest).length) (root :: rest)) =
      List.countP (fun it : TItem => it.parent == -1) (root :: rest) := by
    conv => rhs; rw [← hsnd]
    rw [List.countP_map]
    rfl
  rw [this, List.countP_cons_of_pos (by simp [h2])]
  have : rest.countP (fun it : TItem => it.parent == -1) = 0 := by
    rw [List.countP_eq_zero]
    intro it hit hp
    have h0 := (h3 it hit).1
    have : it.parent = -1 := by simpa using hp
    omega
  rw [this]

/-! ### the property, composed -/

/-- **C20, first half.**  For a schema with prefix-closed rule paths, one rule per path:
    the tree is produced; every rule appears exactly once, at its path; no other rule index appears;
    paths are distinct; every parent precedes its child and is its path prefix; flat and nested forms
    have the same nodes; the `required` flag is characterised. -/
theorem C20_tree (rules : List TRule) (hc : PrefixClosed rules) (hd : DistinctPaths rules) :
    ∃ flat, toTreeFlat rules [] none none = .ok flat ∧
      (∀ (i : Nat) (r : TRule), rules[i]? = some r →
        flat.countP (fun it => it.rule == some i) = 1 ∧
        ∃ it ∈ flat, it.rule = some i ∧ it.pathStr = r.partStrs ∧ it.path = some r.simpleDisp) ∧
      (∀ it ∈ flat, ∀ j, it.rule = some j → j < rules.length) ∧
      (flat.map (·.pathStr)).Nodup ∧
      (∀ (i : Nat) (it : TItem), flat[i]? = some it →
        (it.parent = -1 ∧ it.pathStr.dropLast = []) ∨
        (∃ (j : Nat) (p : TItem), j < i ∧ it.parent = (j : Int) ∧ flat[j]? = some p ∧
          p.pathStr = it.pathStr.dropLast)) ∧
      ((toTreeNested flat).flatMap TNode.flatten).Perm flat ∧
      (∀ it ∈ flat,
        (it.required = some true ↔ KeyNamedBy rules "required_keys" it.pathStr) ∧
        (it.required = some false ↔
          KeyNamedBy rules "allowed_keys" it.pathStr ∧ ¬ KeyNamedBy rules "required_keys" it.pathStr) ∧
        (it.required = none ↔
          ¬ KeyNamedBy rules "allowed_keys" it.pathStr ∧ ¬ KeyNamedBy rules "required_keys" it.pathStr)) := by
  obtain ⟨flat, h⟩ := C20_tree_total rules hc
  refine ⟨flat, h, C20_tree_each_rule_once rules flat h hd, ?_, C20_tree_paths_nodup rules flat h,
    C20_tree_parents rules flat h, C20_tree_nested_same_nodes rules flat h, C20_tree_required_iff rules flat h⟩
  intro it hit j hj
  obtain ⟨r, hr, _⟩ := C20_tree_rule_index_sound rules flat h it hit j hj
  exact C20H.getElem?_lt hr

/-! ### the sub-tree below a path (`to_tree(from_path=…)`)

  `fromStr` are the string forms of the parts of `from_path`, `s` / `d` the string and display form
  of its last component, which `to_tree` puts back on to every node at the end.  Only the rules
  whose path starts with `fromStr` take part; their nodes are keyed by the rest of the path. -/

/-- the rule paths of the sub-tree are prefix-closed, its root included: for every rule below
    `fromStr`, every proper prefix of its path that still starts with `fromStr` is a rule path
    (the root rule is needed here: `to_tree` reads `item["path"]` of every node when it puts the last
    component of `from_path` back, and an implicitly typed node no rule describes has none) -/
def SubtreePrefixClosed (fromStr : List String) (rules : List TRule) : Prop :=
  ∀ r ∈ rules, fromStr <+: r.partStrs → ∀ p, fromStr <+: p → p <+: r.partStrs → p ≠ r.partStrs →
    ∃ r' ∈ rules, r'.partStrs = p

theorem sel_iff_prefix (fromStr : List String) (r : TRule) : C20H.Sel fromStr r ↔ fromStr <+: r.partStrs := by
  unfold C20H.Sel
  rw [List.prefix_iff_eq_take]
  exact eq_comm

theorem sel_split (fromStr : List String) (r : TRule) (h : C20H.Sel fromStr r) :
    r.partStrs = fromStr ++ C20H.rel fromStr r := by
  unfold C20H.Sel at h
  unfold C20H.rel
  have := List.take_append_drop fromStr.length r.partStrs
  rw [h] at this
  exact this.symm

theorem subtreePrefixClosed_closed (fromStr : List String) (rules : List TRule)
    (h : SubtreePrefixClosed fromStr rules) : C20H.SubtreeClosed fromStr rules := by
  intro r hr hs hne
  have hsplit := sel_split fromStr r hs
  obtain ⟨r', hr', hk⟩ := h r hr ((sel_iff_prefix fromStr r).1 hs) (fromStr ++ (C20H.rel fromStr r).dropLast)
    (List.prefix_append _ _)
    (by rw [hsplit, List.prefix_append_right_inj]; exact List.dropLast_prefix _)
    (by
      intro e
      rw [hsplit] at e
      have := congrArg List.length (List.append_cancel_left e)
      rw [List.length_dropLast] at this
      cases hrel : C20H.rel fromStr r with
      | nil => exact hne hrel
      | cons x xs => rw [hrel] at this; simp at this)
  have hs' : C20H.Sel fromStr r' := by
    rw [sel_iff_prefix, hk]; exact List.prefix_append _ _
  refine ⟨r', hr', hs', ?_⟩
  have := sel_split fromStr r' hs'
  rw [hk] at this
  exact (List.append_cancel_left this).symm

/-- the sub-tree of a schema whose rule paths below `from_path` are closed is produced -/
theorem C20_subtree_total (rules : List TRule) (fromStr : List String) (s d : String)
    (h : SubtreePrefixClosed fromStr rules) :
    ∃ flat, toTreeFlat rules fromStr (some s) (some d) = .ok flat := by
  have hc := subtreePrefixClosed_closed fromStr rules h
  obtain ⟨lst, hl⟩ := C20H.gen_total rules fromStr hc.subClosed
  exact ⟨lst.map (C20H.reattach s d), (C20H.toTreeFlat_some_ok_iff rules fromStr s d _).2
    ⟨lst, hl, C20H.gen_paths_some rules fromStr lst hl hc, rfl⟩⟩

/-- … and without the root rule of the sub-tree it fails: below `a`, the rule at `a.b` gives the
    root node of the sub-tree (its implicitly typed parent) no `path` -/
example : isKeyError (toTreeFlat [loneRule] ["a"] (some "a") (some "a")) = true := by
  rw [C20H.toTreeFlat_eq_K]; decide +kernel

/-- every rule below `from_path` appears exactly once, at its path (with the last component of
    `from_path` in front); a rule that is not below `from_path` does not appear; a rule index that
    appears is in range -/
theorem C20_subtree_each_rule_once (rules : List TRule) (fromStr : List String) (s d : String) (flat : List TItem)
    (h : toTreeFlat rules fromStr (some s) (some d) = .ok flat) (hd : DistinctPaths rules) :
    (∀ (i : Nat) (r : TRule), rules[i]? = some r → fromStr <+: r.partStrs →
      flat.countP (fun it => it.rule == some i) = 1 ∧
      ∃ it ∈ flat, it.rule = some i ∧ it.pathStr = s :: r.partStrs.drop fromStr.length ∧
        it.path = some (d :: r.simpleDisp.drop fromStr.length)) ∧
    (∀ (i : Nat) (r : TRule), rules[i]? = some r → ¬ fromStr <+: r.partStrs →
      flat.countP (fun it => it.rule == some i) = 0) ∧
    (∀ it ∈ flat, ∀ j, it.rule = some j → j < rules.length) := by
  obtain ⟨lst, hl, _, rfl⟩ := (C20H.toTreeFlat_some_ok_iff rules fromStr s d flat).1 h
  have hcount : ∀ i, (lst.map (C20H.reattach s d)).countP (fun it => it.rule == some i) =
      lst.countP (fun it => it.rule == some i) := by
    intro i
    rw [List.countP_map]
    rfl
  refine ⟨?_, ?_, ?_⟩
  · intro i r hir hpre
    obtain ⟨hc, it, hit, hr, hk, hp⟩ :=
      C20H.gen_each_rule_once rules fromStr lst hl hd i r hir ((sel_iff_prefix fromStr r).2 hpre)
    refine ⟨by rw [hcount]; exact hc, C20H.reattach s d it, List.mem_map.2 ⟨it, hit, rfl⟩, hr, ?_, ?_⟩
    · show s :: it.pathStr = _
      rw [hk]; rfl
    · show it.path.map (d :: ·) = _
      rw [hp]; rfl
  · intro i r hir hpre
    rw [hcount]
    exact C20H.gen_unselected_absent rules fromStr lst hl i r hir (fun hs => hpre ((sel_iff_prefix fromStr r).1 hs))
  · intro it hit j hj
    obtain ⟨it0, h0, rfl⟩ := List.mem_map.1 hit
    obtain ⟨r, hr, _⟩ := C20H.gen_rule_index_sound rules fromStr lst hl it0 h0 j hj
    exact C20H.getElem?_lt hr

/-- every node of the sub-tree carries the last component of `from_path` in front; its parent
    reference is `-1` (for the root of the sub-tree and, if there is none, for the nodes directly
    below it) or the index of an earlier node whose path is the node's path without its last component;
    node paths are distinct -/
theorem C20_subtree_parents (rules : List TRule) (fromStr : List String) (s d : String) (flat : List TItem)
    (h : toTreeFlat rules fromStr (some s) (some d) = .ok flat) :
    (flat.map (·.pathStr)).Nodup ∧
    ∀ (i : Nat) (it : TItem), flat[i]? = some it →
      (∃ q, it.pathStr = s :: q ∧ it.path.isSome = true) ∧
      ((it.parent = -1 ∧ it.pathStr.length ≤ 2) ∨
       (∃ (j : Nat) (p : TItem), j < i ∧ it.parent = (j : Int) ∧ flat[j]? = some p ∧
         p.pathStr = it.pathStr.dropLast)) := by
  obtain ⟨lst, hl, hsome, rfl⟩ := (C20H.toTreeFlat_some_ok_iff rules fromStr s d flat).1 h
  constructor
  · have hn := C20H.gen_paths_nodup rules fromStr lst hl
    have : (lst.map (C20H.reattach s d)).map (·.pathStr) = (lst.map (·.pathStr)).map (s :: ·) := by
      rw [List.map_map, List.map_map]; rfl
    rw [this]
    exact List.Pairwise.map (s :: ·) (fun a b hab e => hab (List.cons.inj e).2) hn
  · intro i it hi
    rw [List.getElem?_map] at hi
    cases hi0 : lst[i]? with
    | none => rw [hi0] at hi; cases hi
    | some it0 =>
      rw [hi0] at hi
      simp only [Option.map_some, Option.some.injEq] at hi
      subst hi
      have hp0 : it0.path.isSome = true := by
        cases hp : it0.path with
        | some v => rfl
        | none =>
          have : lst.any (fun i => i.path.isNone) = true :=
            List.any_eq_true.2 ⟨it0, List.mem_of_getElem? hi0, by simp [hp]⟩
          rw [hsome] at this; cases this
      refine ⟨⟨it0.pathStr, rfl, ?_⟩, ?_⟩
      · show (it0.path.map (d :: ·)).isSome = true
        rw [Option.isSome_map]; exact hp0
      · rcases C20H.gen_parents rules fromStr lst hl i it0 hi0 with ⟨hpar, hdl⟩ | ⟨j, p, hj, hpar, hpj, hpk⟩
        · left
          refine ⟨hpar, ?_⟩
          show (s :: it0.pathStr).length ≤ 2
          have := congrArg List.length hdl
          rw [List.length_dropLast] at this
          simp only [List.length_cons, List.length_nil] at this ⊢
          omega
        · right
          refine ⟨j, C20H.reattach s d p, hj, hpar, by rw [List.getElem?_map, hpj]; rfl, ?_⟩
          show s :: p.pathStr = (s :: it0.pathStr).dropLast
          cases hq : it0.pathStr with
          | nil =>
            -- then `p` has the empty path too: `p` and the node are the same node, but `j < i`
            exfalso
            rw [hq] at hpk
            have := C20H.gen_index_unique rules fromStr lst hl j i p it0 hpj hi0 (by rw [hpk, hq]; rfl)
            omega
          | cons x xs =>
            rw [hpk, hq]
            rfl

/-- flat and nested forms of the sub-tree contain the same nodes -/
theorem C20_subtree_nested_same_nodes (rules : List TRule) (fromStr : List String) (s d : String) (flat : List TItem)
    (h : toTreeFlat rules fromStr (some s) (some d) = .ok flat) :
    ((toTreeNested flat).flatMap TNode.flatten).Perm flat := by
  apply C20_nested_same_nodes
  intro i it hi
  rcases ((C20_subtree_parents rules fromStr s d flat h).2 i it hi).2 with ⟨hp, _⟩ | ⟨j, p, hj, hp, _, _⟩
  · rw [hp]; omega
  · rw [hp]; omega

/-- the `required` flag in the sub-tree: as in the whole tree, but only the rules below `from_path`
    count (a key of the sub-tree's root that is named by the rule above it is not flagged) -/
theorem C20_subtree_required_iff (rules : List TRule) (fromStr : List String) (s d : String) (flat : List TItem)
    (h : toTreeFlat rules fromStr (some s) (some d) = .ok flat) :
    ∀ it ∈ flat, ∃ q, it.pathStr = s :: q ∧
      (it.required = some true ↔ C20H.KeyNamedIn fromStr rules "required_keys" q) ∧
      (it.required = some false ↔
        C20H.KeyNamedIn fromStr rules "allowed_keys" q ∧ ¬ C20H.KeyNamedIn fromStr rules "required_keys" q) ∧
      (it.required = none ↔
        ¬ C20H.KeyNamedIn fromStr rules "allowed_keys" q ∧ ¬ C20H.KeyNamedIn fromStr rules "required_keys" q) := by
  obtain ⟨lst, hl, _, rfl⟩ := (C20H.toTreeFlat_some_ok_iff rules fromStr s d flat).1 h
  intro it hit
  obtain ⟨it0, h0, rfl⟩ := List.mem_map.1 hit
  exact ⟨it0.pathStr, rfl, C20H.gen_required_iff rules fromStr lst hl it0 h0⟩

/-! ### a concrete schema (the theorems are not vacuous) -/

def exLeaf (fn : String) (ks : List String) : TLeaf := { cls := "Value", fn := fn, keyStrs := ks, keyDisp := ks }

/-- rules at `()`, `("a",)`, `("a", "b")`, `("a", [])`; the root rule has the condition
    `required_keys("a") & allowed_keys("a", "c")` -/
def exRules : List TRule :=
  [{ partStrs := [], simpleDisp := [], implTypes := [], lastBare := "",
     cond := .bin "and" (.leaf (exLeaf "required_keys" ["a"])) (.leaf (exLeaf "allowed_keys" ["a", "c"])) },
   { partStrs := ["a"], simpleDisp := ["a"], implTypes := ["MAP"], lastBare := "",
     cond := .leaf (exLeaf "is_instance" []) },
   { partStrs := ["a", "b"], simpleDisp := ["a", "b"], implTypes := ["MAP", "MAP"], lastBare := "",
     cond := .leaf (exLeaf "is_instance" []) },
   { partStrs := ["a", "[]"], simpleDisp := ["a", "[]"], implTypes := ["MAP", "LIST"], lastBare := "list",
     cond := .leaf (exLeaf "is_instance" []) }]

/-- its tree: five nodes – the four rules, each once, and the key node `c`; `a` is both the node of
    rule 1 and a key node of rule 0: it keeps rule 1 and is flagged required; `c` is not required -/
theorem exRules_tree : flatSummary (toTreeFlat exRules [] none none) =
    some [([], some 0, none, -1), (["a"], some 1, some true, 0), (["a", "[]"], some 3, none, 1),
      (["a", "b"], some 2, none, 1), (["c"], none, some false, 0)] := by
  rw [C20H.toTreeFlat_eq_K]; decide +kernel

/-- the sub-tree below `a`: the rules 1, 2, 3; the flag of `a` comes from the rule above and is gone -/
theorem exRules_subtree : flatSummary (toTreeFlat exRules ["a"] (some "a") (some "a")) =
    some [(["a"], some 1, none, -1), (["a", "[]"], some 3, none, 0), (["a", "b"], some 2, none, 0)] := by
  rw [C20H.toTreeFlat_eq_K]; decide +kernel

theorem exRules_closed : PrefixClosed exRules := by
  rw [prefixClosed_iff_parentClosed]
  unfold ParentClosed
  decide

theorem exRules_distinct : DistinctPaths exRules := by
  unfold DistinctPaths
  decide

/-- the composed theorem applies -/
example : ∃ flat, toTreeFlat exRules [] none none = .ok flat ∧
    (∀ (i : Nat) (r : TRule), exRules[i]? = some r → flat.countP (fun it => it.rule == some i) = 1) ∧
    ((toTreeNested flat).flatMap TNode.flatten).Perm flat := by
  obtain ⟨flat, h, h1, _, _, _, h5, _⟩ := C20_tree exRules exRules_closed exRules_distinct
  exact ⟨flat, h, fun i r hi => (h1 i r hi).1, h5⟩

example : ∃ flat, toTreeFlat exRules [] none none = .ok flat ∧ (toTreeNested flat).length = 1 := by
  obtain ⟨flat, h⟩ := C20_tree_total exRules exRules_closed
  exact ⟨flat, h, (C20_tree_single_root exRules flat h ⟨exRules[0], by simp [exRules], rfl⟩).2⟩

/-- … and so does the characterisation of `required`: `a` is named by `required_keys`, `c` only by
    `allowed_keys` -/
example : KeyNamedBy exRules "required_keys" ["a"] :=
  ⟨exRules[0], by simp [exRules], by decide, exLeaf "required_keys" ["a"], by simp [exRules, TCond.leaves],
    rfl, "a", by decide, rfl⟩

example : KeyNamedBy exRules "allowed_keys" ["c"] ∧ ¬ KeyNamedBy exRules "required_keys" ["c"] := by
  obtain ⟨flat, h⟩ := C20_tree_total exRules exRules_closed
  have hs := exRules_tree
  rw [h] at hs
  -- the node `c` of the tree has `required = some false`
  have hc : ∃ it ∈ flat, it.pathStr = ["c"] ∧ it.required = some false := by
    simp only [flatSummary, Option.some.injEq] at hs
    have h4 : (flat.map (fun it => (it.pathStr, it.rule, it.required, it.parent)))[4]? =
        some (["c"], none, some false, 0) := by rw [hs]; rfl
    rw [List.getElem?_map] at h4
    cases hf : flat[4]? with
    | none => rw [hf] at h4; cases h4
    | some it =>
      rw [hf] at h4
      simp only [Option.map_some, Option.some.injEq, Prod.mk.injEq] at h4
      exact ⟨it, List.mem_of_getElem? hf, h4.1, h4.2.2.1⟩
  obtain ⟨it, hit, hk, hr⟩ := hc
  have := ((C20_tree_required_iff exRules flat h it hit).2.1).1 hr
  rw [hk] at this
  exact this

end ValidaProofs
