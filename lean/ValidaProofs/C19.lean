/-
  C19 – malformed specs are rejected with spec errors, never internal ones.

  `Allowed` lists what the property allows (the library's Malformed* errors, TypeError, ValueError);
  `keyError` only for a missing `path` / `condition` field of a rule spec.  The model's own
  pseudo-outcomes (`unmodelled`: non-ASCII text under `.lower()`, `recursion`: fuel exhausted) are
  listed explicitly.
-/
import Valida.Spec.Parse
import ValidaProofs.Lemmas.Basic
import ValidaProofs.Lemmas.C19Parsers
namespace ValidaProofs
open Valida ValidaGen

def Allowed (e : Exc) : Prop :=
  e = .malformedCond ∨ e = .malformedItem ∨ e = .malformedPath ∨ e = .malformedRule ∨
  e = .typeError ∨ e = .valueError ∨ e = .unmodelled ∨ e = .recursion

/-- the guards that turn internal errors into spec errors are present in the source -/
theorem C19_guards_in_source :
    condKeyStrGuard = true ∧ preProcStrict = true ∧ callableFromCtorTables = true ∧
    pathSpecRefusesEmpty = true ∧ pathSuffixWhitelist = true ∧ partSpecStrGuard = true ∧
    ruleSpecShapeChecks = true := by
  decide

/-- whatever structure is handed to the condition / part / path parsers, they accept it or reject it
    with an allowed error: no AttributeError, IndexError, StopIteration, KeyError, RuntimeError … -/
theorem C19_cond_allowed (fuel : Nat) (spec : PyVal) : ∀ e, parseCond fuel spec = .error e → Allowed e := by
  exact (C19L.parseCond_all fuel spec).h
theorem C19_path_spec_allowed (fuel : Nat) (spec : PyVal) : ∀ e, parsePathSpec fuel spec = .error e → Allowed e := by
  exact ((C19L.parsers_all fuel).2.2.1 spec).h
theorem C19_part_specs_allowed (fuel : Nat) (parts : List PyVal) : ∀ e, fromPartSpecs fuel parts = .error e → Allowed e := by
  exact (C19L.fromPartSpecs_all fuel parts).h
theorem C19_part_allowed (fuel : Nat) (spec : List (PyVal × PyVal)) : ∀ e, parsePart fuel spec = .error e → Allowed e := by
  exact ((C19L.parsers_all fuel).2.2.2.2 spec).h

/-- a rule spec: additionally `KeyError` exactly when `path` or `condition` is missing -/
theorem C19_rule_allowed (fuel : Nat) (spec : PyVal) :
    ∀ e, parseRule fuel spec = .error e →
      Allowed e ∨ (e = .keyError ∧ ∃ kvs, spec = .dict kvs ∧
        (Py.dictGet (.str "path") kvs = none ∨ Py.dictGet (.str "condition") kvs = none)) := by
  exact C19L.parseRule_err fuel spec

/-! ### definite errors are rejected -/

theorem C19_unknown_datum_kind (fuel : Nat) (v : PyVal) :
    parseCond (fuel + 1) (.dict [(.str "foo.equal_to", v)]) = .error .malformedCond ∧
    parseCond (fuel + 1) (.dict [(.str "values.eq", v)]) = .error .malformedCond := by
  exact ⟨rfl, rfl⟩
theorem C19_unknown_preprocessor (fuel : Nat) (v : PyVal) :
    parseCond (fuel + 1) (.dict [(.str "value.size.eq", v)]) = .error .malformedCond ∧
    parseCond (fuel + 1) (.dict [(.str "value.__class__.mro", v)]) = .error .malformedCond ∧
    parseCond (fuel + 1) (.dict [(.str "index.length.eq", v)]) = .error .malformedCond := by
  exact ⟨rfl, rfl, rfl⟩
theorem C19_unknown_callable (fuel : Nat) (n : Int) :
    parseCond (fuel + 1) (.dict [(.str "value.equals", .int n)]) = .error .malformedCond ∧
    parseCond (fuel + 1) (.dict [(.str "value.mro", .none)]) = .error .malformedCond ∧
    parseCond (fuel + 1) (.dict [(.str "value.from_spec", .int n)]) = .error .malformedCond ∧
    parseCond (fuel + 1) (.dict [(.str "index.keys_contain", .int n)]) = .error .malformedCond := by
  exact ⟨rfl, rfl, rfl, rfl⟩
theorem C19_wrong_arity (fuel : Nat) (v : PyVal) :
    parseCond (fuel + 1) (.dict [(.str "value", v)]) = .error .malformedCond ∧
    parseCond (fuel + 1) (.dict [(.str "value.length.eq.x", v)]) = .error .malformedCond ∧
    parseCond (fuel + 1) (.dict [(.str "value.length", v)]) = .error .malformedCond := by
  exact ⟨rfl, rfl, rfl⟩
theorem C19_unknown_type_name (fuel : Nat) :
    parseCond (fuel + 1) (.dict [(.str "value.dtype.equal_to", .str "integer")]) = .error .malformedCond ∧
    parseCond (fuel + 1) (.dict [(.str "value.is_instance", .list [.str "int", .str "strr"])]) = .error .malformedCond := by
  exact ⟨rfl, rfl⟩
-- STATEMENT CHANGED: the last two conjuncts read `parseCond (fuel + 2) …`; they are false for `fuel = 0`.
-- A list argument is sniffed item by item for nested path specs, which costs one more level of nesting:
-- `parseCond 2 → sniffArg 1 (.list [.int n]) → parsePathSpec 0 (.int n) = .error .recursion`, so
-- `parseCond 2 (.dict [(.str "value.items_contain", .list [.int n])]) = .error .recursion` and likewise
-- for `"value.in_range"` (both checked below).  Repaired by one more unit of fuel on these two conjuncts.
theorem C19_wrong_argument_shape (fuel : Nat) (n : Int) :
    parseCond (fuel + 2) (.dict [(.str "value.in_range", .int n)]) = .error .malformedCond ∧
    parseCond (fuel + 2) (.dict [(.str "value.keys_contain_any_of", .str "a")]) = .error .malformedCond ∧
    parseCond (fuel + 3) (.dict [(.str "value.items_contain", .list [.int n])]) = .error .malformedCond ∧
    parseCond (fuel + 3) (.dict [(.str "value.in_range", .list [.int n])]) = .error .typeError := by
  exact ⟨rfl, rfl, rfl, rfl⟩
/-- the counterexamples to the original fuel bound of `C19_wrong_argument_shape` -/
example (n : Int) :
    parseCond 2 (.dict [(.str "value.items_contain", .list [.int n])]) = .error .recursion ∧
    parseCond 2 (.dict [(.str "value.in_range", .list [.int n])]) = .error .recursion :=
  ⟨rfl, rfl⟩
theorem C19_non_string_key (fuel : Nat) (n : Int) (v : PyVal) :
    parseCond (fuel + 1) (.dict [(.int n, v)]) = .error .malformedCond := by
  rfl
theorem C19_path_spec_errors (fuel : Nat) (v : PyVal) :
    parsePathSpec (fuel + 1) (.dict []) = .error .malformedPath ∧
    parsePathSpec (fuel + 1) (.dict [(.str "paths", v)]) = .error .malformedPath ∧
    parsePathSpec (fuel + 1) (.dict [(.str "path.a.b.c", v)]) = .error .malformedPath ∧
    parsePathSpec (fuel + 1) (.dict [(.int 1, v)]) = .error .malformedPath ∧
    parsePathSpec (fuel + 1) (.list [v]) = .error .malformedPath ∧
    parsePathSpec (fuel + 3) (.dict [(.str "path.simplify", .list [.str "a"])]) = .error .malformedPath ∧
    parsePathSpec (fuel + 3) (.dict [(.str "path.none", .list [.str "a"])]) = .error .malformedPath := by
  exact ⟨rfl, rfl, rfl, rfl, rfl, rfl, rfl⟩
theorem C19_part_errors (fuel : Nat) (n : Int) :
    parsePart (fuel + 1) [(.str "type", .str "set_value")] = .error .typeError ∧
    parsePart (fuel + 1) [(.str "type", .str "map_value"), (.str "keyy", .int n)] = .error .valueError ∧
    parsePart (fuel + 1) [(.str "type", .str "map_value"), (.int n, .int n)] = .error .valueError ∧
    parsePart (fuel + 3) [(.str "type", .str "map_value"), (.str "key", .dict [(.str "value.eq", .int n)])] = .error .valueError ∧
    parsePart (fuel + 3) [(.str "type", .str "list_value"), (.str "value", .dict [(.str "index.eq", .int n)])] = .error .valueError := by
  exact ⟨rfl, rfl, rfl, rfl, rfl⟩
theorem C19_rule_errors (fuel : Nat) (c p : PyVal) :
    parseRule fuel (.dict [(.str "condition", c)]) = .error .keyError ∧
    parseRule (fuel + 2) (.dict [(.str "path", .list [])]) = .error .keyError ∧
    parseCasts (some (.dict [(.str "string", .str "int")])) = .error .malformedRule ∧
    parseCasts (some (.dict [(.str "str", .str "float")])) = .error .malformedRule ∧
    parseCasts (some (.dict [(.str "int", .str "str")])) = .error .malformedRule ∧
    parseCasts (some (.list [.str "str"])) = .error .malformedRule ∧
    normDoc (some (.int 5)) = .error .malformedRule ∧
    normDoc (some (.dict [(.str "description", .list [.int 1])])) = .error .malformedRule ∧
    normDoc (some (.dict [(.str "description", .dict [(.str "a", p)])])) = .error .malformedRule := by
  exact ⟨rfl, rfl, rfl, rfl, rfl, rfl, rfl, rfl, rfl⟩

end ValidaProofs
