/-
  C09 – condition specs mean exactly what the equivalent Python DSL expression means.

  `parseCond` transcribes `ConditionLike.from_spec`; `Dsl.call` / `buildLeaf` apply the constructor
  tables generated from `GeneralCallables` / `MapCallables`.
-/
import Valida.Spec.Parse
import ValidaProofs.Lemmas.Basic
namespace ValidaProofs
open Valida ValidaGen

/-! ### the constructor tables are coherent with the callables they construct -/

/-- every DSL constructor forwards its arguments in a way the target callable's signature accepts:
    keywords name parameters of the callable (or go to its `**`), positionals fit (or go to its `*`),
    and every parameter of the callable receives a value.  (A constructor storing `value=` for a
    callable taking `lower, upper` is what made `not_in_range` false on every item.) -/
def ctorBinds (c : Ctor) : Bool :=
  match sigOf c.target with
  | none => false
  | some sig =>
      c.fwdKw.all (fun kv => sig.params.contains kv.1 || sig.varKw) &&
      (c.fwdPos.length ≤ sig.params.length || sig.varPos) &&
      (!c.fwdStar || sig.varPos) && (!c.fwdStarStar || sig.varKw) &&
      sig.params.all (fun p => c.fwdKw.any (fun kv => kv.1 == p) ||
                               (sig.params.idxOf p < c.fwdPos.length))

theorem C09_ctor_tables_bind : (generalCtors ++ mapCtors).all ctorBinds = true := by
  decide +kernel

/-- every forwarded name is a parameter of the constructor itself -/
theorem C09_ctor_tables_closed :
    (generalCtors ++ mapCtors).all (fun c =>
      (c.fwdPos ++ c.fwdKw.map (·.2)).all (fun n => c.params.contains n)) = true := by
  decide +kernel

/-- the spec parser resolves callables in the constructor tables (case-insensitively), accepts only the
    listed pre-processor tokens, and refuses non-string keys – as read from the source -/
theorem C09_parser_flags : callableFromCtorTables = true ∧ preProcStrict = true ∧ condKeyStrGuard = true := by
  decide

/-- the alias tables: type/dtype, len/length, in/in_ -/
theorem C09_aliases :
    lookupStr "type" preProcLookup = some "dtype" ∧ lookupStr "dtype" preProcLookup = some "dtype" ∧
    lookupStr "len" preProcLookup = some "length" ∧ lookupStr "length" preProcLookup = some "length" ∧
    lookupStr "in" callableLookup = some "in_" ∧
    generalAliases = [("eq", "equal_to"), ("lt", "less_than"), ("gt", "greater_than"),
                      ("lte", "less_than_or_equal_to"), ("gte", "greater_than_or_equal_to")] := by
  decide +kernel

/-- type names in any letter case, `map` for `dict`, and the type objects themselves all convert to
    the same type -/
theorem C09_type_names :
    convType (.str "INT") = .ok (.type .int) ∧ convType (.str "Map") = .ok (.type .dict) ∧
    convType (.str "dict") = .ok (.type .dict) ∧ convType (.type .dict) = .ok (.type .dict) ∧
    convType (.str "Path") = .ok (.type .path) ∧ convType (.str "list") = .ok (.type .list) ∧
    convType (.str "str") = .ok (.type .str) ∧ convType (.str "FLOAT") = .ok (.type .float) ∧
    convType (.str "bool") = .ok (.type .bool) ∧ convType (.str "nope") = .error .malformedCond := by
  refine ⟨?_, ?_, ?_, ?_, ?_, ?_, ?_, ?_, ?_, ?_⟩ <;> rfl

/-! ### the parser -/

/-- a falsy spec (`{}`, `None`) is the null condition -/
theorem C09_null (fuel : Nat) (spec : PyVal) (h : PyVal.truthy spec = false) :
    parseCond (fuel + 1) spec = .ok Cond.null := by
  rw [parseCond.eq_def]; simp [h]

/-- and / or / xor lists fold from the left, starting from the null condition, with the same
    combination `&`, `|`, `^` build -/
theorem C09_fold (fuel : Nat) (specs : List PyVal) :
    parseCond (fuel + 1) (.dict [(.str "and", .list specs)]) =
      specs.foldlM (fun acc s => do let c ← parseCond fuel s; Cond.mkBin .and acc c) Cond.null ∧
    parseCond (fuel + 1) (.dict [(.str "or", .list specs)]) =
      specs.foldlM (fun acc s => do let c ← parseCond fuel s; Cond.mkBin .or acc c) Cond.null ∧
    parseCond (fuel + 1) (.dict [(.str "xor", .list specs)]) =
      specs.foldlM (fun acc s => do let c ← parseCond fuel s; Cond.mkBin .xor acc c) Cond.null := by
  exact ⟨rfl, rfl, rfl⟩

/-- letter case of the key does not matter: two (non-operator) keys whose dot-separated tokens agree
    after lower-casing parse to the same condition -/
theorem C09_case_insensitive (fuel : Nat) (k k' : String) (v : PyVal)
    (hk : lookupStr k binaryOps = none) (hk' : lookupStr k' binaryOps = none)
    (h : (splitDot k).mapM pyLower = (splitDot k').mapM pyLower) :
    parseCond fuel (.dict [(.str k, v)]) = parseCond fuel (.dict [(.str k', v)]) := by
  cases fuel with
  | zero => rfl
  | succ fuel =>
    -- one unfolding: the key is used only through `lookupStr · binaryOps` and `splitDot · |>.mapM pyLower`
    rw [parseCond.eq_2, parseCond.eq_2, hk, hk', h]
    simp only [PyVal.truthy, List.isEmpty_cons]

/-- a spec is rejected unless it is a mapping with exactly one key -/
-- STATEMENT CHANGED: the first conjunct read `∀ n, parseCond (fuel + 1) (.int (n + 1)) = .error .typeError`
-- where `n` elaborates to an `Int`; it is false for `n = -1`: `.int 0` is falsy, so
-- `parseCond (fuel + 1) (.int 0) = .ok Cond.null` (by `C09_null`).  Repaired with the weakest hypothesis
-- (the integer is non-zero, i.e. truthy); this covers every `.int (n + 1)` with `n + 1 ≠ 0`.
theorem C09_shape (fuel : Nat) :
    (∀ n : Int, n ≠ 0 → parseCond (fuel + 1) (.int n) = .error .typeError) ∧
    (∀ k v k' v' rest, parseCond (fuel + 1) (.dict ((k, v) :: (k', v') :: rest)) = .error .malformedCond) := by
  constructor
  · intro n hn
    rw [parseCond.eq_def]; simp [PyVal.truthy, hn]
  · intro k v k' v' rest
    rfl

/-! ### DSL calls -/

/-- what the constructors store (one representative per forwarding shape of the table) -/
theorem C09_dsl_rows (a b : Arg) (xs : List Arg) (kw : List (String × Arg)) :
    Dsl.call Arg.lit .value "equal_to" [a] [] =
      .ok (.leaf { cls := .value, fn := "equal_to", args := [], kwargs := [("value", a)] }) ∧
    Dsl.call Arg.lit .value "eq" [] [("value", a)] =
      .ok (.leaf { cls := .value, fn := "equal_to", args := [], kwargs := [("value", a)] }) ∧
    Dsl.call Arg.lit .keyLength "in_range" [a, b] [] =
      .ok (.leaf { cls := .keyLength, fn := "in_range", args := [], kwargs := [("lower", a), ("upper", b)] }) ∧
    Dsl.call Arg.lit .index "not_in_range" [a] [("upper", b)] =
      .ok (.leaf { cls := .index, fn := "not_in_range", args := [], kwargs := [("lower", a), ("upper", b)] }) ∧
    Dsl.call Arg.lit .value "is_instance" xs [] =
      .ok (.leaf { cls := .value, fn := "is_instance", args := xs, kwargs := [] }) ∧
    Dsl.call Arg.lit .value "truthy" [] [] =
      .ok (.leaf { cls := .value, fn := "truthy", args := [], kwargs := [] }) ∧
    Dsl.call Arg.lit .value "factor_of" [a] [] =
      .ok (.leaf { cls := .value, fn := "factor_of", args := [], kwargs := [("value", a)] }) ∧
    Dsl.call Arg.lit .key "keys_contain_N_of" [a, b] [] =
      .ok (.leaf { cls := .key, fn := "keys_contain_N_of", args := [], kwargs := [("N", a), ("keys", b)] }) ∧
    Dsl.call Arg.lit .index "keys_contain" [a] [] = .error .attributeError ∧
    Dsl.call Arg.lit .value "equal_to" [a, b] [] = .error .typeError ∧
    Dsl.call Arg.lit .value "equal_to" [] [] = .error .typeError := by
  refine ⟨rfl, rfl, rfl, rfl, ?_, rfl, rfl, rfl, rfl, rfl, rfl⟩
  -- var-positional: the number of arguments is symbolic
  have hc : findCtor .value "is_instance" = .ok
      { name := "is_instance", params := [], defaults := [], varPos := some "classes", varKw := none,
        target := "is_instance", fwdPos := [], fwdStar := true, fwdKw := [], fwdStarStar := false } := rfl
  simp [Dsl.call, hc, buildLeaf, bindCtorParams, bind, Except.bind, pure, Except.pure]

/-- the default tolerance of `equal_to_approx` is the double 1e-08: a normal double (53-bit mantissa
    `tol / 2^995`, i.e. spacing `2^995` in units of `2^-1074`) within half a spacing of `10^-8` -/
-- STATEMENT CHANGED: the bracket `tol * 10^8 ≤ scale ∧ scale < (tol + 1) * 10^8 + 10^8` is false for the
-- value in the table (the only `tol` satisfying the first conjunct): the double `1e-08` is
-- 0x1.5798ee2308c3ap-27 = 1.0000000000000000209…e-08 > 10^-8, so `tol * 10^8 - scale > 0` (a 1019-bit
-- number); doubles near 1e-08 are `2^995` units apart, not 1.  Corrected right-hand side: `tol` is the
-- double nearest to `10^-8`.
theorem C09_default_tolerance (a : Arg) :
    ∃ tol, Dsl.call Arg.lit .value "equal_to_approx" [a] [] =
      .ok (.leaf { cls := .value, fn := "equal_to_approx", args := [], kwargs := [("value", a), ("tolerance", .lit (.float tol))] })
      ∧ tol % 2 ^ 995 = 0 ∧ 2 ^ 1047 ≤ tol ∧ tol < 2 ^ 1048
      ∧ 2 * (tol * 100000000 - PyVal.scale) ≤ 2 ^ 995 * 100000000
      ∧ 2 * (PyVal.scale - tol * 100000000) ≤ 2 ^ 995 * 100000000 := by
  refine ⟨_, rfl, ?_, ?_, ?_, ?_, ?_⟩ <;> decide +kernel

/-- a spec and the DSL call it names give the same condition: scalar argument, one-parameter
    constructor of `Value` (the other rows are validated by the correspondence run) -/
theorem C09_spec_is_dsl_scalar (fuel : Nat) (n : Int) :
    parseCond (fuel + 3) (.dict [(.str "Value.Less_Than", .int n)]) = Dsl.call Arg.lit .value "less_than" [.lit (.int n)] [] ∧
    parseCond (fuel + 3) (.dict [(.str "value.LT", .int n)]) = Dsl.call Arg.lit .value "lt" [.lit (.int n)] [] ∧
    parseCond (fuel + 3) (.dict [(.str "key.len.eq", .int n)]) = Dsl.call Arg.lit .keyLength "eq" [.lit (.int n)] [] ∧
    parseCond (fuel + 3) (.dict [(.str "value.TYPE.equal_to", .str "Map")]) =
      Dsl.call Arg.lit .valueDataType "equal_to" [.lit (.type .dict)] [] ∧
    parseCond (fuel + 3) (.dict [(.str "index.in", .list [.int 0, .int n])]) =
      Dsl.call Arg.lit .index "in_" [.lit (.list [.int 0, .int n])] [] ∧
    parseCond (fuel + 3) (.dict [(.str "value.in_range", .list [.int 0, .int n])]) =
      Dsl.call Arg.lit .value "in_range" [.lit (.int 0), .lit (.int n)] [] ∧
    parseCond (fuel + 3) (.dict [(.str "value.in_range", .dict [(.str "upper", .int n), (.str "lower", .int 0)])]) =
      Dsl.call Arg.lit .value "in_range" [] [("upper", .lit (.int n)), ("lower", .lit (.int 0))] ∧
    parseCond (fuel + 3) (.dict [(.str "value.keys_contain_n_of", .list [.int n, .list [.str "a"]])]) =
      Dsl.call Arg.lit .value "keys_contain_N_of" [.lit (.int n), .lit (.list [.str "a"])] [] := by
  exact ⟨rfl, rfl, rfl, rfl, rfl, rfl, rfl, rfl⟩

end ValidaProofs
