/-
  ValidaSpec.Meaning — the documented meaning of the comparisons (DESIGN.md App. D), written as
  short declarative statements without looking at the control flow of valida/callables.py.
  `none` = the comparison is not defined for this datum (C01: the item does not satisfy).
-/
import Valida.Py.Ops
namespace ValidaSpec
open Valida
open PyVal (pyEq numKey scale hashable truthy instOf)

/-- what the property sees of a callable's outcome: a boolean, or "not defined" -/
def asBool : R → Option Bool
  | .ok (.bool v) => some v
  | _ => none

/-- the keys of a mapping -/
def keysOf : PyVal → Option (List PyVal)
  | .dict kvs => some (kvs.map (·.1))
  | _ => none

/-- `k ≃ a` for some `a ∈ ks` (Python `==`) -/
def MemEq (k : PyVal) (ks : List PyVal) : Prop := ∃ a ∈ ks, pyEq k a = true

instance (k : PyVal) (ks : List PyVal) : Decidable (MemEq k ks) := by
  unfold MemEq; infer_instance

/-! #### value comparisons -/

def equal_to (x v : PyVal) : Option Bool := some (pyEq x v)
def not_equal_to (x v : PyVal) : Option Bool := some (!pyEq x v)

/-- ordering is defined exactly where Python's rich comparison is -/
def ordered (op : Py.CmpOp) (x v : PyVal) : Option Bool := (Py.cmp op x v).toOption

/-- membership: in a list/tuple (never undefined), a substring (both strings), a key of a
    mapping (hashable datum) -/
def in_ (x c : PyVal) : Option Bool :=
  match c with
  | .list xs => some (decide (MemEq x xs))
  | .tuple xs => some (decide (MemEq x xs))
  | .str s => match x with
      | .str n => some (Py.isInfix n.toList s.toList)
      | _ => none
  | .dict kvs => if hashable x then some (decide (MemEq x (kvs.map (·.1)))) else none
  | _ => none

/-- `x in range(l, u)`: there is an integer `n` with `l ≤ n < u` and `x ≃ n` -/
def InRange (x : PyVal) (lo hi : Int) : Prop := ∃ n : Int, lo ≤ n ∧ n < hi ∧ pyEq x (.int n) = true

/-- truthiness -/
def truthy_ (x : PyVal) : Option Bool := some (truthy x)
def falsy_ (x : PyVal) : Option Bool := some (!truthy x)
def null_ (_ : PyVal) : Option Bool := some true

/-! #### key sets of mappings (defined for mappings with hashable keys and hashable arguments) -/

/-- every key of `x` is one of `ks` -/
def AllowedKeys (x : PyVal) (ks : List PyVal) : Prop :=
  ∃ xs, keysOf x = some xs ∧ ∀ k ∈ xs, MemEq k ks
/-- every one of `ks` is a key of `x` -/
def RequiredKeys (x : PyVal) (ks : List PyVal) : Prop :=
  ∃ xs, keysOf x = some xs ∧ ∀ k ∈ ks, MemEq k xs
/-- none of `ks` is a key of `x` -/
def ForbiddenKeys (x : PyVal) (ks : List PyVal) : Prop :=
  ∃ xs, keysOf x = some xs ∧ ∀ k ∈ ks, ¬ MemEq k xs

/-- the mapping-key comparisons are defined when `x` is a mapping and every key involved is hashable -/
def KeysDefined (x : PyVal) (ks : List PyVal) : Prop :=
  ∃ xs, keysOf x = some xs ∧ (∀ k ∈ xs, hashable k = true) ∧ (∀ k ∈ ks, hashable k = true)

/-- number of `ks` (with multiplicity) that are keys of `x` -/
def countPresent (xs ks : List PyVal) : Nat := ks.countP (fun k => decide (MemEq k xs))

end ValidaSpec
