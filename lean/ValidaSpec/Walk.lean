/-
  ValidaSpec.Walk — the part-by-part (depth-first) walk a data path *means*, and plain indexing of a
  document along a concrete path.  Written against one function only: `children part node`, the
  (key, child) pairs of `node` that `part` matches, in document order.
-/
import Valida.Py.Ops
namespace ValidaSpec
open Valida

variable {Part : Type}

/-- depth-first walk: every node reached by following the parts one at a time, each with the keys
    followed to reach it, in document order -/
def walk (children : Part → PyVal → List (PyVal × PyVal)) : List Part → PyVal → List PyVal → List (PyVal × List PyVal)
  | [], node, pre => [(node, pre)]
  | p :: ps, node, pre => (children p node).flatMap (fun kv => walk children ps kv.2 (pre ++ [kv.1]))

/-- `doc[k₁][k₂]…` for keys/indices that were read off the document: position-wise lookup -/
def childAt (node key : PyVal) : Option PyVal :=
  match node with
  | .dict kvs => Py.dictGet key kvs
  | .list xs => match Py.asInt key with
      | some i => if 0 ≤ i then xs[i.toNat]? else none
      | none => none
  | _ => none

def index : PyVal → List PyVal → Option PyVal
  | node, [] => some node
  | node, k :: ks => (childAt node k).bind (fun c => index c ks)

/-- a mapping whose keys are pairwise different (under `==`), recursively not required -/
def DistinctKeys (kvs : List (PyVal × PyVal)) : Prop :=
  kvs.Pairwise (fun a b => PyVal.pyEq a.1 b.1 = false)

end ValidaSpec
