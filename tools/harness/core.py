"""Shared machinery of the harness: batches of driver requests, comparison of observables, findings."""
import json
import os
import subprocess
import sys
import time

VERIF = os.path.abspath(os.path.join(os.path.dirname(os.path.abspath(__file__)), "..", ".."))
LEAN_DIR = os.path.join(VERIF, "lean")
DRIVER = os.path.join(LEAN_DIR, ".lake", "build", "bin", "driver")


class DriverError(Exception):
    pass


def run_driver(requests, timeout=600):
    """requests: list of JSON-able; returns list of decoded responses (same length)."""
    if not requests:
        return []
    inp = "\n".join(json.dumps(r, ensure_ascii=False) for r in requests) + "\n"
    p = subprocess.run([DRIVER], input=inp.encode("utf-8"), stdout=subprocess.PIPE, stderr=subprocess.PIPE,
                       timeout=timeout)
    if p.returncode != 0:
        raise DriverError(f"driver exit {p.returncode}: {p.stderr.decode()[:500]}")
    # one response per "\n"-terminated line (not `splitlines()`: U+0085, U+2028, \x0b … may occur inside JSON strings)
    lines = p.stdout.decode("utf-8").split("\n")
    if lines and lines[-1] == "":
        lines.pop()
    if len(lines) != len(requests):
        raise DriverError(f"driver produced {len(lines)} lines for {len(requests)} requests")
    return [json.loads(x) for x in lines]


class Case:
    """One generated case: a description (JSON-able, enough to replay), zero or more driver requests
    with the implementation's observable for each, and direct-predicate failures."""

    def __init__(self, kind, desc):
        try:
            import enc
            enc.reset_opaque()
        except ImportError:
            pass
        self.kind = kind
        self.desc = desc
        self.requests = []       # (request, impl_observable, label, comparator)
        self.direct = []         # list of (predicate name, detail) – the implementation contradicts the property
        self.features = set()    # for distinct_nontrivial counting
        self.nontrivial = False
        self.py = None           # optional runnable Python snippet

    def ask(self, request, impl_obs, label="", cmp=None):
        self.requests.append((request, impl_obs, label, cmp))

    def fail(self, name, detail):
        self.direct.append((name, detail))


def default_cmp(impl, model):
    """None if they agree, else a short reason.  Model pseudo-outcomes: UNMODELLED → skipped,
    FMT → the implementation may return a str or raise one of four errors."""
    if isinstance(model, dict) and "driver_error" in model:
        return "driver_error: " + model["driver_error"]
    if isinstance(model, list) and len(model) == 2 and model[0] == "exc":
        if model[1] == "UNMODELLED":
            return "SKIP"
        if model[1] == "RecursionError" and impl != model:
            # the model ran out of its fuel (the driver gives every parser 200) on a structure CPython's own
            # recursion limit still accommodates: the model declines, it does not predict
            return "SKIP"
        if model[1] == "FMT":
            if impl[0] == "exc" and impl[1] in ("TypeError", "ValueError", "KeyError", "OverflowError"):
                return None
            if impl[0] == "ok" and isinstance(impl[1], list) and impl[1][:1] == ["s"]:
                return None
            return "impl outcome not among printf outcomes"
    if impl == model:
        return None
    return "differ"


class Results:
    def __init__(self):
        self.cases = 0
        self.requests = 0
        self.skipped = 0
        self.divergences = []   # (case, label, request, impl, model, reason)
        self.direct = []        # (case, name, detail)
        self.features = set()
        self.nontrivial = 0
        self.samples = []
        self.counters = {}

    def count(self, key, n=1):
        self.counters[key] = self.counters.get(key, 0) + n


def run_cases(cases, results, sample_every=0):
    reqs = []
    index = []
    for ci, c in enumerate(cases):
        for ri, (req, impl, label, cmp) in enumerate(c.requests):
            reqs.append(req)
            index.append((ci, ri))
    resps = run_driver(reqs)
    for (ci, ri), model in zip(index, resps):
        c = cases[ci]
        req, impl, label, cmp = c.requests[ri]
        reason = (cmp or default_cmp)(impl, model)
        results.requests += 1
        if reason == "SKIP":
            results.skipped += 1
            results.count("skipped:" + label)
            continue
        if reason is not None:
            results.divergences.append((c, label, req, impl, model, reason))
    for c in cases:
        results.cases += 1
        for name, detail in c.direct:
            results.direct.append((c, name, detail))
        if c.nontrivial:
            new = c.features - results.features
            if new:
                results.nontrivial += 1
        results.features |= c.features
        if len(results.samples) < 6 and c.nontrivial and (results.cases % 97 == 1 or len(results.samples) < 2):
            results.samples.append({"kind": c.kind, "case": c.desc})


def now():
    return time.time()
