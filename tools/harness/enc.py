"""Tagged JSON encoding of Python values (DESIGN.md App. A) and of implementation objects as model terms.

Values:  ["n"] ["b",bool] ["i","<dec>"] ["f","<k dec>"] ["s",str] ["l",[..]] ["t",[..]] ["d",[[k,v]..]]
         ["T",typename] ["o",n]
A float is the exact integer k with value k * 2**-1074.
"""
import math
import pathlib
import sys

sys.path.insert(0, "/repo")

import valida.conditions as C  # noqa: E402
import valida.datapath as DP  # noqa: E402
from valida.rules import Rule  # noqa: E402

SCALE = 2 ** 1074

TYPE_NAMES = {
    type(None): "NoneType", bool: "bool", int: "int", float: "float", str: "str", list: "list",
    tuple: "tuple", dict: "dict", pathlib.Path: "path", type: "type",
}
NAME_TYPES = {v: k for k, v in TYPE_NAMES.items()}


class Unencodable(Exception):
    pass


def float_units(x):
    if math.isnan(x) or math.isinf(x):
        raise Unencodable("nan/inf")
    num, den = x.as_integer_ratio()
    k, r = divmod(num * SCALE, den)
    assert r == 0
    return k


def units_float(k):
    from fractions import Fraction
    return float(Fraction(k, SCALE))


_OPAQUE_PATHS = []


def reset_opaque():
    """forget the numbering of opaque objects (called when a new case starts: numbers only need to be
    consistent within one case)"""
    del _OPAQUE_PATHS[:]


def enc_val(v):
    if v is None:
        return ["n"]
    if v is True or v is False:
        return ["b", v]
    t = type(v)
    if t is int:
        return ["i", str(v)]
    if t is float:
        return ["f", str(float_units(v))]
    if t is str:
        return ["s", v]
    if t is list:
        return ["l", [enc_val(x) for x in v]]
    if t is tuple:
        return ["t", [enc_val(x) for x in v]]
    if t is dict:
        return ["d", [[enc_val(k), enc_val(x)] for k, x in v.items()]]
    if isinstance(v, type):
        if v in TYPE_NAMES:
            return ["T", TYPE_NAMES[v]]
        if v is DP.DataPath:
            return ["T", "obj"]
        raise Unencodable(f"type {v!r}")
    if isinstance(v, DP.DataPath):
        # an opaque object of the model: numbered by `==`-class (equal paths get the same number, unequal
        # ones different numbers), so that equality of conditions / parts / labels holding paths is preserved
        for i, q in enumerate(_OPAQUE_PATHS):
            try:
                if q == v and v == q:
                    return ["o", i]
            except Exception:  # noqa: BLE001
                pass
        _OPAQUE_PATHS.append(v)
        return ["o", len(_OPAQUE_PATHS) - 1]
    raise Unencodable(f"value of type {t.__name__}")


def dec_val(j):
    tag = j[0]
    if tag == "n":
        return None
    if tag == "b":
        return j[1]
    if tag == "i":
        return int(j[1])
    if tag == "f":
        return units_float(int(j[1]))
    if tag == "s":
        return j[1]
    if tag == "l":
        return [dec_val(x) for x in j[1]]
    if tag == "t":
        return tuple(dec_val(x) for x in j[1])
    if tag == "d":
        return {dec_val(k): dec_val(v) for k, v in j[1]}
    if tag == "T":
        return NAME_TYPES[j[1]]
    raise Unencodable(f"tag {tag}")


# ----------------------------------------------------------------------------------------------
# exceptions -> canonical names (message text is never compared)
# ----------------------------------------------------------------------------------------------

def exc_name(e):
    return type(e).__name__


class ImplTimeout(BaseException):
    pass


def _on_alarm(signum, frame):
    raise ImplTimeout()


def outcome(f, seconds=10.0):
    """Run f; ['ok', value] or ['exc', name].  An implementation call that does not return within
    `seconds` is the observable ['exc', 'TIMEOUT'] (a hang is a divergence with a replay, not an
    infrastructure error)."""
    import signal
    old = signal.signal(signal.SIGALRM, _on_alarm)
    signal.setitimer(signal.ITIMER_REAL, seconds)
    try:
        try:
            return ["ok", f()]
        finally:
            signal.setitimer(signal.ITIMER_REAL, 0)
            signal.signal(signal.SIGALRM, old)
    except ImplTimeout:
        return ["exc", "TIMEOUT"]
    except RecursionError:
        return ["exc", "RecursionError"]
    except Exception as e:  # noqa: BLE001
        return ["exc", exc_name(e)]


# ----------------------------------------------------------------------------------------------
# implementation objects -> model terms (introspection through the public attributes)
# ----------------------------------------------------------------------------------------------

CLASS_NAMES = ["Value", "ValueLength", "ValueDataType", "Key", "KeyLength", "KeyDataType", "Index",
               "NullCondition"]
BIN_OPS = {"ConditionAnd": "and", "ConditionOr": "or", "ConditionXor": "xor"}


def enc_arg(a):
    if isinstance(a, DP.DataPath):
        return ["path", enc_path(a)]
    return ["lit", enc_val(a)]


def enc_cond(c, depth=0, opaque_paths=False):
    """`opaque_paths`: conditions stored inside path parts are never given source data, so a data-path
    argument there is just an opaque object (as in the model)"""
    if depth > 60:
        raise Unencodable("condition too deep (cycle?)")
    name = type(c).__name__
    if name in BIN_OPS:
        ch = c.children
        return ["bin", BIN_OPS[name], enc_cond(ch[0], depth + 1, opaque_paths), enc_cond(ch[1], depth + 1, opaque_paths)]
    if name in CLASS_NAMES:
        pc = c.callable
        ea = (lambda a: ["lit", enc_val(a)]) if opaque_paths else enc_arg
        return ["leaf", name, pc.name, [ea(a) for a in pc.args],
                [[k, ea(v)] for k, v in pc.kwargs.items()]]
    raise Unencodable(f"condition class {name}")


NULL = ["leaf", "NullCondition", "null", [], []]


def enc_part(p):
    kind = {"MapValue": "map", "ListValue": "list", "MapOrListValue": "molv"}[type(p).__name__]
    lc = enc_cond(p.list_condition, 0, True) if kind == "molv" else NULL
    mc = enc_cond(p.map_condition, 0, True) if kind == "molv" else NULL
    return ["part", kind, enc_cond(p.condition, 0, True), lc, mc, None if p.label is None else enc_val(p.label)]


def enc_path(p):
    src = p.source_data
    if src is not None and not isinstance(src, (dict, list)):
        src = src.original
    return ["path", [enc_part(x) for x in p.parts], bool(p.is_concrete), p.DATUM_TYPE.name,
            p.MULTI_TYPE.name, None if src is None else enc_val(src)]


CAST_FN_NAMES = {"cast_string_to_bool": "cast_string_to_bool", "int": "int"}


def enc_rule(r):
    casts = []
    for k, v in (r.cast or {}).items():
        casts.append([TYPE_NAMES[k], getattr(v, "__name__", repr(v))])
    return ["rule", enc_path(r.path), enc_cond(r.condition), casts]


# ----------------------------------------------------------------------------------------------
# model terms -> implementation objects, through the public constructors only
# ----------------------------------------------------------------------------------------------

import valida.callables as CALLS  # noqa: E402

CLS = {n: getattr(C, n) for n in CLASS_NAMES}
BIN_CLS = {"and": C.ConditionAnd, "or": C.ConditionOr, "xor": C.ConditionXor}


def build_arg(a):
    if a[0] == "lit":
        return dec_val(a[1])
    return build_path(a[1])


def build_cond(t):
    """`raw` construction: Cls(callables.fn, *args, **kwargs) / BinCls(a, b)."""
    if t[0] == "bin":
        return BIN_CLS[t[1]](build_cond(t[2]), build_cond(t[3]))
    _, cls, fn, args, kwargs = t
    if cls == "NullCondition":
        return C.NullCondition()
    return CLS[cls](getattr(CALLS, fn), *[build_arg(a) for a in args], **{k: build_arg(v) for k, v in kwargs})


def build_part(t):
    _, kind, cond, lc, mc, label = t
    label = None if label is None else dec_val(label)
    if kind == "map":
        return DP.MapValue(condition=build_cond(cond), label=label)
    if kind == "list":
        return DP.ListValue(condition=build_cond(cond), label=label)
    return DP.MapOrListValue(condition=build_cond(cond), list_condition=build_cond(lc),
                             map_condition=build_cond(mc), label=label)


DATUM_METHODS = {"DTYPE": "dtype", "LENGTH": "length", "MAP_KEYS": "map_keys", "MAP_VALUES": "map_values"}
MULTI_METHODS = {"FIRST": "first", "LAST": "last", "SINGLE": "single", "ALL": "all", "ANY": "any"}


def build_path(t, prims=None):
    """Rebuild a path from its term.  A term does not remember which parts were given as primitives;
    `prims` (list of bool per part, with the primitive recoverable from the part) may say so –
    otherwise the parts are passed as part objects and `is_concrete` is forced afterwards only if
    the term says the path is concrete (all parts primitive-shaped)."""
    _, parts, concrete, datum, multi, source = t
    if concrete:
        args = [prim_of_part(p) for p in parts]
    else:
        args = [build_part(p) for p in parts]
    src = None if source is None else dec_val(source)
    p = DP.DataPath(*args, source_data=src)
    if datum != "NONE":
        p = getattr(p, DATUM_METHODS[datum])()
    if multi != "NONE":
        p = getattr(p, MULTI_METHODS[multi])()
    return p


def prim_of_part(t):
    """The primitive a concrete path's part was built from."""
    _, kind, cond, lc, mc, label = t
    if kind == "map":
        return dec_val(cond[4][0][1][1])
    if kind == "molv":
        return dec_val(lc[4][0][1][1])
    raise Unencodable("list part in a concrete path")


def build_rule(t):
    _, path, cond, casts = t
    import valida.casting as casting
    cast = None
    if casts:
        cast = {}
        for ft, fn in casts:
            cast[NAME_TYPES[ft]] = {"cast_string_to_bool": casting.cast_string_to_bool, "int": int}[fn]
    return Rule(build_path(path), build_cond(cond), cast=cast)
