#!/usr/bin/env python3
"""Parse condition specs in a FRESH interpreter, in the order given (one encoded spec per input line), and print
one outcome per line: what a spec means must not depend on which specs the process has parsed before."""
import copy
import json
import os
import sys
import warnings

sys.path.insert(0, os.path.dirname(os.path.abspath(__file__)))
sys.path.insert(0, "/repo")
warnings.simplefilter("ignore")

import enc  # noqa: E402
from valida.conditions import ConditionLike  # noqa: E402


def main():
    for line in sys.stdin:
        line = line.strip()
        if not line:
            continue
        spec = enc.dec_val(json.loads(line))
        enc.reset_opaque()
        o = enc.outcome(lambda: ConditionLike.from_spec(copy.deepcopy(spec)))
        if o[0] == "ok":
            try:
                o = ["ok", enc.enc_cond(o[1])]
            except enc.Unencodable:
                o = ["ok", repr(o[1])]
        print(json.dumps(o), flush=True)


if __name__ == "__main__":
    main()
