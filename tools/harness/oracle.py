"""The documented meaning of the 32 comparisons (DESIGN.md App. D), written independently of
valida/callables.py.  `meaning(fn, x, pos, kw)` returns True / False, or None when the comparison is not
defined for the datum `x` (C01: the item then counts as not satisfying).

This is the Python twin of lean/ValidaSpec/Meaning.lean and is used by the direct property
predicates (failing-input search): it never looks at the implementation."""
import math

NUM = (int, float)  # bool is an int


def is_num(v):
    return isinstance(v, NUM)


def inst_of(x, t):
    """`isinstance(x, t)` by its documented meaning: `t` a type, or a tuple of such (nested tuples allowed, the empty
    tuple matches nothing), scanned left to right; true at the first match, undefined (None) on reaching anything else"""
    if isinstance(t, tuple):
        for u in t:
            r = inst_of(x, u)
            if r is None:
                return None
            if r:
                return True
        return False
    if not isinstance(t, type):
        return None
    return isinstance(x, t)


def hashable(v):
    try:
        hash(v)
        return True
    except TypeError:
        return False


def is_mapping(v):
    return isinstance(v, dict)


def comparable(a, b):
    """< is defined: numbers, two strings, two lists / two tuples whose first differing pair is comparable"""
    if is_num(a) and is_num(b):
        return True
    if isinstance(a, str) and isinstance(b, str):
        return True
    for t in (list, tuple):
        if type(a) is t and type(b) is t:
            for x, y in zip(a, b):
                if x != y:
                    return comparable(x, y)
            return True
    return False


class Unbound(Exception):
    pass


def bind(names, pos, kw, star=False, starstar=False):
    """bind stored positional / keyword arguments to documented parameter names; Unbound if they do not fit"""
    vals = {}
    pos = list(pos)
    if len(pos) > len(names) and not star:
        raise Unbound
    for n, v in zip(names, pos):
        vals[n] = v
    rest = pos[len(names):]
    extra = {}
    for k, v in kw.items():
        if k in names:
            if k in vals:
                raise Unbound
            vals[k] = v
        elif starstar:
            extra[k] = v
        else:
            raise Unbound
    if any(n not in vals for n in names):
        raise Unbound
    return vals, rest, extra


FIRST_PARAM = {}
for _n in ("equal_to not_equal_to less_than greater_than less_than_or_equal_to greater_than_or_equal_to in_ not_in "
           "in_range not_in_range factor_of has_factor equal_to_approx truthy falsy is_instance").split():
    FIRST_PARAM[_n] = "trial_datum"
FIRST_PARAM["null"] = "trial_data"


def count_present(x, ks):
    """#{k in ks | k in keys(x)} with multiplicity; None if undefined"""
    try:
        it = list(ks)
    except TypeError:
        return None
    n = 0
    for k in it:
        if not is_mapping(x) or not hashable(k):
            return None
        n += k in x
    return n


def meaning(fn, x, pos, kw):
    try:
        return _meaning(fn, x, pos, kw)
    except Unbound:
        return None
    except OverflowError:
        # an integer beyond the double range meets a float: outside the documented domain (App. D)
        return None


def _meaning(fn, x, pos, kw):
    if FIRST_PARAM.get(fn, "trial_dict") in kw:
        raise Unbound
    if fn in ("equal_to", "not_equal_to"):
        v = bind(["value"], pos, kw)[0]["value"]
        return (x == v) if fn == "equal_to" else not (x == v)
    if fn in ("less_than", "greater_than", "less_than_or_equal_to", "greater_than_or_equal_to"):
        v = bind(["value"], pos, kw)[0]["value"]
        if not comparable(x, v):
            return None
        return {"less_than": x < v, "greater_than": x > v, "less_than_or_equal_to": x <= v,
                "greater_than_or_equal_to": x >= v}[fn]
    if fn in ("in_", "not_in"):
        c = bind(["value"], pos, kw)[0]["value"]
        if isinstance(c, (list, tuple)):
            r = any(x == e for e in c)
        elif isinstance(c, str):
            if not isinstance(x, str):
                return None
            r = x in c
        elif isinstance(c, dict):
            if not hashable(x):
                return None
            r = x in c
        else:
            return None
        return r if fn == "in_" else not r
    if fn in ("in_range", "not_in_range"):
        b = bind(["lower", "upper"], pos, kw)[0]
        lo, hi = b["lower"], b["upper"]
        if type(lo) not in (int, bool) or type(hi) not in (int, bool):
            return None
        r = is_num(x) and not (isinstance(x, float) and (math.isinf(x) or math.isnan(x))) \
            and x == math.floor(x) and lo <= x < hi
        return r if fn == "in_range" else not r
    if fn == "equal_to_approx":
        b = bind(["value", "tolerance"], pos, kw)[0]
        v, tol = b["value"], b["tolerance"]
        if not (is_num(x) and is_num(v) and is_num(tol)):
            return None
        return abs(x - v) < tol
    if fn in ("factor_of", "has_factor"):
        v = bind(["value"], pos, kw)[0]["value"]
        if not (is_num(x) and is_num(v)):
            return None
        num, den = (v, x) if fn == "factor_of" else (x, v)
        if den == 0:
            return None
        return num % den == 0
    if fn == "truthy":
        bind([], pos, kw)
        return bool(x)
    if fn == "falsy":
        bind([], pos, kw)
        return not bool(x)
    if fn == "null":
        bind([], pos, kw)
        return True
    if fn == "is_instance":
        _, ts, _ = bind([], pos, kw, star=True)
        return inst_of(x, tuple(ts))
    if fn == "keys_contain":
        k = bind(["key"], pos, kw)[0]["key"]
        if not is_mapping(x) or not hashable(k):
            return None
        return k in x
    if fn in ("keys_contain_any_of", "keys_contain_all_of"):
        _, ks, _ = bind([], pos, kw, star=True)
        for k in ks:
            if not is_mapping(x) or not hashable(k):
                return None
            if (k in x) == (fn == "keys_contain_any_of"):
                return fn == "keys_contain_any_of"
        return fn == "keys_contain_all_of"
    if fn in ("keys_contain_N_of", "keys_contain_at_least_N_of", "keys_contain_at_most_N_of"):
        b = bind(["N", "keys"], pos, kw)[0]
        n = count_present(x, b["keys"])
        if n is None:
            return None
        N = b["N"]
        if fn == "keys_contain_N_of":
            return n == N
        if not is_num(N):
            return None
        return n >= N if fn == "keys_contain_at_least_N_of" else n <= N
    if fn == "keys_contain_one_of":
        _, ks, _ = bind([], pos, kw, star=True)
        n = count_present(x, ks)
        return None if n is None else n == 1
    if fn in ("keys_contain_at_least_one_of", "keys_contain_at_most_one_of"):
        ks = bind(["keys"], pos, kw)[0]["keys"]
        n = count_present(x, ks)
        if n is None:
            return None
        return n >= 1 if fn == "keys_contain_at_least_one_of" else n <= 1
    if fn in ("keys_equal_to", "allowed_keys", "required_keys", "forbidden_keys"):
        _, ks, _ = bind([], pos, kw, star=True)
        if not is_mapping(x) or not all(hashable(k) for k in ks):
            return None
        xs = list(x.keys())
        sub = all(any(a == k for a in ks) for k in xs)       # keys(x) ⊆ ks
        sup = all(any(a == k for a in xs) for k in ks)       # ks ⊆ keys(x)
        if fn == "keys_equal_to":
            return sub and sup
        if fn == "allowed_keys":
            return sub
        if fn == "required_keys":
            return sup
        return not any(any(a == k for a in xs) for k in ks)
    if fn == "keys_is_instance":
        _, ts, _ = bind([], pos, kw, star=True)
        if not is_mapping(x):
            return None
        for k in x.keys():
            ok = inst_of(k, tuple(ts))
            if ok is None:
                return None
            if not ok:
                return False
        return True
    if fn == "items_contain":
        _, _, items = bind([], pos, kw, starstar=True)
        for k, v in items.items():
            if not is_mapping(x):
                return None
            if k not in x or not (x[k] == v):
                return False
        return True
    raise KeyError(fn)


def preproc(pre, datum):
    """('ok', value) or None when the pre-processor is not defined for the datum"""
    if pre == "":
        return ("ok", datum)
    if pre == "len":
        if isinstance(datum, (str, list, tuple, dict)):
            return ("ok", len(datum))
        return None
    if pre == "type":
        return ("ok", type(datum))
    raise KeyError(pre)
