"""C03 – path resolution selects exactly the nodes a part-by-part walk reaches (and C04's observables
when `modifiers=True`)."""
import warnings

import enc
import terms
from core import Case
from gen import Gen

import valida.datapath as DP
from valida.data import Data

warnings.simplefilter("ignore")

DATUM = {"DTYPE": "dtype", "LENGTH": "length", "MAP_KEYS": "map_keys", "MAP_VALUES": "map_values"}
MULTI = {"FIRST": "first", "LAST": "last", "SINGLE": "single", "ALL": "all", "ANY": "any"}


def enc_result(v):
    """get_data result, type-exact"""
    return enc.enc_val(v)


EQUAL_VALUES = [1, True, 1.0, 0, False, 0.0, 2, 2.0, "1", "true", None]
CAST_STRINGS = ["1", "0", "12", "-3", " 7 ", "+5", "1_0", "true", "TRUE", "False", "false", "abc", "", "1.5", "tru", "x1", "None",
                "inf", "-Infinity", " inf ", "1e999", "nan", "3.0", "1e3"]


def gen_doc_for_parts(g, parts, leaf=None):
    """a document in which the path has a fair chance to select something; `leaf` draws the selected nodes"""
    r = g.r
    if (r.random() < 0.35 and leaf is None) or not parts:
        return g.doc()
    mode = r.random()

    def build(i):
        if i == len(parts):
            if leaf is not None and r.random() < 0.8:
                return leaf()
            if mode < 0.2:
                return r.choice(EQUAL_VALUES)       # siblings that compare equal but differ in type
            return g.value(1)
        p = parts[i]
        n_extra = r.choice([0, 1, 2])
        if p[0] == "prim":
            v = p[1]
            if isinstance(v, (str, float)) or (r.random() < 0.5 and not isinstance(v, bool)):
                d = {}
                for _ in range(n_extra):
                    d[g.key()] = g.value(1)
                if r.random() < 0.85:
                    d[v] = build(i + 1)
                items = list(d.items())
                r.shuffle(items)
                return dict(items) or {g.key(): g.value(1)}
            n = max(int(v) + 1 if isinstance(v, int) and 0 <= int(v) < 4 else 1, 1) + n_extra
            lst = [g.value(1) for _ in range(n)]
            if isinstance(v, int) and 0 <= int(v) < n and r.random() < 0.85:
                lst[int(v)] = build(i + 1)
            return lst
        kind = p[0]
        as_list = kind == "list" or (kind == "molv" and r.random() < 0.5)
        n = r.choice([1, 2, 3])
        if as_list:
            return [build(i + 1) if r.random() < 0.7 else g.value(1) for _ in range(n)]
        d = {}
        for _ in range(n):
            d[g.key()] = build(i + 1) if r.random() < 0.7 else g.value(1)
        return d
    doc = build(0)
    if not isinstance(doc, (list, dict)) or not doc:
        return g.doc()
    return doc


def datum_apply(name, v):
    if name == "DTYPE":
        return type(v)
    if name == "LENGTH":
        return len(v)
    if name == "MAP_KEYS":
        return list(v.keys())
    if name == "MAP_VALUES":
        return list(v.values())
    return v


def make_case(parts, doc, datum="NONE", multi="NONE", order="dm", label=""):
    desc = {"parts": [terms.part_desc(p) for p in parts], "doc": enc.enc_val(doc), "datum": datum, "multi": multi,
            "order": order}
    c = Case("get", desc)
    parts_py = ", ".join(terms.part_py(p) for p in parts)
    mods = ""
    seq = [("d", datum), ("m", multi)] if order == "dm" else [("m", multi), ("d", datum)]
    for kind, name in seq:
        if name != "NONE":
            mods += "." + (DATUM if kind == "d" else MULTI)[name] + "()"
    c.py = ("from valida.conditions import *\nfrom valida.datapath import *\nimport pathlib\n"
            f"print(DataPath({parts_py}){mods}.get_data({terms.repr_py(doc)}, return_paths=True))")
    # ---- constructors (K: mkpart / mkpath) ------------------------------------------------------
    objs = []
    for p in parts:
        if p[0] == "prim":
            objs.append(p[1])
            continue
        o = enc.outcome(lambda p=p: terms.build_part(p))
        kind, d = p
        req = ["mkpart", kind,
               terms_spec(d["key"]), terms_spec(d["index"]), terms_spec(d["value"]),
               terms_cond(d["list_condition"]), terms_cond(d["map_condition"]), terms_cond(d["condition"]),
               None if d["label"] is None else enc.enc_val(d["label"])]
        if o[0] == "ok":
            objs.append(o[1])
            c.ask(req, ["ok", enc.enc_part(o[1])], "mkpart")
        else:
            c.ask(req, o, "mkpart")
            if o[1] != "TypeError":
                c.fail("part_constructor", f"constructor raised {o[1]}")
            return c
    po = enc.outcome(lambda: DP.DataPath(*objs))
    req = ["mkpath", [["prim", enc.enc_val(o)] if not isinstance(o, DP.ContainerValue) else ["part", enc.enc_part(o)]
                      for o in objs]]
    if po[0] != "ok":
        c.ask(req, po, "mkpath")
        c.fail("path_constructor", f"DataPath raised {po[1]}")
        return c
    path = po[1]
    c.ask(req, ["ok", enc.enc_path(path)], "mkpath")
    base = path
    # ---- modifiers -------------------------------------------------------------------------------
    mod_exc = None
    for kind, name in seq:
        if name == "NONE":
            continue
        o = enc.outcome(lambda: getattr(path, (DATUM if kind == "d" else MULTI)[name])())
        if o[0] != "ok":
            mod_exc = o[1]
            break
        path = o[1]
    if mod_exc is not None:
        # multiplicity modifiers are refused on concrete paths (ValueError); nothing else may fail
        if not (multi != "NONE" and base.is_concrete and mod_exc == "ValueError"):
            c.fail("modifier", f"applying modifiers raised {mod_exc}")
        else:
            c.features.add(("refused", multi))
        return c
    if multi != "NONE" and base.is_concrete:
        c.fail("modifier", "a multiplicity modifier was accepted on a concrete path")
    term = enc.enc_path(path)
    # ---- resolution: K ---------------------------------------------------------------------------
    got_p = enc.outcome(lambda: enc_result(path.get_data(doc, return_paths=True)))
    got_v = enc.outcome(lambda: enc_result(path.get_data(doc, return_paths=False)))
    c.ask(["get", term, enc.enc_val(doc), True], got_p, "get")
    c.ask(["get", term, enc.enc_val(doc), False], got_v, "get")
    # ---- direct predicates -------------------------------------------------------------------------
    exp = terms.walk(parts, doc)
    if base.is_concrete and len(exp) > 1:
        c.fail("concrete_single", f"reference walk of a concrete path found {len(exp)} nodes")
    # expected result
    try:
        vals = [datum_apply(datum, v) for v, _ in exp]
        datum_ok = True
    except (TypeError, AttributeError):
        datum_ok = False
    if not datum_ok:
        if got_p[0] == "ok" and parts:
            c.fail("datum_modifier", "datum modifier undefined on a selected node but get_data returned")
        c.features.add(("datum_undefined", datum))
        return c
    pairs = [(v, q) for v, (_, q) in zip(vals, exp)]

    def present(seq_):
        if not parts:
            return seq_[0]
        if not seq_:
            return None if base.is_concrete else []
        if multi == "FIRST":
            return seq_[0]
        if multi == "LAST":
            return seq_[-1]
        if multi == "SINGLE":
            if len(seq_) > 1:
                return "ValueError"
            return seq_[0]
        if multi in ("ALL", "ANY"):
            return list(seq_)        # (ANY is treated like ALL by the code: "TODO: how to implement")
        return seq_[0] if base.is_concrete else list(seq_)
    want_p = present(pairs)
    want_v = present(vals)
    for (got, want, what) in ((got_p, want_p, "with paths"), (got_v, want_v, "without paths")):
        if want == "ValueError":
            if got != ["exc", "ValueError"]:
                c.fail("single_multiple", f"single() with several matches: expected ValueError ({what})")
            continue
        if got[0] != "ok":
            c.fail("resolution_raises", f"get_data raised {got[1]} ({what})")
        elif got[1] != enc.enc_val(want):
            c.fail("walk", f"get_data {what} differs from the part-by-part walk: got {got[1]!r:.300}, want {enc.enc_val(want)!r:.300}")
    # truthful, distinct paths (C04)
    if datum == "NONE":
        for v, q in exp:
            try:
                node = doc
                for k in q:
                    node = node[k]
                if enc.enc_val(node) != enc.enc_val(v):
                    c.fail("truthful_path", f"indexing along {q!r} does not give the value")
            except Exception as e:  # noqa: BLE001
                c.fail("truthful_path", f"indexing along {q!r} raised {type(e).__name__}")
    qs = [enc.enc_val(q) for _, q in exp]
    if len({repr(q) for q in qs}) != len(qs):
        c.fail("distinct_paths", "two selected nodes share a concrete path")
    # entry points agree
    if datum == "NONE" and multi == "NONE":
        eps = {
            "Data.get(path)": lambda: Data(doc).get(path, return_paths=True),
            "Data.get(*parts)": lambda: Data(doc).get(*objs, return_paths=True),
            "path.get_data(Data)": lambda: path.get_data(Data(doc), return_paths=True),
            "bound": lambda: DP.DataPath(*objs, source_data=doc).get_data(return_paths=True),
            "bound Data": lambda: DP.DataPath(*objs, source_data=Data(doc)).get_data(return_paths=True),
        }
        for name, f in eps.items():
            o = enc.outcome(lambda f=f: enc_result(f()))
            if name == "Data.get(*parts)" and objs and isinstance(objs[0], DP.DataPath):
                continue
            if o != got_p:
                c.fail("entry_points", f"{name} gives {o!r:.200} but get_data gives {got_p!r:.200}")
    # coverage
    c.nontrivial = len(exp) > 0
    c.features.add((len(parts), "concrete" if base.is_concrete else "nonconcrete",
                    "none" if not exp else "one" if len(exp) == 1 else "many", datum, multi))
    for p in parts:
        c.features.add(("part", p[0]))
    return c


def terms_spec(s):
    if s is None:
        return None
    if s[0] == "v":
        return ["v", enc.enc_val(s[1])]
    return ["c", enc.enc_cond(terms.build_tree(s[1]))]


def terms_cond(t):
    if t is None:
        return None
    return enc.enc_cond(terms.build_tree(t))


CORPUS = [
    ([("prim", "a"), ("prim", 0)], {"a": [1, 2]}),
    ([("prim", "a"), ("prim", 0)], {"a": {0: "x", "0": "y"}}),
    ([("prim", 1)], {True: "t", 2: "u"}),
    ([("prim", True)], ["x", "y"]),
    ([("prim", 1.0)], {1: "a"}),
    ([("prim", 1.0)], ["x", "y"]),
    ([("prim", "a"), ("prim", "b")], {"a": 5}),
    ([("prim", "a"), ("prim", "b")], {"a": []}),
    ([("prim", "a"), ("prim", "b")], {"a": {}}),
    ([("prim", "a")], [1, 2]),
    ([("prim", -1)], [1, 2, 3]),
    ([], {"a": 1}),
    ([("map", {"key": None, "index": None, "value": None, "condition": None, "list_condition": None, "map_condition": None, "label": None})], {"a": 1, "b": 2}),
    ([("list", {"key": None, "index": None, "value": None, "condition": None, "list_condition": None, "map_condition": None, "label": None})], {"a": 1, "b": 2}),
    ([("molv", {"key": ("v", "a"), "index": ("v", 1), "value": None, "condition": None, "list_condition": None, "map_condition": None, "label": None})], [5, 6, 7]),
    ([("molv", {"key": ("v", "a"), "index": ("v", 1), "value": None, "condition": None, "list_condition": None, "map_condition": None, "label": None})], {"a": 5, 1: 6}),
    ([("prim", "a"), ("list", {"key": None, "index": None, "value": ("c", ("leaf", "Value", "gt", [1], {})), "condition": None, "list_condition": None, "map_condition": None, "label": None}), ("prim", "x")],
     {"a": [{"x": 1}, 2, 3, "s", {"x": 2}]}),
    ([("map", {"key": ("c", ("bin", "and", ("leaf", "Key", "gt", ["a"], {}), ("leaf", "Key", "lt", ["z"], {}))), "index": None, "value": None, "condition": None, "list_condition": None, "map_condition": None, "label": None})],
     {"a": 1, "b": 2, 3: 4, "z": 5}),
    ([("molv", {"key": None, "index": None, "value": None, "condition": None, "list_condition": ("bin", "and", ("leaf", "Index", "gt", [0], {}), ("leaf", "Index", "lt", [3], {})), "map_condition": None, "label": None})],
     [10, 11, 12, 13]),
]


def edge_cases(g, k):
    """K only (the model against the implementation, no separate expectation): entry conditions of `get_data` -
    empty / falsy documents, a path bound to a document of its own (which then wins over a truthy argument,
    while a falsy bound document falls back to the argument), no document at all - and part constructors given
    a condition of the wrong kind, or mixing kinds, for `key=` / `index=` / `value=`"""
    r = g.r
    out = []
    # one case per arm of the source / argument decision of `get_data`
    fixed = [(None, {}), (None, []), (None, 0), (None, ""), (None, None), ({}, {}), ([], None), ({}, None), ({}, {"a": 1}),
             ({"a": 1}, {}), ({"a": 1}, None), ({"a": 1}, {"a": 2}), (None, {"a": 2}), (None, "text"), (None, 5)]
    for src, arg in fixed:
        for objs, parts_py in (([], ""), (["a"], "'a'")):
            path = DP.DataPath(*objs, source_data=src) if src is not None else DP.DataPath(*objs)
            c = Case("get_entry", {"parts": parts_py, "source": None if src is None else enc.enc_val(src),
                                   "arg": None if arg is None else enc.enc_val(arg), "return_paths": True})
            c.py = (f"from valida.datapath import *\nprint(DataPath({parts_py}{', ' if parts_py else ''}source_data={src!r})"
                    f".get_data({arg!r}, return_paths=True))")
            impl = enc.outcome(lambda: enc_result(path.get_data(arg, return_paths=True)))
            c.ask(["get", enc.enc_path(path), None if arg is None else enc.enc_val(arg), True], impl, "get")
            c.features.add(("entry-fixed", src is None, bool(src), type(arg).__name__, bool(arg)))
            out.append(c)
    for _ in range(k):
        x = r.random()
        if x < 0.6:
            parts = [terms.gen_part(g, r.choice([0.5, 1.0])) for _ in range(r.choice([0, 1, 1, 2]))]
            try:
                objs = [p[1] if p[0] == "prim" else terms.build_part(p) for p in parts]
            except TypeError:
                continue
            doc = gen_doc_for_parts(g, parts)
            other = gen_doc_for_parts(g, parts)
            src = r.choice([None, doc, doc, {}, [], other])
            arg = r.choice([None, {}, [], doc, other, other, 0, "", "text", 5])
            po = enc.outcome(lambda: DP.DataPath(*objs, source_data=src) if src is not None else DP.DataPath(*objs))
            if po[0] != "ok":
                continue
            path = po[1]
            rp = r.random() < 0.5
            c = Case("get_entry", {"parts": [terms.part_desc(p) for p in parts], "source": None if src is None else enc.enc_val(src),
                                   "arg": None if arg is None else enc.enc_val(arg), "return_paths": rp})
            c.py = ("from valida.conditions import *\nfrom valida.datapath import *\nimport pathlib\n"
                    f"print(DataPath({', '.join(terms.part_py(p) for p in parts)}{', ' if parts else ''}source_data={terms.repr_py(src)})"
                    f".get_data({terms.repr_py(arg)}, return_paths={rp}))")
            impl = enc.outcome(lambda: enc_result(path.get_data(arg, return_paths=rp)))
            try:
                c.ask(["get", enc.enc_path(path), None if arg is None else enc.enc_val(arg), rp], impl, "get")
            except enc.Unencodable:
                continue
            c.features.add(("entry", src is None, type(arg).__name__, bool(arg)))
            out.append(c)
        else:
            # a part whose key / index / value condition is of another kind, or a combination mixing kinds
            kind = r.choice(["map", "list", "molv"])
            field = r.choice(["key", "index", "value"])
            other_kinds = [q for q in ("key", "index", "value") if q != field]
            wrong = r.choice(other_kinds)
            tree = terms.gen_leaf(g, wrong, hostile_p=0.0)
            if r.random() < 0.5:
                right = terms.gen_leaf(g, field, hostile_p=0.0)
                pair = [tree, right]
                r.shuffle(pair)
                tree = ("bin", r.choice(["and", "or"]), pair[0], pair[1])
            d = {"key": None, "index": None, "value": None, "condition": None, "list_condition": None, "map_condition": None, "label": None}
            d[field] = ("c", tree)
            p = (kind, d)
            try:
                terms.build_tree(tree)
            except TypeError:
                continue            # key and index conditions cannot be combined at all
            c = Case("mkpart_kind", {"part": terms.part_desc(p)})
            c.py = f"from valida.conditions import *\nfrom valida.datapath import *\nimport pathlib\nprint({terms.part_py(p)})"
            o = enc.outcome(lambda: terms.build_part(p))
            req = ["mkpart", kind, terms_spec(d["key"]), terms_spec(d["index"]), terms_spec(d["value"]),
                   terms_cond(d["list_condition"]), terms_cond(d["map_condition"]), terms_cond(d["condition"]), None]
            try:
                c.ask(req, ["ok", enc.enc_part(o[1])] if o[0] == "ok" else o, "mkpart")
            except enc.Unencodable:
                continue
            c.features.add(("wrong-kind", kind, field, wrong, tree[0]))
            out.append(c)
    return out


def generate(rng, n, tier, modifiers=False):
    g = Gen(rng, pct_strings=False, max_depth=3 if tier == "quick" else 4)
    cases = []
    for parts, doc in CORPUS:
        if modifiers:
            for dn in ["NONE", "LENGTH", "DTYPE"]:
                for mn in ["NONE", "FIRST", "SINGLE"]:
                    cases.append(make_case(parts, doc, dn, mn, "dm"))
        else:
            cases.append(make_case(parts, doc))
    if not modifiers:
        cases.extend(edge_cases(g, max(30, n // 12)))
        from props import corners
        cases.extend(corners.get_cases())
    maxlen = 4 if tier == "quick" else 6
    while len(cases) < n:
        k = rng.choice([0, 1, 1, 2, 2, 2, 3, 3] + list(range(4, maxlen + 1)))
        prim_p = rng.choice([0.2, 0.45, 0.8, 1.0])
        parts = [terms.gen_part(g, prim_p) for _ in range(k)]
        doc = gen_doc_for_parts(g, parts)
        if modifiers:
            dn = rng.choice(["NONE", "NONE", "DTYPE", "LENGTH", "MAP_KEYS", "MAP_VALUES"])
            mn = rng.choice(["NONE", "NONE", "FIRST", "LAST", "SINGLE", "ALL", "ANY"])
            order = rng.choice(["dm", "md"])
            cases.append(make_case(parts, doc, dn, mn, order))
        else:
            cases.append(make_case(parts, doc))
    return cases
