"""C12 – serialised data paths rebuild to an equivalent path, or serialisation refuses."""
import copy
import json
import warnings

import enc
import terms
from core import Case
from gen import Gen
from props.c03 import gen_doc_for_parts

import valida.datapath as DP

warnings.simplefilter("ignore")


def sel(p, doc):
    return enc.outcome(lambda: enc.enc_val(p.get_data(doc, return_paths=True)))


def spec_values(parts):
    """every key / index value mentioned by the parts (for targeted probe documents)"""
    out = []
    for p in parts:
        if p[0] == "prim":
            out.append(p[1])
        else:
            for f in ("key", "index", "value"):
                s = p[1][f]
                if s is not None and s[0] == "v":
                    out.append(s[1])
    return out


def targeted_docs(parts):
    """documents holding, at every level, children under each mentioned key and enough list items"""
    vals = [v for v in spec_values(parts) if isinstance(v, (str, int, float)) or v is None]
    keys = list(dict.fromkeys(vals + ["a", 0, 1, 2]))

    def level(depth):
        if depth == 0:
            return "leaf"
        d = {}
        for k in keys:
            try:
                d[k] = level(depth - 1) if not isinstance(k, bool) else "b"
            except TypeError:
                pass
        return d

    def llevel(depth):
        if depth == 0:
            return "leaf"
        return [llevel(depth - 1) if i % 2 == 0 else level(depth - 1) for i in range(4)]
    n = min(len(parts), 3)
    return [level(n), llevel(n)] if n else []


def make_case(parts, docs, datum=None, multi=None, from_specs=False):
    docs = list(docs) + targeted_docs(parts)
    desc = {"parts": [terms.part_desc(p) for p in parts], "datum": datum, "multi": multi}
    c = Case("to_part_specs", desc)
    mods = (f".{datum}()" if datum else "") + (f".{multi}()" if multi else "")
    c.py = ("from valida.conditions import *\nfrom valida.datapath import *\nimport pathlib\n"
            f"p = DataPath({', '.join(terms.part_py(x) for x in parts)}){mods}\nsp = p.to_part_specs()\nprint(sp)\n"
            "q = DataPath.from_part_specs(*sp)\nprint(q, q == p)")
    built = enc.outcome(lambda: DP.DataPath(*[terms.build_part(x) for x in parts]))
    if built[0] != "ok":
        return None
    p = built[1]
    try:
        if datum:
            p = getattr(p, datum)()
        if multi:
            p = getattr(p, multi)()
    except ValueError:
        return None
    term = enc.enc_path(p)
    sp = enc.outcome(lambda: p.to_part_specs())
    c.ask(["to_part_specs", term], ["ok", enc.enc_val(sp[1])] if sp[0] == "ok" else sp, "to_part_specs")
    if sp[0] != "ok":
        c.features.add(("refused", len(parts)))
        return c
    specs = sp[1]
    dumped = enc.outcome(lambda: json.loads(json.dumps(specs)))
    if dumped[0] != "ok" or enc.enc_val(dumped[1]) != enc.enc_val(specs):
        c.fail("json_compatible", "the part specs do not survive json.dumps / json.loads unchanged")
        return c
    back = enc.outcome(lambda: DP.DataPath.from_part_specs(*copy.deepcopy(dumped[1])))
    c.ask(["from_part_specs", [enc.enc_val(s) for s in dumped[1]]],
          ["ok", enc.enc_path(back[1])] if back[0] == "ok" else back, "from_part_specs")
    if back[0] != "ok":
        c.fail("rebuilds", f"from_part_specs raised {back[1]}")
        return c
    q = back[1]
    for d in docs:
        a, b = sel(p, d), sel(q, d)
        if a != b:
            c.fail("selects_the_same", f"the rebuilt path selects differently: {a!r:.200} vs {b!r:.200}")
            break
    if from_specs and not (q == p):
        c.fail("equal_when_from_specs", "the rebuilt path is not equal to the original, which was built from specs")
    c.nontrivial = True
    c.features.add(("emitted", len(parts), p.is_concrete, any(isinstance(s, dict) for s in specs)))
    return c


def generate(rng, n, tier):
    from props import corners
    _corner = corners.to_part_specs_cases()
    g = Gen(rng, pct_strings=False, max_depth=3)
    cases = list(_corner)
    bare = lambda k: (k, {"key": None, "index": None, "value": None, "condition": None, "list_condition": None, "map_condition": None, "label": None})  # noqa: E731
    corpus = [
        [("prim", "a"), ("prim", 0)], [("prim", "a"), bare("map")], [bare("list"), ("prim", "x")], [bare("molv")],
        [("map", dict(bare("map")[1], value=("c", ("leaf", "Value", "eq", [1], {}))))],
        [("map", dict(bare("map")[1], key=("c", ("leaf", "Key", "gt", ["a"], {}))))],
        [("list", dict(bare("list")[1], index=("v", 0)))],
        [("map", dict(bare("map")[1], key=("v", "a"), label="x"))],
        [("molv", dict(bare("molv")[1], key=("v", 1), index=("v", 2)))],
        [("map", dict(bare("map")[1], key=("v", "a")))],
    ]
    for parts in corpus:
        docs = [gen_doc_for_parts(g, parts) for _ in range(3)]
        c = make_case(parts, docs)
        if c is not None:
            cases.append(c)
    # conditions built directly (not through the DSL) store the argument positionally: `simplify()` reads
    # `kwargs["value"]` of such an `equal_to` and raises KeyError - for every part, before any part is written
    import valida.callables as calls
    import valida.conditions as CC
    import valida.datapath as DPm
    raw = [
        ("DataPath(MapValue(condition=Key(callables.equal_to, 5)), ListValue())",
         lambda: DPm.DataPath(DPm.MapValue(condition=CC.Key(calls.equal_to, 5)), DPm.ListValue())),
        ("DataPath(MapValue(label='x'), MapValue(key=Key(callables.equal_to, 'a')))",
         lambda: DPm.DataPath(DPm.MapValue(label="x"), DPm.MapValue(key=CC.Key(calls.equal_to, "a")))),
        ("DataPath(MapOrListValue(list_condition=Index(callables.equal_to, 0), map_condition=Key.equal_to(0)), MapValue())",
         lambda: DPm.DataPath(DPm.MapOrListValue(list_condition=CC.Index(calls.equal_to, 0), map_condition=CC.Key.equal_to(0)), DPm.MapValue())),
    ]
    for text, mk in raw:
        c = Case("to_part_specs_raw", {"path": text})
        c.py = f"from valida.conditions import *\nfrom valida.datapath import *\nfrom valida import callables\nprint({text}.to_part_specs())"
        p = mk()
        sp = enc.outcome(lambda: p.to_part_specs())
        c.ask(["to_part_specs", enc.enc_path(p)], ["ok", enc.enc_val(sp[1])] if sp[0] == "ok" else sp, "to_part_specs")
        c.features.add(("raw", text[:30]))
        cases.append(c)
    while len(cases) < n:
        k = rng.choice([0, 1, 2, 2, 3, 4])
        mode = rng.random()
        if mode < 0.45:
            # serialisable shapes: primitives and bare parts (built the way from_part_specs builds them)
            parts = [rng.choice([("prim", rng.choice(["a", "b", 0, 1, 1.5, True, "k1"])), bare(rng.choice(["map", "list", "molv"]))])
                     for _ in range(k)]
            from_specs = True
        elif mode < 0.7:
            # nearly serialisable: parts that look like plain keys / indices but are not what DataPath(key) builds
            def near():
                x = rng.random()
                e = dict(bare("map")[1])
                if x < 0.2:
                    return ("molv", dict(e, key=("v", rng.choice(["first", "a", 1, 2])), index=("v", rng.choice([0, 1, 2]))))
                if x < 0.35:
                    return ("map", dict(e, key=("v", rng.choice([0, 1, 3]))))
                if x < 0.5:
                    return ("list", dict(e, index=("v", rng.choice([0, 1]))))
                if x < 0.6:
                    return ("map", dict(e, key=("v", rng.choice(["a", "b"])), label="lbl"))
                if x < 0.7:
                    return ("molv", dict(e, key=("v", "a")))
                if x < 0.85:
                    return bare(rng.choice(["map", "list", "molv"]))
                return ("prim", rng.choice(["a", "b", 0, 1]))
            parts = [near() for _ in range(max(k, 1))] + ([bare("map")] if rng.random() < 0.7 else [])
            rng.shuffle(parts)
            from_specs = False
        else:
            parts = [terms.gen_part(g, rng.choice([0.3, 0.6])) for _ in range(k)]
            from_specs = False
        datum = rng.choice([None] * 8 + ["length", "dtype"])
        multi = rng.choice([None] * 8 + ["first", "all"])
        docs = [gen_doc_for_parts(g, parts) for _ in range(3)]
        c = make_case(parts, docs, datum, multi, from_specs and not datum and not multi)
        if c is not None:
            cases.append(c)
    return cases
