"""C16 – parsing a spec does not change the spec; re-parsing gives the same object."""
import copy
import warnings

import enc
import terms
from core import Case
from gen import Gen
from props import rules_common as rc
from props import c09, c10, c11, c17

import valida.datapath as DP
from valida.conditions import ConditionLike
from valida.datapath import ContainerValue
from valida.rules import Rule
from valida.schema import Schema

warnings.simplefilter("ignore")


def snapshot(v, seen=None):
    """type-exact, identity-aware structural snapshot: (encoding, identities of all containers in order)"""
    ids = []

    def walk(x):
        if isinstance(x, (list, tuple)):
            ids.append((id(x), type(x).__name__, len(x)))
            for y in x:
                walk(y)
        elif isinstance(x, dict):
            ids.append((id(x), "dict", len(x)))
            for k, y in x.items():
                walk(k)
                walk(y)
    walk(v)
    try:
        e = enc.enc_val(v)
    except enc.Unencodable:
        e = "unencodable:" + repr(v)[:200]
    return e, ids


def check(c, kind, spec, parse, driver_op=None, encode=None):
    before = snapshot(spec)
    results = []
    for i in range(3):
        o = enc.outcome(lambda: parse(spec))
        after = snapshot(spec)
        if after != before:
            c.fail("spec_unchanged", f"{kind}: the spec structure differs after parse #{i + 1}: {after[0]!r:.200} (was {before[0]!r:.200})")
            break
        results.append(o)
    if len(results) >= 2:
        if results[0][0] != results[1][0]:
            c.fail("reparse", f"{kind}: first parse {results[0][0]} but second parse {results[1][0]} ({results[1][1] if results[1][0] == 'exc' else ''})")
        elif results[0][0] == "ok":
            for j in (1, 2):
                if j < len(results) and results[j][0] == "ok" and not (results[j][1] == results[0][1]):
                    c.fail("reparse", f"{kind}: parse #{j + 1} gives an object not equal to the first")
                    break
    if driver_op and results and encode:
        impl = ["ok", encode(results[0][1])] if results[0][0] == "ok" else results[0]
        c.ask([driver_op, before[0]], impl, driver_op)
    c.nontrivial = bool(results) and results[0][0] == "ok"
    c.features.add((kind, results[0][0] if results else "changed"))


def spec_with_paths(g):
    """a condition spec with data-path arguments and escaped keys (C17's spec spellings)"""
    r = g.r
    pathspec = lambda: {r.choice(["path", "path.length", "PATH", "path.first"]): r.choice([["a"], ["a", 0], ["b", "c"]])}  # noqa: E731
    esc = lambda: {"\\path": r.choice([["a"], 5, "x"])}  # noqa: E731
    shape = r.choice(["top", "list", "mapping", "escaped", "escaped-list", "kw"])
    if shape == "top":
        return {"value.equal_to": pathspec()}
    if shape == "list":
        return {"value.in": [pathspec(), 7, {"k": 1}]}
    if shape == "mapping":
        return {"value.items_contain": {"a": pathspec(), "b": 2}}
    if shape == "escaped":
        return {"value.equal_to": esc()}
    if shape == "escaped-list":
        return {"value.in": [esc(), pathspec()]}
    return {"value.in_range": {"lower": pathspec(), "upper": 10}}


def generate(rng, n, tier):
    g = Gen(rng, pct_strings=False, max_depth=2)
    cases = []
    while len(cases) < n:
        x = rng.random()
        if x < 0.3:
            kind = rng.choice(["value", "key", "index", "value+key"])
            t = terms.gen_tree(g, kind, depth=rng.choice([0, 1, 2]), null_p=0.1)
            sp = c09.tree_spell(rng, t)
            if sp is None:
                continue
            c = Case("cond_spec", {"spec": enc.enc_val(sp)})
            c.py = f"from valida.conditions import *\nimport pathlib\ns = {terms.repr_py(sp)}\nConditionLike.from_spec(s); print(s)\nprint(ConditionLike.from_spec(s))"
            check(c, "cond", sp, ConditionLike.from_spec, "parse_cond", enc.enc_cond)
        elif x < 0.45:
            sp = spec_with_paths(g)
            c = Case("cond_spec_paths", {"spec": enc.enc_val(sp)})
            c.py = f"from valida.conditions import *\ns = {sp!r}\nConditionLike.from_spec(s); print(s)\nprint(ConditionLike.from_spec(s))"
            check(c, "cond+paths", sp, ConditionLike.from_spec, "parse_cond", enc.enc_cond)
        elif x < 0.65:
            p = terms.gen_part(g, prim_p=0.0)
            sp = c10.part_spec(rng, p)
            if not isinstance(sp, dict):
                continue
            c = Case("part_spec", {"spec": enc.enc_val(sp)})
            c.py = f"from valida.conditions import *\nfrom valida.datapath import *\nimport pathlib\ns = {terms.repr_py(sp)}\nContainerValue.from_spec(s); print(s)"
            check(c, "part", sp, ContainerValue.from_spec, "parse_part", enc.enc_part)
        elif x < 0.8:
            parts = [terms.gen_part(g, 0.5) for _ in range(rng.choice([0, 1, 2, 3]))]
            specs = []
            ok = True
            for p in parts:
                sp = c10.part_spec(rng, p)
                if sp is None and p[0] != "prim":
                    ok = False
                specs.append(sp)
            if not ok:
                continue
            if rng.random() < 0.5:
                spec = {rng.choice(["path", "path.length", "Path.dtype"]): specs}
                c = Case("path_spec", {"spec": enc.enc_val(spec)})
                c.py = f"from valida.conditions import *\nfrom valida.datapath import *\nimport pathlib\ns = {terms.repr_py(spec)}\nDataPath.from_spec(s); print(s)"
                check(c, "path", spec, DP.DataPath.from_spec)
            else:
                c = Case("part_specs", {"spec": enc.enc_val(specs)})
                c.py = f"from valida.conditions import *\nfrom valida.datapath import *\nimport pathlib\ns = {terms.repr_py(specs)}\nDataPath.from_part_specs(*s); print(s)"
                check(c, "part_specs", specs, lambda s: DP.DataPath.from_part_specs(*s))
        else:
            rr = rc.gen_rule(g, cast_p=0.5)
            rs = c10.rule_spec(g, rr)
            if rs is None:
                continue
            spec = rs[0]
            if rng.random() < 0.3:
                specs = [spec] + [s2[0] for s2 in [c10.rule_spec(g, rc.gen_rule(g, cast_p=0.5))] if s2]
                c = Case("schema_spec", {"spec": enc.enc_val(specs)})
                c.py = rc.PY_HEAD + f"s = {terms.repr_py(specs)}\nSchema.from_json_like(s); print(s)\nSchema.from_json_like(s)"
                check(c, "schema", specs, Schema.from_json_like)
            else:
                c = Case("rule_spec", {"spec": enc.enc_val(spec)})
                c.py = rc.PY_HEAD + f"s = {terms.repr_py(spec)}\nRule.from_spec(s); print(s)\nprint(Rule.from_spec(s))"
                check(c, "rule", spec, Rule.from_spec)
        cases.append(c)
    return cases
