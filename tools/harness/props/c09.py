"""C09 – condition specs mean exactly what the equivalent Python DSL expression means."""
import pathlib
import warnings

import enc
import terms
from core import Case
from gen import Gen, TYPE_POOL

import valida.conditions as C
from valida.conditions import ConditionLike
from valida.data import Data

warnings.simplefilter("ignore")

DATUM_TOKEN = {"Value": "value", "ValueLength": "value", "ValueDataType": "value", "Key": "key", "KeyLength": "key",
               "KeyDataType": "key", "Index": "index"}
PRE_TOKENS = {"ValueLength": ["length", "len"], "KeyLength": ["length", "len"],
              "ValueDataType": ["dtype", "type"], "KeyDataType": ["dtype", "type"]}
ALIASES = {"equal_to": ["equal_to", "eq"], "less_than": ["less_than", "lt"], "greater_than": ["greater_than", "gt"],
           "less_than_or_equal_to": ["less_than_or_equal_to", "lte"],
           "greater_than_or_equal_to": ["greater_than_or_equal_to", "gte"], "in_": ["in_", "in"]}
CANON = {"eq": "equal_to", "lt": "less_than", "gt": "greater_than", "lte": "less_than_or_equal_to",
         "gte": "greater_than_or_equal_to"}
TYPE_NAME = {int: "int", float: "float", str: "str", list: "list", dict: "dict", bool: "bool", pathlib.Path: "path"}

# constructor -> (positional-or-keyword parameter names, var-positional?, var-keyword?)
SIGS = {}
for n in ("equal_to not_equal_to less_than greater_than less_than_or_equal_to greater_than_or_equal_to in_ not_in "
          "factor_of has_factor").split():
    SIGS[n] = (["value"], False, False)
SIGS.update({
    "in_range": (["lower", "upper"], False, False), "not_in_range": (["lower", "upper"], False, False),
    "equal_to_approx": (["value", "tolerance"], False, False),
    "truthy": ([], False, False), "falsy": ([], False, False), "null": ([], False, False),
    "is_instance": ([], True, False), "keys_is_instance": ([], True, False),
    "keys_contain": (["key"], False, False),
    "keys_contain_any_of": ([], True, False), "keys_contain_all_of": ([], True, False),
    "keys_contain_one_of": ([], True, False), "keys_equal_to": ([], True, False),
    "allowed_keys": ([], True, False), "required_keys": ([], True, False), "forbidden_keys": ([], True, False),
    "keys_contain_N_of": (["N", "keys"], False, False), "keys_contain_at_least_N_of": (["N", "keys"], False, False),
    "keys_contain_at_most_N_of": (["N", "keys"], False, False),
    "keys_contain_at_least_one_of": (["keys"], False, False), "keys_contain_at_most_one_of": (["keys"], False, False),
    "items_contain": ([], False, True),
})


def rand_case(r, s):
    mode = r.choice(["lower", "lower", "upper", "mixed", "title"])
    if mode == "lower":
        return s
    if mode == "upper":
        return s.upper()
    if mode == "title":
        return s.title()
    return "".join(c.upper() if r.random() < 0.5 else c for c in s)


def type_spelling(r, t):
    x = r.random()
    if x < 0.15:
        return t                       # the type object itself
    name = TYPE_NAME[t]
    if t is dict and r.random() < 0.4:
        name = "map"
    return rand_case(r, name)


def in_spec_domain(cls, ctor, args, kwargs):
    """DSL terms that have a spec at all (DESIGN C09): for the two dtype classes the whole argument
    must be a type or a list of types (the conversion to types is unconditional)."""
    canon = CANON.get(ctor, ctor)
    allv = list(args) + list(kwargs.values())
    if cls.endswith("DataType"):
        params, varpos, varkw = SIGS[canon]
        if varpos:
            return all(isinstance(a, type) and a in TYPE_NAME for a in allv)
        if len(params) != 1 or len(allv) != 1:
            return False
        v = allv[0]
        if isinstance(v, list):
            return all(isinstance(a, type) and a in TYPE_NAME for a in v)
        return isinstance(v, type) and v in TYPE_NAME
    if canon in ("is_instance", "keys_is_instance"):
        return all(isinstance(a, type) and a in TYPE_NAME for a in allv)
    # an argument that is a mapping / a list item that looks like a path spec would be read as a data path
    def pathlike(v):
        if isinstance(v, dict):
            if any(isinstance(k, str) and (k.lower().split(".")[0] == "path" or "\\path" in k) for k in v):
                return True
            if not v:
                return False
        return False
    for v in allv:
        if pathlike(v):
            return False
        if isinstance(v, (list, tuple)) and any(pathlike(x) for x in v):
            return False
        if isinstance(v, dict) and any(pathlike(x) for x in v.values()):
            return False
    # keyword names of items_contain must not collide with nothing; any str is fine
    return True


def spell(r, cls, ctor, args, kwargs):
    """one spelling of the spec for the DSL term, or None if it has none"""
    canon = CANON.get(ctor, ctor)
    if not in_spec_domain(cls, ctor, args, kwargs):
        return None
    params, varpos, varkw = SIGS[canon]
    toks = [DATUM_TOKEN[cls]]
    if cls in PRE_TOKENS:
        toks.append(r.choice(PRE_TOKENS[cls]))
    toks.append(r.choice(ALIASES.get(canon, [canon])))
    key = ".".join(rand_case(r, t) for t in toks)
    conv = cls.endswith("DataType") or canon in ("is_instance", "keys_is_instance")

    def tv(v):
        if conv and isinstance(v, type):
            return type_spelling(r, v)
        return v
    # bind actual arguments to parameter names
    bound = dict(zip(params, args))
    bound.update({k: v for k, v in kwargs.items() if k in params})
    if not params and not varpos and not varkw:
        val = None
    elif len(params) == 1 and not varpos and not varkw:
        v = bound[params[0]]
        val = [tv(x) for x in v] if (conv and isinstance(v, list)) else tv(v)
    elif len(params) > 1:
        given = [p for p in params if p in bound]
        if r.random() < 0.5 and given == params[:len(given)]:
            val = [bound[p] for p in given]
            if r.random() < 0.3:
                val = tuple(val)
        else:
            items = [(p, bound[p]) for p in given]
            r.shuffle(items)
            val = dict(items)
    elif varpos:
        val = [tv(a) for a in args]
    else:
        val = dict(kwargs)
    return {key: val}


def tree_spell(r, t):
    """spec of a tree; None if some leaf has no spec"""
    if t[0] == "null":
        return r.choice([{}, None]) if r.random() < 0.5 else {}
    if t[0] == "leaf":
        return spell(r, t[1], t[2], t[3], t[4])
    # flatten a left-nested chain of the same operator sometimes (the list form folds from the left)
    op = t[1]
    a, b = tree_spell(r, t[2]), tree_spell(r, t[3])
    if a is None and t[2][0] != "null" or b is None and t[3][0] != "null":
        return None
    if t[2][0] == "bin" and t[2][1] == op and isinstance(a, dict) and list(a) == [op] and r.random() < 0.6:
        return {op: list(a[op]) + [b]}
    return {op: [a, b]}


def filter_obs(c, doc):
    return enc.outcome(lambda: list(c._filter(Data(doc)).result))


PROBES = [[1, "a", {"a": 1, "b": 2}, 0, 2.5, None, [1, 2], "abc", True, 6, {}],
          {"a": 1, "b": "x", 0: {"a": 1}, 1.5: 3, None: [0], "k1": 4}]


def make_case(t, spec, probes=PROBES):
    desc = {"tree": terms.tree_desc(t), "spec": enc.enc_val(spec)}
    c = Case("spec", desc)
    c.py = ("from valida.conditions import *\nimport pathlib\n"
            f"a = ConditionLike.from_spec({terms.repr_py(spec)})\nb = {terms.tree_py(t)}\nprint(a, b, a == b)")
    built = enc.outcome(lambda: terms.build_tree(t))
    if built[0] != "ok":
        return None
    dsl = built[1]
    import copy
    parsed = enc.outcome(lambda: ConditionLike.from_spec(copy.deepcopy(spec)))
    # K: the model parser on the same spec; the generated constructor table on the same DSL call
    c.ask(["parse_cond", enc.enc_val(spec)], ["ok", enc.enc_cond(parsed[1])] if parsed[0] == "ok" else parsed, "parse_cond")
    if t[0] == "leaf":
        _, cls, ctor, args, kwargs = t
        c.ask(["dsl", cls, ctor, [enc.enc_arg(a) for a in args], [[k, enc.enc_arg(v)] for k, v in kwargs.items()]],
              ["ok", enc.enc_cond(dsl)], "dsl")
    if parsed[0] != "ok":
        c.fail("spec_accepted", f"the spec of a DSL term was rejected with {parsed[1]}")
        return c
    p = parsed[1]
    eq = enc.outcome(lambda: (p == dsl, dsl == p))
    if eq != ["ok", (True, True)]:
        c.fail("equal_to_dsl", f"from_spec(spec) == dsl_object gave {eq}")
    c.ask(["eq_cond", enc.enc_cond(p), enc.enc_cond(dsl)], True if eq == ["ok", (True, True)] else False, "eq_cond",
          lambda impl, model: None if impl == model else "differ")
    for d in probes:
        ra, rb = filter_obs(p, d), filter_obs(dsl, d)
        if ra != rb:
            c.fail("same_behaviour", f"spec-built and DSL-built conditions filter differently: {ra} vs {rb}")
            break
    leaves = [l for l in terms.tree_leaves(t) if l[0] == "leaf"]
    for l in leaves:
        c.features.add((l[1], CANON.get(l[2], l[2])))
    c.nontrivial = bool(leaves)
    return c


def refused_call_case(g):
    """DSL calls the implementation refuses: a parameter given both ways, a surplus positional, a missing required
    argument, an unknown keyword, a constructor the class does not offer.  K only: the generated constructor
    table with Python's binding rules must refuse the same calls with the same exception class."""
    r = g.r
    cls = r.choice(g.CLASSES)
    kind = r.choice(["both-ways", "surplus", "missing", "unknown-kw", "no-such-ctor", "map-on-non-map"])
    if kind in ("no-such-ctor", "map-on-non-map"):
        if kind == "map-on-non-map":
            cls = r.choice([c for c in g.CLASSES if c not in ("Value", "Key")])
            ctor = r.choice(["keys_contain", "allowed_keys", "required_keys", "items_contain", "keys_is_instance", "keys_equal_to"])
        else:
            ctor = r.choice(["no_such", "equals", "Eq", "IN", "lenght", "Equal_To"])     # (names that are no attribute at all)
        args, kwargs = [g.atom()], {}
    else:
        cls, ctor, args, kwargs = g.dsl_call(cls, None, hostile_p=0.0)
        args, kwargs = list(args), dict(kwargs)
        canon = CANON.get(ctor, ctor)
        params, varpos, varkw = SIGS.get(canon, ([], False, False))
        if kind == "both-ways":
            if not params or not args:
                return None
            kwargs[params[0]] = g.atom()
        elif kind == "surplus":
            if varpos:
                return None
            args = args + [g.atom()] * (len(params) - len(args) + 1 - len([k for k in kwargs if k in params]))
        elif kind == "missing":
            if not params:
                return None
            args, kwargs = [], {}
        else:
            if varkw:
                return None
            kwargs["no_such_parameter"] = g.atom()
    c = Case("dsl_refused", {"cls": cls, "ctor": ctor, "args": [enc.enc_val(a) for a in args], "kwargs": {k: enc.enc_val(v) for k, v in kwargs.items()},
                             "kind": kind})
    c.py = ("from valida.conditions import *\nimport pathlib\n"
            f"print({cls}.{ctor}({', '.join([terms.repr_py(a) for a in args] + [k + '=' + terms.repr_py(v) for k, v in kwargs.items()])}))")

    def call():
        return enc.enc_cond(getattr(getattr(C, cls), ctor)(*args, **kwargs))
    impl = enc.outcome(call)
    try:
        c.ask(["dsl", cls, ctor, [enc.enc_arg(a) for a in args], [[k, enc.enc_arg(v)] for k, v in kwargs.items()]], impl, "dsl")
    except enc.Unencodable:
        return None
    c.features.add(("dsl-refused", kind, impl[0] if impl[0] == "ok" else impl[1]))
    c.nontrivial = impl[0] != "ok"
    return c


CORPUS = [
    ("bin", "xor", ("leaf", "Value", "gt", [1], {}), ("leaf", "Value", "gt", [1], {})),
    ("bin", "xor", ("bin", "xor", ("leaf", "Value", "gt", [1], {}), ("leaf", "Value", "lt", [4], {})), ("leaf", "Value", "gt", [1], {})),
    ("leaf", "Value", "equal_to", [{"value": 5}], {}),
    ("leaf", "Value", "keys_contain", [{"key": "a"}], {}),
    ("leaf", "Value", "keys_contain_N_of", [1, ["a"]], {}),
    ("leaf", "Value", "keys_contain_at_least_N_of", [], {"N": 1, "keys": ["a", "b"]}),
    ("leaf", "Value", "not_in_range", [1, 5], {}),
    ("leaf", "Value", "equal_to", [{}], {}),
    ("leaf", "Value", "in_", [[{}, 1]], {}),
    ("leaf", "Value", "items_contain", [], {}),
    ("leaf", "ValueDataType", "in_", [[int, str]], {}),
    ("leaf", "ValueDataType", "equal_to", [dict], {}),
    ("leaf", "Value", "is_instance", [dict, pathlib.Path], {}),
    ("leaf", "Value", "equal_to_approx", [1.5], {}),
    ("leaf", "Value", "equal_to_approx", [1.5, 0.5], {}),
    ("bin", "and", ("bin", "and", ("leaf", "Value", "gt", [1], {}), ("leaf", "Value", "lt", [4], {})), ("leaf", "Value", "gt", [2], {})),
    ("bin", "or", ("null",), ("bin", "or", ("leaf", "Key", "eq", ["a"], {}), ("leaf", "Value", "truthy", [], {}))),
]


def history_cases(rng, pool):
    """what a spec means does not depend on which specs the process parsed before: specs drawn from the generated
    cases are parsed in fresh interpreters in several orders (pre-processor classes first, container-only
    callables first, shuffled, reversed) and every outcome must be the one this process gets"""
    import json
    import os
    import subprocess
    import sys
    import copy
    pre = [x for x in pool if x[0][1] in PRE_TOKENS][:12]
    plain = [x for x in pool if x[0][1] in ("Value", "Key")]
    cont = [x for x in plain if "key" in x[0][2].lower() or "items" in x[0][2].lower()][:10]    # container-only callables
    maps = cont + [x for x in plain if x not in cont][:6]
    rest = [x for x in pool if x not in pre and x not in maps][:12]
    if not pre or not maps:
        return []
    shuffled = pre + maps + rest
    rng.shuffle(shuffled)
    orders = [("pre-processor classes first", pre + maps + rest), ("plain classes first", maps + rest + pre),
              ("shuffled", shuffled), ("reversed", shuffled[::-1])]
    script = os.path.join(os.path.dirname(os.path.dirname(os.path.abspath(__file__))), "fresh_parse.py")
    out = []
    for name, seq in orders:
        specs = [sp for _, sp in seq]
        c = Case("spec_history", {"order": name, "specs": [enc.enc_val(sp) for sp in specs]})
        c.py = ("# in a fresh interpreter\nfrom valida.conditions import *\n"
                f"for spec in {terms.repr_py(specs)}:\n"
                "    try:\n        print(ConditionLike.from_spec(spec))\n    except Exception as e:\n        print(type(e).__name__, e)")
        here = []
        for sp in specs:
            enc.reset_opaque()
            o = enc.outcome(lambda: ConditionLike.from_spec(copy.deepcopy(sp)))
            here.append(["ok", enc.enc_cond(o[1])] if o[0] == "ok" else o)
        try:
            p = subprocess.run([sys.executable, script], input="\n".join(json.dumps(enc.enc_val(sp)) for sp in specs) + "\n",
                               stdout=subprocess.PIPE, stderr=subprocess.PIPE, text=True, timeout=120)
            fresh = [json.loads(l) for l in p.stdout.split("\n") if l.strip()]
        except (subprocess.TimeoutExpired, OSError):
            continue
        if len(fresh) != len(specs):
            continue
        for i, (a, b) in enumerate(zip(json.loads(json.dumps(here)), fresh)):
            if a != b:
                c.fail("history_independent", f"spec #{i} {specs[i]!r:.120} parsed in a fresh interpreter ({name}) gives {b!r:.160}, "
                                              f"in the long-running process {a!r:.160}")
                break
            if b[0] != "ok":
                c.fail("spec_accepted", f"spec #{i} {specs[i]!r:.120} of a DSL term is rejected in a fresh interpreter ({name}): {b!r:.100}")
                break
        c.nontrivial = True
        c.features.add(("history", name))
        out.append(c)
    return out


def generate(rng, n, tier):
    g = Gen(rng, pct_strings=False, max_depth=2)
    cases = []
    pool = []
    for t in CORPUS:
        for _ in range(3):
            sp = tree_spell(rng, t)
            if sp is not None:
                c = make_case(t, sp)
                if c is not None:
                    cases.append(c)
    pairs = [(cls, ctor) for cls in g.CLASSES for ctor in g.ctors_of(cls)]
    todo = pairs * 2
    rng.shuffle(todo)
    tries = 0
    while len(cases) < n and tries < 50 * n:
        tries += 1
        if rng.random() < 0.06:
            c = refused_call_case(g)
            if c is not None:
                cases.append(c)
            continue
        if todo:
            cls, ctor = todo.pop()
            call = g.dsl_call(cls, ctor, hostile_p=0.05)
            if cls.endswith("DataType"):
                # meaningful dtype terms: type arguments
                canon = CANON.get(ctor, ctor)
                if canon in ("equal_to", "not_equal_to"):
                    call = (cls, ctor, [rng.choice(TYPE_POOL)], {})
                elif canon in ("in_", "not_in"):
                    call = (cls, ctor, [[rng.choice(TYPE_POOL) for _ in range(rng.choice([0, 1, 2, 3]))]], {})
            t = ("leaf",) + tuple([call[0], call[1], list(call[2]), dict(call[3])])
        elif rng.random() < 0.55:
            kind = rng.choice(["value", "value", "key", "index", "value+key", "value+index"])
            t = terms.gen_tree(g, kind, depth=rng.choice([1, 2, 3]), null_p=0.12)
        else:
            cls = rng.choice(g.CLASSES)
            call = g.dsl_call(cls, None, hostile_p=0.05)
            if cls.endswith("DataType") and rng.random() < 0.8:
                call = (cls, rng.choice(["equal_to", "eq", "not_equal_to"]), [rng.choice(TYPE_POOL)], {})
            t = ("leaf", call[0], call[1], list(call[2]), dict(call[3]))
        if t[0] == "bin":
            t = terms.repeat_operands(rng, t)
        elif t[0] == "leaf" and rng.random() < 0.06:
            # a literal mapping argument whose only key is spelled like the parameter it is given for
            canon = CANON.get(t[2], t[2])
            params = SIGS.get(canon, ([], False, False))[0]
            if len(params) == 1 and not t[1].endswith("DataType"):
                t = ("leaf", t[1], t[2], [{params[0]: g.atom()}], {})
        sp = tree_spell(rng, t)
        if sp is None:
            continue
        if enc.outcome(lambda: terms.build_tree(t))[0] != "ok":
            continue
        c = make_case(t, sp)
        if c is not None:
            cases.append(c)
            if t[0] == "leaf" and len(pool) < 400:
                try:
                    enc.enc_val(sp)
                    pool.append((t, sp))
                except enc.Unencodable:
                    pass
    rng.shuffle(pool)
    return cases + history_cases(rng, pool)
