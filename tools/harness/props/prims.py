"""Primitive-level correspondence: the Python primitives of DESIGN.md App. C against lean/Valida/Py/Ops.lean,
over an atom pool x atom pool (exhaustive in the thorough tier, sampled in the quick tier).  Part of the C01
check (the primitives are its trusted base)."""
import operator
import pathlib

import enc
from core import Case

POOL = [None, True, False, 0, 1, -1, 2, 3, 7, -7, 6, 2 ** 53 + 1, 2 ** 63 - 1, 0.0, 1.0, 2.5, -7.5, 0.5, 1e-8, 5e-324, 1e300, 3.0,
        "", "a", "ab", "abc", "1", "b", "é", [], [1], [1, "a"], [1, 2], [0, "a"], [[1]], (), (1,), (1, "a"), (1, [2]),
        {}, {"a": 1}, {1: "a"}, {"a": 1, "b": 2}, int, str, dict, pathlib.Path,
        # beyond the double range (int -> float conversion overflows), and containers with repeated / `==`-equal elements
        2 ** 1024 - 1, 2 ** 1024, 2 ** 1023, 10 ** 400, -(10 ** 400), [1, 1], [1, True, 1.0], (0, 0.0, False), "aa"]

# one pair per branch of the primitives that the filter-level observables cannot see (a filter only records *that*
# the callable raised or returned False): always run, in every tier
FIXED_PAIRS = {
    "sub": [(True, 0.5), (0.5, True), (False, 2.5), (True, 1e-8), (2 ** 53 + 1, 0.0), (2 ** 53 + 3, 0.0), (0.0, 2 ** 53 + 1), (2 ** 1024 - 1, 0.5), (10 ** 400, 0.5), (0.5, -(10 ** 400))],
    "mod": [(2, -7), (-1, -7), (True, -7), (-7, 2), (-7.5, 2), (2.5, -1), (2 ** 53 + 1, 2.0), ("abc", ()), ("abc", (1,)), ("abc", [1]),
            ("abc", {}), ("abc", 5), ("abc", None), (7, 0), (7.0, 0), (7, 0.0), (2 ** 1024, 2.5),
            (10 ** 400, 0.0), (2 ** 1024, 0.0), (-(10 ** 400), 0.0), (0.0, 10 ** 400), (True, 2.5), (2.5, True), (False, 0.5), (7.5, True)],
    "lt": [((1,), (1, "a")), ((), ()), ((1, 2), (1, 3)), ([1], [1, 2]), ("a", "ab"), ((1, "a"), (1, 2)), ([1], (1,)), (True, 2), (None, 1)],
    "le": [((1,), (1, "a")), ((), ()), ((1, 2), (1, 3)), ([1, 2], [1]), ("ab", "a"), (1.0, 1)],
    "gt": [((1,), (1, "a")), ((1, 3), (1, 2)), ([1, 2], [1]), ("b", "ab"), (2 ** 53 + 1, 9007199254740992.0)],
    "ge": [((1,), (1,)), ((), (1,)), ([1], [1]), ("", ""), (2 ** 53, 9007199254740993)],
    "getItem": [([1, 2], -1), ((1, "a"), -1), ([1], -2), ("ab", -1), ([1, 2], 2), ([1, 2], True), ({1: "a"}, True), ({1: "a"}, 1.0),
                ({"a": 1}, ["a"]), ([1, 2], 1.0), ((1, 2), 0), ("ab", 0)],
    "contains": [("", ""), ("", "abc"), ("a", ""), ("b", "abc"), (1, "abc"), (1, [True]), (1.0, (1,)), ([1], [[1.0]]), ("a", {"a": 1}),
                 ([1], {"a": 1}), (1, {True: 0}), (None, [None])],
    "eq": [(True, 1.0), (1.0, True), (False, 0.0), ({"a": 1, "b": 2}, {"b": 2, "a": 1}), ({"a": 1}, {"a": 1.0}), ({1: "x"}, {"1": "x"}), ([1, 1], [1]), ({1: "a"}, {True: "a"}), ({1: "a"}, {1.0: "a", 2: "b"}), ((1, [2]), (1, [2.0])), (2 ** 53 + 1, 9007199254740992.0),
           (10 ** 400, 1e300), ("a", ("a",))],
    "ne": [([1, 1], [1]), ({"a": 1, "b": 2}, {"b": 2, "a": 1}), (0, False), (0.0, -0)],
    "isinstance": [(True, int), (1, bool), ([], (list, dict)), ({}, ()), (1, (str, (int,))), (1, 1), (int, int), (None, type(None))],
}

BINARY = {
    "eq": operator.eq, "ne": operator.ne, "lt": operator.lt, "le": operator.le, "gt": operator.gt, "ge": operator.ge,
    "contains": lambda a, b: a in b, "mod": operator.mod, "sub": operator.sub,
    "isinstance": lambda a, b: isinstance(a, b), "getItem": lambda a, k: a[k],
}
UNARY = {
    "len": len, "type": type, "not": lambda a: not a, "abs": abs, "set": lambda a: sorted_set(a),
    "hashable": lambda a: is_hashable(a),
}


def is_hashable(a):
    try:
        hash(a)
        return True
    except TypeError:
        return False


def sorted_set(a):
    # the model represents a set as the list of first occurrences
    seen = []
    for x in set(a) and a:
        if not any(x == y and type(x) is type(y) or x == y for y in seen):
            seen.append(x)
    return seen


def big_mod(a, b):
    return False


def make(op, args, f):
    try:
        eargs = [enc.enc_val(a) for a in args]
    except enc.Unencodable:
        return None
    c = Case("prim", {"op": op, "args": eargs})
    c.py = f"import pathlib\nprint({op!r}, {args!r})"

    def run():
        v = f(*args)
        return enc.enc_val(v)
    o = enc.outcome(run)
    if o[0] == "exc" and o[1] == "Unencodable":
        return None
    c.ask(["prim", op, eargs], o, "prim:" + op)
    c.nontrivial = True
    c.features.add(("prim", op, o[0] if o[0] == "exc" else "ok"))
    return c


def in_range(x, l, u):
    return x in range(l, u)


def generate(rng, n, tier):
    cases = []
    for op, plist in FIXED_PAIRS.items():
        for a, b in plist:
            c = make(op, [a, b], BINARY[op])
            if c is not None:
                cases.append(c)
    pairs = [(a, b) for a in POOL for b in POOL]
    if tier != "thorough":
        pairs = rng.sample(pairs, min(len(pairs), max(n // (len(BINARY) + 2), 10)))
    for (a, b) in pairs:
        for op, f in BINARY.items():
            if op == "mod" and isinstance(a, str) and "%" in a:
                continue
            c = make(op, [a, b], f)
            if c is not None:
                cases.append(c)
        if type(a) in (int, bool) and type(b) in (int, bool) and abs(b - a) < 1000:
            for x in (POOL if tier == "thorough" else rng.sample(POOL, 6)):
                c = make("inRange", [x, a, b], in_range)
                if c is not None:
                    cases.append(c)
    for a in POOL:
        for op, f in UNARY.items():
            if op == "set" and not isinstance(a, (list, tuple, str, dict)):
                continue
            c = make(op, [a], f)
            if c is not None:
                cases.append(c)
    for s in ["1", " 12 ", "-3", "+7", "1_0", "_1", "1__0", "", "abc", "1.5", "0x10", "١٢", "12 3", "\t5\n",
              "1\x1f", "\x1c1", "\x1d 1 \x1e", "\x0b7\x0c", "9" * 4300, "9" * 4301, "0" * 4300 + "1", "1_" * 4300 + "1",
              "-" + "9" * 4301, "  " + "1" * 4300 + "  "]:
        c = make("int", [s], lambda t: int(t))
        if c is not None:
            cases.append(c)
    return cases
