"""C19 – malformed specs are rejected with spec errors, never internal ones."""
import copy
import warnings

import enc
import terms
from core import Case
from gen import Gen
from props import rules_common as rc
from props import c09, c10

import valida.datapath as DP
from valida.conditions import ConditionLike
from valida.datapath import ContainerValue
from valida.rules import Rule
from valida.schema import Schema

warnings.simplefilter("ignore")

ALLOWED = {"MalformedConditionLikeSpec", "MalformedContainerItemSpec", "MalformedDataPathSpec", "MalformedRuleSpec",
           "TypeError", "ValueError"}


def allowed(exc_obj):
    n = type(exc_obj).__name__
    if n in ALLOWED:
        return True
    if n == "KeyError" and exc_obj.args and exc_obj.args[0] in ("path", "condition"):
        return True
    return False


def run(parse, spec):
    """('ok', obj) | ('exc', name, allowed?)"""
    import signal
    try:
        return ("ok", parse(copy.deepcopy(spec)))
    except RecursionError:
        return ("exc", "RecursionError", False)
    except Exception as e:  # noqa: BLE001
        return ("exc", type(e).__name__, allowed(e))


PARSERS = {
    "cond": (ConditionLike.from_spec, "parse_cond", lambda o: enc.enc_cond(o)),
    "part": (ContainerValue.from_spec, "parse_part", lambda o: enc.enc_part(o)),
    "path": (DP.DataPath.from_spec, "parse_path", lambda o: ["path", enc.enc_path(o)] if isinstance(o, DP.DataPath) else ["lit", enc.enc_val(o)]),
    "rule": (Rule.from_spec, "parse_rule", lambda o: {"rule": enc.enc_rule(o), "doc": None if o.doc is None else enc.enc_val(o.doc)}),
}


def make_case(kind, spec, must_reject, what):
    parse, op, encode = PARSERS[kind]
    try:
        espec = enc.enc_val(spec)
    except enc.Unencodable:
        return None
    c = Case("malformed", {"parser": kind, "spec": espec, "injected": what})
    fn = {"cond": "ConditionLike.from_spec", "part": "ContainerValue.from_spec", "path": "DataPath.from_spec", "rule": "Rule.from_spec"}[kind]
    c.py = rc.PY_HEAD + f"print({fn}({terms.repr_py(spec)}))"
    o = run(parse, spec)
    if o[0] == "ok":
        if must_reject:
            c.fail("accepted", f"a spec with {what} was accepted")
            if what == "an argument for a callable without parameters":
                c.tags = getattr(c, "tags", set()) | {"arg_for_nullary"}
        try:
            impl = ["ok", encode(o[1])]
        except Exception:  # noqa: BLE001
            impl = None
    else:
        if not o[2]:
            c.fail("internal_error", f"parsing raised {o[1]} (spec with {what})")
        impl = ["exc", o[1]]
    if kind == "part" and not isinstance(spec, dict):
        impl = None
    if impl is not None:
        c.ask([op, espec], impl, op, cmp_outcome if must_reject or o[0] == "exc" else None)
    c.nontrivial = o[0] == "exc"
    c.features.add((kind, what if must_reject else "mutation", o[1] if o[0] == "exc" else "accepted"))
    return c


def cmp_outcome(impl, model):
    """for rejected specs compare the exception class only"""
    from core import default_cmp
    if isinstance(model, list) and model[:1] == ["exc"] and model[1] in ("UNMODELLED",):
        return "SKIP"
    if impl[0] == "exc" and isinstance(model, list) and model[0] == "exc":
        return None if impl[1] == model[1] else f"impl raises {impl[1]}, model raises {model[1]}"
    return default_cmp(impl, model)


# ---- definite injections -------------------------------------------------------------------------

def inject_cond(r, spec):
    """(mutated spec, what) from a well-formed single-leaf condition spec {key: val}"""
    (key, val), = spec.items()
    toks = key.split(".")
    choice = r.choice(["datum", "preproc", "preproc-na", "map-on-non-map", "op-tokens", "callable", "arity-long", "arity-short", "several", "typename", "shape"])
    if choice == "op-tokens":
        # an operator name followed by further key tokens (or in another letter case) is no operator
        op = r.choice(["and", "or", "xor"])
        k = r.choice([op + ".length", op + ".equal_to", op + ".dtype.equal_to", op + ".", "." + op, op.upper(), op.capitalize(), op + "." + op])
        return {k: [spec, {"value.truthy": None}]}, "an operator name with extra key tokens / in another letter case"
    if choice == "map-on-non-map":
        # a callable that only mapping-valued classes offer, on a class that does not
        pre = r.choice([["index"], ["value", "length"], ["value", "dtype"], ["key", "len"], ["key", "type"], ["Index"]])
        name = r.choice(["keys_contain", "allowed_keys", "required_keys", "items_contain", "keys_is_instance", "keys_equal_to",
                         "keys_contain_any_of", "forbidden_keys"])
        return {".".join(pre + [name]): val}, "a mapping callable on a class without mapping callables"
    if choice == "preproc-na":
        # a pre-processor that exists, on the one datum kind that has none
        pre = r.choice(["length", "len", "dtype", "type", "LENGTH", "Len", "DType"])
        sp = {".".join([r.choice(["index", "Index", "INDEX"]), pre, toks[-1]]): val}
        if r.random() < 0.3:
            sp = {r.choice(["and", "or", "xor"]): [{"index.equal_to": 0}, sp]}
        return sp, "a pre-processor the datum kind does not have"
    if choice == "datum":
        return {".".join([r.choice(["foo", "values", "val", "item"])] + toks[1:]): val}, "an unknown datum kind"
    if choice == "preproc":
        return {".".join([toks[0], r.choice(["size", "mro", "__class__", "lenght"]), toks[-1]]): val}, "an unknown pre-processor"
    if choice == "callable":
        return {".".join(toks[:-1] + [r.choice(["equals", "mro", "from_spec", "filter", "__init__", "is_null", "flatten"])]): val}, "an unknown callable"
    if choice == "arity-long":
        return {key + "." + r.choice(["x", "eq"]): val}, "too many key tokens"
    if choice == "arity-short":
        return {toks[0]: val}, "too few key tokens"
    if choice == "several":
        return {key: val, toks[0] + ".truthy_": None}, "several keys"
    if choice == "typename":
        return {toks[0] + ".dtype.equal_to": r.choice(["integer", "strr", "number", 5, None])}, "an unknown type name"
    # wrong argument shape for the signature branch
    sh = r.choice(["multi-scalar", "varpos-scalar", "varkw-list", "too-many-positionals", "positional-for-none"])
    if sh == "too-many-positionals":
        return {"value.in_range": r.choice([[1, 2, 3], (0, 1, 2, 3)])}, "more positional arguments than parameters"
    if sh == "positional-for-none":
        return {"value.truthy": r.choice([[1], {"a": 1}, [[]], "x"])}, "an argument for a callable without parameters"
    if sh == "multi-scalar":
        return {"value.in_range": r.choice([5, "a", None])}, "a scalar for a multi-parameter callable"
    if sh == "varpos-scalar":
        return {"value.is_instance": r.choice(["int", {"a": 1}])}, "a non-list for a var-positional callable"
    return {"value.items_contain": r.choice([[1, 2], 5, "a"])}, "a non-mapping for a var-keyword callable"


def inject_part(r, spec):
    spec = dict(spec)
    choice = r.choice(["type", "argument", "value-kind", "key-kind"])
    if choice == "type":
        spec["type"] = r.choice(["set_value", "map", "MapValue", 5])
        return spec, "an unknown part type"
    if choice == "argument":
        spec[r.choice(["keyy", "indexx", "val", "conditions", "foo.bar"])] = 1
        return spec, "an unknown part argument"
    if choice == "value-kind":
        spec = {"type": spec.get("type", "map_value"), "value": {"key.eq": "a"}}
        return spec, "a key condition under 'value'"
    spec = {"type": "map_value", "key": {"value.eq": 1}}
    return spec, "a value condition under 'key'"


def inject_path(r, spec):
    (key, val), = spec.items()
    choice = r.choice(["suffix", "arity", "several", "root"])
    if choice == "suffix":
        return {"path." + r.choice(["middle", "simplify", "get_data", "parts", "none", "lenght"]): val}, "an unknown path suffix"
    if choice == "arity":
        return {"path.length.first.all": val}, "too many path suffixes"
    if choice == "several":
        return {key: val, "path.first": val}, "several keys"
    return {r.choice(["paths", "pth", "value"]): val}, "a key that does not start with 'path'"


def inject_rule(r, spec):
    spec = dict(spec)
    choice = r.choice(["no-path", "no-condition", "cast-from", "cast-to", "cast-pair", "cast-shape", "doc-shape"])
    if choice == "no-path":
        spec.pop("path")
        return spec, "no path"
    if choice == "no-condition":
        spec.pop("condition")
        return spec, "no condition"
    if choice == "cast-from":
        spec["cast"] = {r.choice(["string", "text", 5]): "int"}
        return spec, "an unknown cast-from type"
    if choice == "cast-to":
        spec["cast"] = {"str": r.choice(["float", "integer", None])}
        return spec, "an unknown cast-to type"
    if choice == "cast-pair":
        spec["cast"] = {r.choice(["int", "bool"]): "str"}
        return spec, "an unsupported cast"
    if choice == "cast-shape":
        spec["cast"] = r.choice([["str", "int"], "str", 5, [], "", 0, False, (), 0.0])
        return spec, "a mis-shaped cast"
    spec["doc"] = r.choice([5, {"description": [1, 2]}, {"description": {"a": 1}}, {"description": "x", "examples": "y"}, {"examples": [None]}])
    return spec, "a mis-shaped doc"


# ---- arbitrary structural mutation ---------------------------------------------------------------

JUNK = [None, 0, 1, -1, 2.5, True, "", "a", "value", "path", "and", "value.eq", [], {}, [1], {"a": 1}, {1: 2}, [[]], [{}],
        {"path": ["a"]}, {"value.eq": 1}, ("a", 1), {"and": []}, {"type": "map_value"}, "x" * 3, {None: None}]


def mutate(r, v, depth=0):
    """one random structural mutation somewhere inside v"""
    if depth > 6:
        return r.choice(JUNK)
    x = r.random()
    if isinstance(v, dict) and v and x < 0.75:
        k = r.choice(list(v.keys()))
        y = r.random()
        out = dict(v)
        if y < 0.45:
            out[k] = mutate(r, v[k], depth + 1)
        elif y < 0.6:
            del out[k]
        elif y < 0.8:
            nk = r.choice([1, None, 2.5, True, "", "a.b", "value", k.upper() if isinstance(k, str) else "k", (1, 2),
                           (k + ".x") if isinstance(k, str) else "z"])
            out = {(nk if kk == k else kk): vv for kk, vv in v.items()}
        else:
            out[r.choice(["extra", 1, "value.eq", "type", "label", "cast", "doc", "path", "condition", "key", "index"])] = r.choice(JUNK)
        return out
    if isinstance(v, (list, tuple)) and v and x < 0.75:
        i = r.randrange(len(v))
        out = list(v)
        y = r.random()
        if y < 0.5:
            out[i] = mutate(r, v[i], depth + 1)
        elif y < 0.65:
            del out[i]
        elif y < 0.8:
            out.insert(i, r.choice(JUNK))
        else:
            return tuple(out) if isinstance(v, list) else list(out)
        return out if isinstance(v, list) else tuple(out)
    return r.choice(JUNK)


def matches_known(entry, case, name, detail):
    m = entry.get("match", {})
    return m.get("tag") in getattr(case, "tags", set()) and m.get("predicate", name) == name


def generate(rng, n, tier):
    from props import corners
    _corner = corners.parse_cases()
    g = Gen(rng, pct_strings=False, max_depth=2)
    cases = list(_corner)
    fixed = [
        ("cond", {"value.mro": None}, True, "an unknown callable"), ("cond", {1: 2}, False, "mutation"),
        ("path", {}, True, "an empty mapping"), ("path", {"path.simplify": ["a"]}, True, "an unknown path suffix"),
        ("cond", {"value.equal_to": {}}, False, "mutation"), ("cond", {"value.in": [{}]}, False, "mutation"),
        ("rule", {"path": ["a"], "condition": {}, "cast": ["str"]}, True, "a mis-shaped cast"),
        ("rule", {"path": ["a"], "condition": {}, "cast": []}, True, "a mis-shaped cast (an empty list)"),
        ("rule", {"path": ["a"], "condition": {}, "cast": ""}, True, "a mis-shaped cast (an empty string)"),
        ("rule", {"path": ["a"], "condition": {}, "cast": False}, True, "a mis-shaped cast (false)"),
        ("rule", {"path": ["a"], "condition": {}, "cast": 0}, True, "a mis-shaped cast (0)"),
        ("rule", {"path": ["a"], "condition": {}, "doc": {"description": [1]}}, True, "a mis-shaped doc"),
        ("cond", {"and": [{"and": [{"value.gt": 1}, {"value.lt": 4}]}, {}]}, False, "mutation"),
        ("part", {"type": "map_value", 5: 1}, True, "an unknown part argument"),
        ("cond", {"value.__class__.mro": None}, True, "an unknown pre-processor"),
        ("cond", {"index.length.equal_to": 1}, True, "a pre-processor the datum kind does not have"),
        # keyword names that clash with a parameter on the way to the stored callable: Python's TypeError
        ("cond", {"value.items_contain": {"cls": 1}}, False, "mutation"), ("cond", {"value.items_contain": {"self": 1}}, False, "mutation"),
        ("cond", {"value.items_contain": {"callable": 1, "a": 2}}, False, "mutation"), ("cond", {"value.items_contain": {"func": 1}}, False, "mutation"),
        ("part", {"type": "list_value", "index.len.lt": 2}, True, "a pre-processor the datum kind does not have"),
    ]
    for kind, spec, must, what in fixed:
        c = make_case(kind, spec, must, what)
        if c is not None:
            cases.append(c)
    while len(cases) < n:
        kind = rng.choice(["cond", "cond", "part", "path", "rule", "rule"])
        # a well-formed base spec
        if kind == "cond":
            t = terms.gen_tree(g, rng.choice(["value", "key", "index"]), depth=rng.choice([0, 0, 1, 2]), null_p=0.05)
            base = c09.tree_spell(rng, t)
            single_leaf = t[0] == "leaf"
        elif kind == "part":
            p = terms.gen_part(g, prim_p=0.0)
            base = c10.part_spec(rng, p)
        elif kind == "path":
            parts = [terms.gen_part(g, 0.6) for _ in range(rng.choice([1, 2, 3]))]
            specs = [c10.part_spec(rng, p) for p in parts]
            base = None if any(s is None and p[0] != "prim" for s, p in zip(specs, parts)) else {"path": specs}
        else:
            rs = c10.rule_spec(g, rc.gen_rule(g, cast_p=0.4))
            base = rs[0] if rs else None
        if not isinstance(base, dict) or not base:
            continue
        if rng.random() < 0.45:
            if kind == "cond":
                if not single_leaf:
                    continue
                spec, what = inject_cond(rng, base)
            elif kind == "part":
                spec, what = inject_part(rng, base)
            elif kind == "path":
                spec, what = inject_path(rng, base)
            else:
                spec, what = inject_rule(rng, base)
            c = make_case(kind, spec, True, what)
        else:
            spec = mutate(rng, base)
            for _ in range(rng.choice([0, 0, 1, 2])):
                spec = mutate(rng, spec)
            c = make_case(kind, spec, False, "mutation")
        if c is not None:
            cases.append(c)
    return cases
