"""C02 – and/or/xor combinations are pointwise Boolean algebra with null as identity; operands are
never altered (object histories)."""
import warnings

import enc
import terms
from core import Case
from gen import Gen
from props.c01 import obs_filtered, cmp_coarse, has_pct

import valida.conditions as C

warnings.simplefilter("ignore")

BIN_CLS = {"and": C.ConditionAnd, "or": C.ConditionOr, "xor": C.ConditionXor}
OPF = terms.OPF


def results_of(cond, doc):
    return enc.outcome(lambda: list(cond.filter(doc).result))


# ---- A: trees ---------------------------------------------------------------------------------

def tree_case(t, doc):
    desc = {"tree": terms.tree_desc(t), "doc": enc.enc_val(doc)}
    c = Case("tree", desc)
    c.py = ("from valida.conditions import *\nimport pathlib\n"
            f"print({terms.tree_py(t)}.filter({terms.repr_py(doc)}).result)")
    kinds = terms.tree_kinds(t)
    built = enc.outcome(lambda: terms.build_tree(t))
    if built[0] != "ok":
        # only key/index mixing may be refused
        if not ({"key", "index"} <= kinds and built[1] == "TypeError"):
            c.fail("construction", f"building the combination raised {built[1]}")
        else:
            c.features.add(("mixed-refused",))
        # K: the model's constructor refuses as well
        st = terms.simplify_tree(t)
        if st[0] == "bin":
            a, b = enc.outcome(lambda: terms.build_tree(st[2])), enc.outcome(lambda: terms.build_tree(st[3]))
            if a[0] == "ok" and b[0] == "ok":
                c.ask(["mkbin", st[1], enc.enc_cond(a[1]), enc.enc_cond(b[1])], built, "mkbin")
        return c
    if {"key", "index"} <= kinds:
        c.fail("mixed_kinds", "key-kind and index-kind conditions were combined without TypeError")
    cond = built[1]
    term = enc.enc_cond(cond)
    impl = enc.outcome(lambda: obs_filtered(cond.filter(doc)))
    sensitive = has_pct(doc) or "%" in repr(term)
    c.ask(["filter", term, enc.enc_val(doc)], impl, "filter", cmp_coarse if sensitive else None)
    st = terms.simplify_tree(t)
    is_list = isinstance(doc, list)
    single = st[0] != "bin"
    refuse = single and st[0] == "leaf" and (
        (terms.CLS_INFO[st[1]][0] == "key" and is_list) or (terms.CLS_INFO[st[1]][0] == "index" and not is_list))
    if refuse:
        if impl != ["exc", "TypeError"]:
            c.fail("kind_refusal", "single key/index condition on the wrong container was not refused")
        return c
    if impl[0] != "ok":
        c.fail("never_aborts", f"filter raised {impl[1]}")
        return c
    res = impl[1]["result"]
    keys = list(range(len(doc))) if is_list else list(doc.keys())
    vals = list(doc) if is_list else list(doc.values())
    exp = [terms.sat_tree(t, k, v) for k, v in zip(keys, vals)]
    if res != exp:
        c.fail("pointwise", f"result {res} but the Boolean combination of the leaves' documented meanings is {exp}")
    # operands evaluated separately, on the implementation itself
    if t[0] == "bin":
        a, b = terms.build_tree(t[2]), terms.build_tree(t[3])

        def sub(x):
            # a single key/index operand must be filtered through a combination-free route: use _filter
            from valida.data import Data
            return list(x._filter(Data(doc)).result)
        ra, rb = enc.outcome(lambda: sub(a)), enc.outcome(lambda: sub(b))
        if ra[0] == "ok" and rb[0] == "ok":
            if a.is_null or b.is_null:
                want = rb[1] if a.is_null else ra[1]
            else:
                want = [OPF[t[1]](x, y) for x, y in zip(ra[1], rb[1])]
            if res != want:
                c.fail("pointwise_operands", f"result {res} but operands give {ra[1]} {t[1]} {rb[1]}")
    # the same combination written as spec lists ({op: [a, b, c]} folds from the left)
    from props.c09 import tree_spell
    import copy
    import random as _random
    from valida.conditions import ConditionLike
    sp = tree_spell(_random.Random(len(repr(desc))), t)
    if sp is not None and t[0] == "bin":
        parsed = enc.outcome(lambda: ConditionLike.from_spec(copy.deepcopy(sp)))
        if parsed[0] == "ok":
            c.ask(["parse_cond", enc.enc_val(sp)], ["ok", enc.enc_cond(parsed[1])], "parse_cond")
            rs = enc.outcome(lambda: list(parsed[1].filter(doc).result))
            if rs != ["ok", res]:
                c.fail("pointwise_spec_lists", f"the combination written as spec lists {sp!r:.300} gives {rs} but the operators give {res}")
        else:
            c.fail("pointwise_spec_lists", f"the combination written as spec lists {sp!r:.300} was rejected with {parsed[1]}")
        c.features.add(("spec-lists",))
    c.nontrivial = len(set(res)) == 2
    c.features.add((depth_of(st), tuple(sorted(kinds)), ops_of(st), "T" in {("T" if x else "F") for x in res}))
    return c


def depth_of(t):
    return 0 if t[0] != "bin" else 1 + max(depth_of(t[2]), depth_of(t[3]))


def ops_of(t):
    if t[0] != "bin":
        return ()
    return tuple(sorted(set((t[1],) + ops_of(t[2]) + ops_of(t[3]))))


# ---- B: object histories ------------------------------------------------------------------------

def history_case(g, n_instr, probe_docs):
    r = g.r
    instrs = []      # ("leaf", tree-leaf-recipe) | ("comb", op, ia, ib, via)
    kind = r.choice(["value", "value", "value+key", "value+index", "key", "index", "key+index",
                     "value+key+index", "value+value+key+index"])
    n_leaves = r.choice([2, 3, 3, 4, 5])
    for _ in range(n_leaves):
        if r.random() < 0.25:
            instrs.append(("leaf", ("null",)))
        else:
            k = r.choice(kind.split("+"))
            instrs.append(("leaf", terms.gen_leaf(g, k, hostile_p=0.02)))
    for _ in range(n_instr):
        op = r.choice(["and", "or", "xor"])
        # bias towards reusing recent combinations with the same operator and null operands
        ia = r.randrange(len(instrs))
        ib = r.randrange(len(instrs))
        instrs.append(("comb", op, ia, ib, r.choice(["operator", "class"])))
    return run_history(instrs, probe_docs)


def kinds_of(obj):
    """'key' / 'index' / 'value' kinds among the leaves of a condition object (through `children`, no cache)"""
    out = set()
    stack = [obj]
    seen = 0
    while stack and seen < 10000:
        seen += 1
        o = stack.pop()
        ch = getattr(o, "children", None)
        if ch is not None:
            stack.extend(ch)
        elif isinstance(o, C.KeyLike):
            out.add("key")
        elif isinstance(o, C.IndexLike):
            out.add("index")
        elif isinstance(o, C.ValueLike):
            out.add("value")
    return out


def run_history(instrs, probe_docs):
    desc = {"history": [(["leaf", terms.tree_desc(i[1])] if i[0] == "leaf" else ["comb", i[1], i[2], i[3], i[4]])
                        for i in instrs]}
    c = Case("history", desc)
    lines = ["from valida.conditions import *", "import pathlib", "o = []"]
    for i in instrs:
        if i[0] == "leaf":
            lines.append(f"o.append({terms.tree_py(i[1])})")
        else:
            sym = {"and": "&", "or": "|", "xor": "^"}[i[1]]
            cls = {"and": "ConditionAnd", "or": "ConditionOr", "xor": "ConditionXor"}[i[1]]
            if i[4] == "operator":
                lines.append(f"o.append(o[{i[2]}] {sym} o[{i[3]}])")
            else:
                lines.append(f"o.append({cls}(o[{i[2]}], o[{i[3]}]))")
    lines.append("print([x.filter([1, 'a', {}]).result if x is not None else None for x in o])")
    c.py = "\n".join(lines)
    objs = []
    outs = []
    req_instrs = []
    usable = True

    def snapshot():
        """behaviour of every live object on the probe documents + identity of children"""
        snap = []
        for o in objs:
            if o is None:
                snap.append(None)
                continue
            from valida.data import Data
            beh = []
            for d in probe_docs:
                beh.append(enc.outcome(lambda o=o, d=d: list(o._filter(Data(d)).result)))
            kids = tuple(id(x) for x in getattr(o, "children", ()))
            snap.append((beh, kids))
        return snap

    for ins in instrs:
        if ins[0] == "leaf":
            o = terms.build_tree(ins[1])
            objs.append(o)
            outs.append(("ok", o))
            req_instrs.append(["leaf", enc.enc_cond(o)])
            continue
        _, op, ia, ib, via = ins
        a, b = objs[ia], objs[ib]
        if a is None or b is None:
            # refers to a failed construction: not a meaningful history
            usable = False
            break
        before = snapshot()
        if via == "operator":
            res = enc.outcome(lambda: terms.OPS[op](a, b))
        else:
            res = enc.outcome(lambda: BIN_CLS[op](a, b))
        req_instrs.append(["comb", op, ia, ib])
        if res[0] == "ok":
            objs.append(res[1])
            outs.append(("ok", res[1]))
            if {"key", "index"} <= (kinds_of(a) | kinds_of(b)) and not (a.is_null or b.is_null):
                c.fail("mixed_kinds", f"combining #{ia} and #{ib} mixes key-kind and index-kind conditions without TypeError")
        else:
            objs.append(None)
            outs.append(("exc", res[1]))
            # only key-kind mixed with index-kind may be refused (TypeError), judged from the operands' leaves
            kinds = kinds_of(a) | kinds_of(b)
            if not (res[1] == "TypeError" and {"key", "index"} <= kinds):
                c.fail("construction", f"combining #{ia} and #{ib} (leaf kinds {sorted(kinds)}) raised {res[1]}")
        after = snapshot()
        # operands (and every other existing object) are never altered
        for idx, (x, y) in enumerate(zip(before, after[:len(before)])):
            if x != y:
                c.fail("operands_unaltered", f"object #{idx} behaves differently after instruction {len(objs) - 1} ({op} of #{ia}, #{ib})")
                break
        # the combination is the pointwise combination of its operands (null = identity)
        if res[0] == "ok":
            new = after[len(objs) - 1][0]
            ba, bb = before[ia][0], before[ib][0]
            for pd, rn, ra, rb in zip(probe_docs, new, ba, bb):
                if ra[0] != "ok" or rb[0] != "ok":
                    continue
                if b.is_null:
                    want = ra[1]
                elif a.is_null:
                    want = rb[1]
                else:
                    want = [OPF[op](x, y) for x, y in zip(ra[1], rb[1])]
                if rn != ["ok", want]:
                    c.fail("pointwise", f"instruction {len(objs) - 1}: got {rn} want {want}")
                    break
    if not usable:
        return None
    # K: identities canonicalised to the first instruction returning the object
    first = {}
    impl_outs = []
    for i, (k, v) in enumerate(outs):
        if k == "ok":
            first.setdefault(id(v), i)
            impl_outs.append(["ok", first[id(v)]])
        else:
            impl_outs.append(["exc", v])
    impl_dens = []
    for (k, v) in outs:
        if k == "ok":
            impl_dens.append(enc.outcome(lambda v=v: enc.enc_cond(v)))
            if impl_dens[-1][0] == "exc" and impl_dens[-1][1] == "Unencodable":
                impl_dens[-1] = ["exc", "RecursionError"]
        else:
            impl_dens.append(["exc", v])

    def cmp(impl, model):
        if isinstance(model, dict) and "driver_error" in model:
            return "driver_error: " + model["driver_error"]
        mfirst = {}
        mouts = []
        for i, o in enumerate(model["outs"]):
            if o[0] == "ok":
                mfirst.setdefault(o[1], i)
                mouts.append(["ok", mfirst[o[1]]])
            else:
                mouts.append(o)
        if mouts != impl["outs"]:
            return f"outcomes/identities differ: impl {impl['outs']} model {mouts}"
        if model["dens"] != impl["dens"]:
            return "final denotations differ"
        return None
    c.ask(["build", req_instrs], {"outs": impl_outs, "dens": impl_dens}, "build", cmp)
    ncomb = sum(1 for i in instrs if i[0] == "comb")
    shared = len({id(v) for k, v in outs if k == "ok"}) < sum(1 for k, v in outs if k == "ok")
    c.nontrivial = ncomb >= 2
    c.features.add(("history", ncomb, shared, any(k == "exc" for k, _ in outs)))
    return c


CORPUS_TREES = [
    (("bin", "and", ("null",), ("bin", "and", ("leaf", "Value", "gt", [1], {}), ("leaf", "Value", "lt", [4], {}))), [1, 2, 3, 4]),
    (("bin", "and", ("bin", "and", ("leaf", "Value", "gt", [1], {}), ("leaf", "Value", "lt", [4], {})), ("null",)), [1, 2, 3, 4]),
    (("bin", "xor", ("leaf", "Value", "gt", [1], {}), ("leaf", "Value", "lt", [4], {})), [1, 2, 3, 4, "a"]),
    (("bin", "or", ("leaf", "Key", "eq", ["a"], {}), ("leaf", "Value", "eq", [2], {})), {"a": 1, "b": 2, "c": 3}),
    (("bin", "or", ("leaf", "Index", "eq", [0], {}), ("leaf", "Value", "eq", [2], {})), [1, 2, 3]),
    (("bin", "and", ("leaf", "Key", "eq", ["a"], {}), ("leaf", "Index", "eq", [0], {})), [1, 2]),
    (("bin", "or", ("leaf", "Key", "eq", [0], {}), ("leaf", "Value", "eq", [2], {})), [1, 2, 3]),
    (("bin", "xor", ("null",), ("null",)), [1, 2]),
]

CORPUS_HISTORIES = [
    [("leaf", ("leaf", "Value", "gt", [1], {})), ("leaf", ("leaf", "Value", "lt", [10], {})), ("leaf", ("leaf", "KeyLength", "eq", [1], {})),
     ("leaf", ("leaf", "Index", "lt", [3], {})), ("comb", "and", 0, 1, "operator"), ("comb", "or", 4, 2, "operator"),
     ("comb", "and", 4, 3, "operator"), ("comb", "xor", 4, 0, "operator")],
    [("leaf", ("leaf", "Value", "gt", [1], {})), ("leaf", ("leaf", "Value", "lt", [4], {})), ("leaf", ("null",)),
     ("comb", "and", 0, 1, "operator"), ("comb", "and", 2, 3, "operator"), ("comb", "and", 3, 2, "class"),
     ("comb", "or", 3, 2, "operator"), ("comb", "and", 3, 0, "operator")],
    [("leaf", ("leaf", "Key", "gt", ["a"], {})), ("leaf", ("leaf", "Index", "lt", [4], {})), ("leaf", ("leaf", "Value", "lt", [4], {})),
     ("comb", "and", 0, 2, "operator"), ("comb", "or", 3, 1, "operator"), ("comb", "or", 2, 1, "operator")],
    # a refused combination (key with index), then a successful one, then one that refers to the successful one
    [("leaf", ("leaf", "Key", "gt", ["a"], {})), ("leaf", ("leaf", "Index", "lt", [4], {})), ("leaf", ("leaf", "Value", "lt", [4], {})),
     ("comb", "and", 0, 1, "operator"), ("comb", "or", 2, 2, "operator"), ("comb", "and", 4, 2, "operator")],
    [("leaf", ("leaf", "Index", "gt", [0], {})), ("leaf", ("leaf", "Key", "eq", ["a"], {})), ("leaf", ("leaf", "Value", "gt", [0], {})),
     ("comb", "xor", 1, 0, "operator"), ("comb", "and", 2, 0, "operator"), ("comb", "or", 4, 2, "class"), ("comb", "and", 5, 4, "operator")],
]


def generate(rng, n, tier):
    g = Gen(rng, pct_strings=False, max_depth=2)
    probe_docs = [[1, "a", {"a": 1}, 0, 2.5, None, [1, 2]], {"a": 1, "b": "x", 0: {}, 1.5: 3, None: [0]}]
    cases = []
    for t, doc in CORPUS_TREES:
        cases.append(tree_case(t, doc))
    for h in CORPUS_HISTORIES:
        c = run_history(h, probe_docs)
        if c is not None:
            cases.append(c)
    while len(cases) < n:
        if rng.random() < 0.6:
            kind = rng.choice(["value", "value", "value+key", "value+index", "key", "index", "key+index"])
            depth = rng.choice([1, 2, 2, 3] if tier == "quick" else [1, 2, 3, 4, 5])
            t = terms.repeat_operands(rng, terms.gen_tree(g, kind, depth=depth, null_p=0.15))
            if "index" in kind and "key" not in kind:
                doc = g.list_(2)
            elif "key" in kind and "index" not in kind:
                doc = g.dict_(2)
            else:
                doc = g.doc()
            cases.append(tree_case(t, doc))
        else:
            c = history_case(g, rng.choice([2, 3, 4, 5, 6] if tier == "quick" else [3, 5, 7, 9]), probe_docs)
            if c is not None:
                cases.append(c)
    return cases
