"""C06 – schema verdict is the order-independent conjunction of its rules' verdicts.
(With cast_p > 0 the same machinery serves C07 / C15.)"""
import enc
import terms
from core import Case
from gen import Gen
from props import rules_common as rc
from props.c03 import gen_doc_for_parts
from props.c01 import has_pct

from valida.schema import Schema


def normalise(o, drop_reasons, drop_values):
    """a validation observable without what is not comparable: the per-test data (nested containers are
    shared with later casts), optionally the reason kinds (printf-sensitive cases) and the failure values
    (with casts, a failure's value may be changed afterwards by a later rule's cast)"""
    o = dict(o)
    tests = []
    for t in o["tests"]:
        t = dict(t)
        t["data"] = None
        fs = []
        for f in t["failures"]:
            f = list(f)
            if drop_values:
                f[1] = None
            if drop_reasons:
                f = f[:3]
            fs.append(f)
        t["failures"] = fs
        tests.append(t)
    o["tests"] = tests
    return o


def make_cmp(drop_reasons, drop_values):
    def cmp(impl, model):
        from core import default_cmp
        if impl[0] == "ok" and isinstance(model, list) and model[0] == "ok":
            a, b = normalise(impl[1], drop_reasons, drop_values), normalise(model[1], drop_reasons, drop_values)
            return None if a == b else "differ"
        return default_cmp(impl, model)
    return cmp


def stable_order(rules):
    return sorted(range(len(rules)), key=lambda i: len(rules[i]["parts"]))


def make_case(rules, doc, perm=None, check_perm=True, expect_no_raise=True):
    desc = {"rules": [rc.rule_desc(r) for r in rules], "doc": enc.enc_val(doc), "perm": perm}
    c = Case("validate", desc)
    rules_py = ", ".join(rc.rule_py(r) for r in rules)
    c.py = rc.PY_HEAD + (f"v = Schema([{rules_py}]).validate({terms.repr_py(doc)})\n"
                         "print(v.is_valid, v.num_failures, v.num_rules_tested, v.cast_data)\nprint(v.get_failures_string())")
    built = enc.outcome(lambda: [rc.build_rule(r) for r in rules])
    if built[0] != "ok":
        if built[1] != "TypeError":
            c.fail("rule_constructor", f"building a rule raised {built[1]}")
        return c
    objs = built[1]
    terms_ = [enc.enc_rule(o) for o in objs]
    order = stable_order(rules)
    schema = Schema(list(objs))
    # rules are applied shortest path first, ties in the given order
    applied = [next(i for i, o in enumerate(objs) if o is x) for x in schema.rules]
    if applied != order:
        c.fail("applied_order", f"rules applied in order {applied}, expected {order}")
    doc_before = enc.enc_val(doc)
    impl = enc.outcome(lambda: rc.obs_validated(schema.validate(doc), applied))
    if enc.enc_val(doc) != doc_before:
        c.fail("callers_document_unchanged", "validate() modified the caller's document")
        doc = enc.dec_val(doc_before)
    sensitive = has_pct(doc) or "%" in repr(terms_)
    has_casts = any(r["cast"] for r in rules)
    c.ask(["validate", terms_, enc.enc_val(doc)], impl, "validate", make_cmp(sensitive, has_casts))
    if impl[0] != "ok":
        if expect_no_raise:
            c.fail("never_raises", f"Schema.validate raised {impl[1]}")
        return c
    o = impl[1]
    sorted_rules = [rules[i] for i in order]
    ref, cast_doc = rc.reference_validate(sorted_rules, doc)
    if o["is_valid"] != all(v for _, v, _ in ref):
        c.fail("conjunction", f"is_valid={o['is_valid']} but rule verdicts are {[v for _, v, _ in ref]}")
    if o["num_failures"] != sum(len(f) for _, _, f in ref):
        c.fail("failure_count", f"num_failures={o['num_failures']} expected {sum(len(f) for _, _, f in ref)}")
    if o["num_rules_tested"] != sum(1 for t, _, _ in ref if t):
        c.fail("tested_count", f"num_rules_tested={o['num_rules_tested']} expected {sum(1 for t, _, _ in ref if t)}")
    for t, (tested, valid, fails) in zip(o["tests"], ref):
        got = [(f[2], None if has_casts else f[1]) for f in t["failures"]]
        want = [(enc.enc_val(tuple(q)), None if has_casts else enc.enc_val(v)) for q, v in fails]
        if t["tested"] != tested or t["is_valid"] != valid or got != want:
            c.fail("rule_verdict", f"rule test ({t['tested']}, {t['is_valid']}, {got!r:.200}) expected ({tested}, {valid}, {want!r:.200})")
            break
    if o["cast_data"] != enc.enc_val(cast_doc):
        c.fail("cast_data", f"cast_data {o['cast_data']!r:.300} expected {enc.enc_val(cast_doc)!r:.300}")
    # the report is always a string naming every failing path
    v = schema.validate(doc)
    if not sensitive and not has_casts:
        # the text itself, against the model's report (Valida.Report with the reprs of Valida.Repr)
        impl_rep = enc.outcome(lambda: {"report": v.get_failures_string(),
                                        "rule_reports": [t.get_failures_string() for t in v.rule_tests]})
        c.ask(["report", terms_, enc.enc_val(doc)], impl_rep, "report")
    rep = enc.outcome(lambda: v.get_failures_string())
    if rep[0] != "ok" or not isinstance(rep[1], str):
        c.fail("report_is_string", f"get_failures_string() gave {rep!r:.100}")
    else:
        for t in v.rule_tests:
            for f in t.failures:
                if f"Path: {f.path!r}" not in rep[1]:
                    c.fail("report_names_paths", f"report does not name failing path {f.path!r}")
    # order independence
    if check_perm and perm is not None and len(rules) > 1:
        objs2 = [rc.build_rule(rules[i]) for i in perm]
        s2 = Schema(objs2)
        o2 = enc.outcome(lambda: s2.validate(doc))
        if o2[0] != "ok":
            c.fail("permutation", f"validate of the permuted schema raised {o2[1]}")
        else:
            v2 = o2[1]
            agg1 = (v.is_valid, v.num_failures, v.num_rules_tested)
            agg2 = (v2.is_valid, v2.num_failures, v2.num_rules_tested)
            if agg1 != agg2:
                c.fail("permutation", f"aggregates {agg1} vs {agg2} after permuting the rules")

            def pairs(vd, rule_objs, idxs):
                out = []
                for t in vd.rule_tests:
                    ri = idxs[next(i for i, ro in enumerate(rule_objs) if ro is t.rule)]
                    for f in t.failures:
                        out.append((ri, repr(enc.enc_val(tuple(f.path)))))
                return sorted(out)
            p1 = pairs(v, objs, list(range(len(objs))))
            p2 = pairs(v2, objs2, list(perm))
            if p1 != p2:
                c.fail("permutation", "the set of (rule, failing path) pairs depends on the rule order")
    nfail = o["num_failures"]
    c.nontrivial = len(rules) >= 2 and 0 < sum(1 for _, v_, _ in ref if not v_) < len(rules)
    c.features.add((min(len(rules), 5), o["is_valid"], min(nfail, 3), min(o["num_rules_tested"], 3),
                    any(r["cast"] for r in rules)))
    return c


def rand_float(rng):
    """finite doubles of every magnitude: random bit patterns, short decimals, neighbours of powers
    of two and ten (where the shortest-repr interval is asymmetric), sub-normals, integers"""
    import math
    import struct
    while True:
        k = rng.randrange(7)
        if k == 0:
            x = struct.unpack("<d", struct.pack("<Q", rng.getrandbits(64)))[0]
        elif k == 1:
            x = float(f"{rng.randrange(1, 10 ** rng.randrange(1, 18))}e{rng.randrange(-330, 310)}")
        elif k == 2:
            x = math.ldexp(1.0, rng.randrange(-1074, 1024))
            x = rng.choice([x, math.nextafter(x, math.inf), math.nextafter(x, 0.0)])
        elif k == 3:
            x = float(f"1e{rng.randrange(-323, 309)}")
            x = rng.choice([x, math.nextafter(x, math.inf), math.nextafter(x, 0.0)])
        elif k == 4:
            x = rng.randrange(1, 2 ** 52) * 5e-324
        elif k == 5:
            x = float(rng.randrange(-10 ** rng.randrange(1, 20), 10 ** rng.randrange(1, 20)))
        else:
            x = round(rng.uniform(-1000, 1000), rng.randrange(0, 6))
        if rng.random() < 0.3:
            x = -x
        if math.isfinite(x) and not (x == 0.0 and math.copysign(1.0, x) < 0):
            return x


def rand_text(rng):
    alphabet = "ab'\"\\\n\t\r\x00\x1f\x7f %{}`<>&" + "xyz09_-"
    s = "".join(rng.choice(alphabet) for _ in range(rng.randrange(0, 8)))
    if rng.random() < 0.1:
        s += rng.choice(["é", "\u2028", "\U0001f600", "\x85"])
    return s


def repr_case(rng, g):
    """primitive level: `repr` of a value against Valida.Repr (the report's `Path:` / `Value:` lines
    and the condition texts are built from it)"""
    k = rng.randrange(4)
    if k == 0:
        v = rand_float(rng)
    elif k == 1:
        v = rand_text(rng)
    elif k == 2:
        v = g.doc()
    else:
        v = rng.choice([(), (rand_float(rng),), [rand_text(rng), None, True], {rand_text(rng): rand_float(rng), 1: (2, 3)},
                        int, str, type(None), float, bool, list, dict, tuple, -(10 ** 30)])
    c = Case("repr", {"value": enc.enc_val(v)})
    c.py = f"print(repr({v!r}))"
    c.ask(["repr", enc.enc_val(v)], enc.outcome(lambda: repr(v)), "repr")
    c.features.add(("repr", type(v).__name__))
    return c


BARE = {"key": None, "index": None, "value": None, "condition": None, "list_condition": None, "map_condition": None, "label": None}


def dependent_cast_case(rng, g):
    """two cast rules, the later one SELECTING by the (string) content an earlier one casts: every rule selects in
    the document as given, so the later rule finds its nodes whatever the earlier one wrote into the copy"""
    castable = ["5", "12", "0", "true", "False", "1", "-3"]
    as_list = rng.random() < 0.5
    kind = rng.choice(["list", "molv"]) if as_list else rng.choice(["map", "molv"])
    k = rng.choice([1, 2, 3])
    if rng.random() < 0.5:
        # flat: a container of strings; rule A casts all of them, rule B selects those equal to one of the strings
        items = [rng.choice(castable + ["abc", "1.5"]) for _ in range(k + 1)]
        doc = list(items) if as_list else {f"k{i}": v for i, v in enumerate(items)}
        target = rng.choice(items)
        sel = rng.choice([("v", target), ("c", ("leaf", "Value", "is_instance", [str], {})),
                          ("c", ("leaf", "ValueDataType", "equal_to", [str], {})), ("c", ("leaf", "Value", "in_", [[target, "zz"]], {}))])
        parts_a = [(kind, dict(BARE))]
        parts_b = [(kind, dict(BARE, value=sel))]
    else:
        # nested: records with a 'kind' and an 'x'; rule A casts every 'kind', rule B selects the records by 'kind'
        recs = [{"kind": rng.choice(castable), "x": rng.choice(castable + ["abc"])} for _ in range(k)]
        doc = list(recs) if as_list else {f"k{i}": v for i, v in enumerate(recs)}
        target = rng.choice(recs)["kind"]
        sel = ("c", ("leaf", "Value", "items_contain", [], {"kind": target}))
        parts_a = [(kind, dict(BARE)), ("prim", "kind")]
        parts_b = [(kind, dict(BARE, value=sel)), ("prim", "x")]
    mk_cond = lambda: rc.gen_value_tree(g, depth=rng.choice([0, 1]), hostile_p=0.0)  # noqa: E731
    cast = lambda: rng.choice([["int"], ["bool"]])  # noqa: E731
    rules = [{"parts": parts_a, "cond": mk_cond(), "cast": cast()}, {"parts": parts_b, "cond": mk_cond(), "cast": cast()}]
    if rng.random() < 0.3:
        rules.append({"parts": parts_b, "cond": mk_cond(), "cast": []})
    c = make_case(rules, doc, None, check_perm=False)
    c.features.add(("dependent-cast-rules", kind, len(parts_a)))
    return c


def generate(rng, n, tier, cast_p=0.0, hostile=False):
    g = Gen(rng, pct_strings=True, max_depth=3)
    cases = []
    if cast_p == 0.0 and not hostile:
        from props import corners
        cases.extend(corners.repr_cases())
        for _ in range(max(50, n // 4)):
            cases.append(repr_case(rng, g))
    # the empty schema and single rules first
    cases.append(make_case([], {"a": 1}))
    while len(cases) < n:
        if cast_p > 0 and rng.random() < 0.06:
            cases.append(dependent_cast_case(rng, g))
            continue
        k = rng.choice([0, 1, 2, 2, 3, 3, 4, 5] if tier == "quick" else [0, 1, 2, 3, 4, 5, 6, 8])
        if rng.random() < 0.02:
            k = rng.choice([10, 11, 12])      # two-digit rule numbers in the report
        rules = [rc.gen_rule(g, cast_p=cast_p, hostile_p=0.0 if hostile else 0.03) for _ in range(k)]
        # a common document grown along one of the rule paths
        base_rule = rng.choice(rules) if rules else None
        base = base_rule["parts"] if base_rule else []
        doc = gen_doc_for_parts(g, base, leaf=rc.cast_leaf(g) if (base_rule and base_rule["cast"]) else None)
        if base_rule and base_rule["cast"] and rng.random() < 0.5:
            # several rules over the same nodes (two rules casting the same node, a cast and a cast-free rule …)
            for other in rules:
                if rng.random() < 0.5:
                    other["parts"] = base_rule["parts"]
        if base_rule and base_rule["cast"] and len(base) >= 2 and rng.random() < 0.35:
            # an earlier (shorter-path) cast rule that selects the CONTAINERS the base rule later casts inside:
            # the ancestors of the cast nodes, by plain prefix or through a bare map / list part
            j = rng.randrange(1, len(base))
            anc = list(base[:j])
            if rng.random() < 0.5 and anc:
                bare = lambda k: (k, {"key": None, "index": None, "value": None, "condition": None, "list_condition": None,  # noqa: E731
                                      "map_condition": None, "label": None})
                anc = anc[:-1] + [bare(rng.choice(["map", "list", "molv"]))]
            extra = rc.gen_rule(g, cast_p=1.0, hostile_p=0.0)
            extra["parts"] = anc
            rules.append(extra)
        if hostile and rng.random() < 0.5:
            doc = g.doc()
        perm = list(range(k))
        rng.shuffle(perm)
        if len(perm) != len(rules):
            perm = list(range(len(rules)))
            rng.shuffle(perm)
        cases.append(make_case(rules, doc, perm, check_perm=(cast_p == 0.0)))
    return cases
