"""C05 – a rule is valid iff every node its path selects satisfies its condition; failure list exact."""
import enc
import terms
from core import Case
from gen import Gen
from props import rules_common as rc
from props.c03 import gen_doc_for_parts


def cmp_test(impl, model):
    from core import default_cmp
    return default_cmp(impl, model)


def make_case(rr, doc, label="test"):
    desc = {"rule": rc.rule_desc(rr), "doc": enc.enc_val(doc)}
    c = Case("test", desc)
    c.py = rc.PY_HEAD + f"rt = {rc.rule_py(rr)}.test({terms.repr_py(doc)})\nprint(rt.is_valid, rt.tested, [(f.path, f.value, f.reasons) for f in rt.failures])"
    built = enc.outcome(lambda: rc.build_rule(rr))
    if built[0] != "ok":
        if built[1] != "TypeError":
            c.fail("rule_constructor", f"building the rule raised {built[1]}")
        return c
    rule = built[1]
    term = enc.enc_rule(rule)
    doc_before = enc.enc_val(doc)
    impl = enc.outcome(lambda: rc.obs_rule_test(rule.test(doc)))
    if enc.enc_val(doc) != doc_before:
        c.fail("callers_document_unchanged", "Rule.test() modified the caller's document")
        doc = enc.dec_val(doc_before)
    from props.c01 import has_pct
    sensitive = has_pct(doc) or "%" in repr(term)
    c.ask(["test", term, enc.enc_val(doc)], impl, "test", cmp_coarse_test if sensitive else None)
    if impl[0] != "ok":
        c.fail("never_raises", f"Rule.test raised {impl[1]}")
        return c
    o = impl[1]
    ref, cast_doc = rc.reference_validate([rr], doc)
    tested, valid, fails = ref[0]
    if o["tested"] != tested:
        c.fail("tested", f"tested={o['tested']} but the path selects {'something' if tested else 'nothing'}")
    if o["is_valid"] != valid:
        c.fail("verdict", f"is_valid={o['is_valid']} but {len(fails)} selected node(s) fail the condition")
    got = [(f[2], f[1]) for f in o["failures"]]
    want = [(enc.enc_val(tuple(q)), enc.enc_val(v)) for q, v in fails]
    if got != want:
        c.fail("failure_list", f"failures {got!r:.300} expected {want!r:.300}")
    if any(not f[3] for f in o["failures"]):
        c.fail("reasons", "a failure has no textual reason")
    if rr["cast"] and o["data"] != enc.enc_val(cast_doc):
        c.fail("judged_on_cast_copy", "the rule test's data is not the document with the casts applied")
    c.nontrivial = tested and not valid
    c.features.add((len(rr["parts"]), tested, valid, min(len(fails), 3), bool(rr["cast"])))
    return c


def cmp_coarse_test(impl, model):
    from core import default_cmp
    if impl[0] == "ok" and isinstance(model, list) and model[0] == "ok":
        def strip(o):
            o = dict(o)
            o["failures"] = [f[:3] for f in o["failures"]]
            return o
        return None if strip(impl[1]) == strip(model[1]) else "differ (coarse)"
    return default_cmp(impl, model)


CORPUS = [
    ({"parts": [("prim", "a")], "cond": ("leaf", "Value", "eq", [1], {}), "cast": []}, {"a": 1}),
    ({"parts": [("prim", "a")], "cond": ("leaf", "Value", "eq", [1], {}), "cast": []}, {"b": 1}),
    ({"parts": [("prim", "a"), ("list", {"key": None, "index": None, "value": None, "condition": None, "list_condition": None, "map_condition": None, "label": None})],
      "cond": ("bin", "xor", ("leaf", "Value", "gt", [1], {}), ("leaf", "Value", "lt", [4], {})), "cast": []}, {"a": [0, 2, 5, "x", None]}),
    ({"parts": [], "cond": ("leaf", "Value", "keys_contain", ["a"], {}), "cast": []}, {"a": 1}),
    ({"parts": [], "cond": ("leaf", "ValueLength", "eq", [3], {}), "cast": []}, [1, 2]),
    ({"parts": [("prim", "a"), ("prim", 0)], "cond": ("leaf", "Value", "is_instance", [int], {}), "cast": ["int"]}, {"a": ["3", "x"]}),
    ({"parts": [("prim", 1)], "cond": ("leaf", "Value", "is_instance", [int], {}), "cast": ["int"]}, {1: "3"}),
    ({"parts": [("prim", "a")], "cond": ("leaf", "Value", "is_instance", [bool], {}), "cast": ["bool"]}, {"a": "TRUE"}),
    ({"parts": [("prim", "a")], "cond": ("leaf", "Value", "is_instance", [int], {}), "cast": ["int"]}, {"a": "abc"}),
]


def _corner_test():
    from props import corners
    return corners.test_cases()


def generate(rng, n, tier, cast_p=0.0):
    g = Gen(rng, pct_strings=True, max_depth=3)
    cases = [make_case(rr, doc) for rr, doc in CORPUS if (cast_p > 0 or not rr["cast"])]
    cases += _corner_test()
    import terms as _t
    while len(cases) < n:
        rr = rc.gen_rule(g, cast_p=cast_p)
        doc = gen_doc_for_parts(g, rr["parts"], leaf=rc.cast_leaf(g) if rr["cast"] else None)
        if not rr["cast"] and rng.random() < 0.3:
            # condition leaves that mostly hold on the selected nodes
            sel = [v for v, _ in _t.walk(rr["parts"], doc)][:4]
            if sel:
                rr["cond"] = rc.gen_true_biased_tree(g, sel, rng.choice([1, 2, 2, 3]))
        cases.append(make_case(rr, doc))
    return cases
