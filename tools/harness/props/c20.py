"""C20 – documentation tree is structurally faithful; its HTML well-formed and escaped."""
import html.parser
import warnings

import enc
import terms
from core import Case
from gen import Gen

import valida.datapath as DP
from valida.conditions import Value
from valida.datapath import ListValue, MapValue
from valida.rules import Rule
from valida.schema import Schema, write_tree_html

warnings.simplefilter("ignore")

SENTINELS = ["<zq7>", "&zq7;", '"zq7"', "'zq7'", "</zq7>", "<b>x</b>", "a & b", "x < y > z"]
TICKS = ["`code`", "a `b` c `d`", "`unclosed", "`multi\nline`", "``", "`<i>`", "no ticks", "`a` `",
         "`a\rb`", "`a\x0bb` `c`", "`\x85`", "`a b`", "`a\n`b`", "`a\u2028b`"]


def user_text(r):
    x = r.random()
    if x < 0.4:
        return r.choice(SENTINELS) + " " + r.choice(TICKS)
    if x < 0.7:
        return r.choice(TICKS)
    return r.choice(["plain text", "", "  padded  ", "ünï"]) + r.choice(["", " " + r.choice(SENTINELS)])


def gen_key(r, used):
    pool = ["a", "b", "c", "name", "<k>", "k&1", 'q"', "x y", 0, 1, 2, 7]
    ks = [k for k in pool if k not in used]
    return r.choice(ks) if ks else None


def gen_cond(r, child_keys):
    """(python expression, condition object)"""
    leaves = []
    n = r.choice([1, 1, 2, 3, 4])
    for _ in range(n):
        x = r.random()
        if x < 0.2:
            ts = r.sample([int, str, dict, list, float, bool], r.choice([1, 2]))
            leaves.append(("Value.is_instance(" + ", ".join(t.__name__ for t in ts) + ")", Value.is_instance(*ts)))
        elif x < 0.3:
            t = r.choice([int, str, dict, list])
            leaves.append((f"Value.dtype.equal_to({t.__name__})", Value.dtype.equal_to(t)))
        elif x < 0.45:
            fn = r.choice(["equal_to", "in_", "greater_than", "less_than_or_equal_to", "not_equal_to"])
            arg = [1, 2, 3] if fn == "in_" else r.choice([0, 1, 2, 5])
            leaves.append((f"Value.length.{fn}({arg!r})", getattr(Value.length, fn)(arg)))
        elif x < 0.55:
            arg = r.choice([[1, "x"], ["a", "<b>"], [1.5, None]])
            leaves.append((f"Value.in_({arg!r})", Value.in_(arg)))
        elif x < 0.75 and child_keys is not None:
            ks = [k for k in child_keys if r.random() < 0.7] + [k for k in ["opt", "<new>", 9] if r.random() < 0.25]
            fn = r.choice(["allowed_keys", "required_keys", "required_keys"])
            leaves.append((f"Value.{fn}(" + ", ".join(repr(k) for k in ks) + ")", getattr(Value, fn)(*ks)))
        elif x < 0.85:
            leaves.append(("Value.keys_is_instance(str)", Value.keys_is_instance(str)))
        else:
            leaves.append(("Value.truthy()", Value.truthy()))
    if len(leaves) >= 3 and r.random() < 0.3:
        # right-nested: a op (b op (c …))
        expr, obj = leaves[-1]
        for e, o in reversed(leaves[:-1]):
            op = r.choice(["&", "&", "&", "|", "^"])
            expr = f"({e} {op} {expr})"
            obj = {"&": lambda a, b: a & b, "|": lambda a, b: a | b, "^": lambda a, b: a ^ b}[op](o, obj)
        return expr, obj
    expr, obj = leaves[0]
    ops_used = []
    for e, o in leaves[1:]:
        op = r.choice(["&", "&", "&", "&", "|", "^"])
        ops_used.append(op)
        expr = f"({expr} {op} {e})"
        obj = {"&": lambda a, b: a & b, "|": lambda a, b: a | b, "^": lambda a, b: a ^ b}[op](obj, o)
    return expr, obj


def gen_schema(r, tier):
    """prefix-closed rule set: list of (parts (python values / part objects as ('map',)/('list',)), cond expr, cond, doc)"""
    rules = []

    def grow(prefix, depth):
        kids = []
        if depth < (3 if tier == "quick" else 4):
            shape = r.random()
            if shape < 0.5:
                used = set()
                for _ in range(r.choice([0, 1, 2, 3])):
                    k = gen_key(r, used)
                    if k is not None:
                        used.add(k)
                        kids.append(k)
            elif shape < 0.7:
                kids.append(("list",))
            elif shape < 0.85:
                kids.append(("map",))
        keys_only = [k for k in kids if not isinstance(k, tuple)]
        expr, cond = gen_cond(r, keys_only if keys_only or r.random() < 0.3 else None)
        doc = None
        d = r.random()
        if d < 0.3:
            doc = {"description": [user_text(r) for _ in range(r.choice([1, 2]))], "examples": [user_text(r) for _ in range(r.choice([0, 1]))]}
        elif d < 0.4:
            doc = {"description": [], "examples": []}
        rules.append((list(prefix), expr, cond, doc))
        for k in kids:
            grow(prefix + [k], depth + 1)
    grow([], 0)
    return rules


def mk_part(k):
    if k == ("map",):
        return MapValue()
    if k == ("list",):
        return ListValue()
    return k


def part_py(k):
    if k == ("map",):
        return "MapValue()"
    if k == ("list",):
        return "ListValue()"
    return repr(k)


def tcond(c):
    ch = getattr(c, "children", None)
    if ch is not None:
        return ["bin", c.FLATTEN_SYMBOL, tcond(ch[0]), tcond(ch[1])]
    name = c.callable.name
    ks, kd = [], []
    if name in ("allowed_keys", "required_keys"):
        for k in c.callable.args:
            ks.append(str(DP.DataPath(k).parts[0]))
            kd.append(str(k))
    return ["leaf", type(c).__name__, name, ks, kd]


def trule(rule):
    parts = rule.path.parts
    last = ""
    if parts:
        if parts[-1] == MapValue():
            last = "map"
        elif parts[-1] == ListValue():
            last = "list"
    return [[str(p) for p in parts], [str(x) for x in rule.path.simplify()],
            [t.name for t in rule.path.resolve_implicit_types()], last, tcond(rule.condition)]


def obs_item(schema, it):
    ri = None
    if "condition" in it:
        for i, rl in enumerate(schema.rules):
            if rl.condition is it["condition"]:
                ri = i
    t = it.get("type")
    return {
        "path_str": list(it["path_str"]), "rule": ri,
        "path": [str(x) for x in it["path"]] if "path" in it else None,
        "required": it.get("required"), "type": "conds" if isinstance(t, list) else (t or ""),
        "key_type": "key_type" in it, "list_value_type": "list_value_type" in it, "map_value_type": "map_value_type" in it,
        "type_info_in_parent": bool(it.get("type_info_in_parent")), "parent": it["parent"],
    }


def obs_nested(schema, nodes):
    return [{"item": obs_item(schema, n), "children": obs_nested(schema, n.get("children", []))} for n in nodes]


def hnode(child):
    path = []
    for i in child["path"]:
        if i == MapValue():
            path.append(["map"])
        elif i == ListValue():
            path.append(["list"])
        else:
            path.append(["text", str(i)])
    sv = lambda k: str(child.get(k)) if child.get(k) else ""  # noqa: E731
    doc = child.get("doc")
    kids = [hnode(c) for c in child["children"]] if "children" in child else None
    return [path, str(child["path"] or ""), bool(child.get("type_info_in_parent")), sv("type_fmt"), sv("key_type_fmt"),
            sv("map_value_type_fmt"), sv("list_value_type_fmt"), bool(child.get("required")), str(child.get("condition")),
            bool(doc), list(doc["description"]) if doc else [], list(doc["examples"]) if doc else [], kids]


class TagChecker(html.parser.HTMLParser):
    VOID = {"br", "hr", "img", "input", "meta", "link"}

    def __init__(self):
        super().__init__(convert_charrefs=False)
        self.stack = []
        self.errors = []
        self.text = []

    def handle_starttag(self, tag, attrs):
        if tag not in self.VOID:
            self.stack.append(tag)

    def handle_endtag(self, tag):
        if not self.stack or self.stack[-1] != tag:
            self.errors.append(f"</{tag}> closes {self.stack[-1] if self.stack else 'nothing'}")
        else:
            self.stack.pop()

    def handle_data(self, data):
        self.text.append(data)


def flatten_nested(nodes):
    out = []
    for n in nodes:
        out.append(n)
        out.extend(flatten_nested(n.get("children", [])))
    return out


def make_case(r, rules, from_path, anchor, tier, k_only=False):
    c = Case("tree", {"rules": [[[part_py(k) for k in p], e, d] for p, e, c_, d in rules], "from_path": [part_py(k) for k in from_path], "anchor": anchor})
    rules_py = ", ".join(f"Rule(({', '.join(part_py(k) for k in p)}{',' if len(p) == 1 else ''}), {e}, doc={d!r})" for p, e, c_, d in rules)
    fp = "[" + ", ".join(part_py(k) for k in from_path) + "]"
    c.py = ("from valida import *\nfrom valida.datapath import MapValue, ListValue\nfrom valida.schema import write_tree_html\n"
            f"s = Schema([{rules_py}])\nflat = s.to_tree(from_path={fp})\nprint(flat)\n"
            f"print(write_tree_html(s.to_tree(nested=True, from_path={fp}), anchor_root={anchor!r}))")
    schema = Schema([Rule([mk_part(k) for k in p], cond, doc=d) for p, e, cond, d in rules])
    fparts = [mk_part(k) for k in from_path]
    flat = enc.outcome(lambda: schema.to_tree(nested=False, from_path=list(fparts)))
    nested = enc.outcome(lambda: schema.to_tree(nested=True, from_path=list(fparts)))
    # ---- K: the model's tree -----------------------------------------------------------------------
    fstr = [str(p) for p in DP.DataPath(*fparts).parts]
    fsimple = DP.DataPath(*fparts).simplify()
    req = ["tree", [trule(rl) for rl in schema.rules], fstr, fstr[-1] if fstr else None, str(fsimple[-1]) if fsimple else None]
    if flat[0] == "ok" and nested[0] == "ok":
        impl = ["ok", {"flat": [obs_item(schema, it) for it in flat[1]], "nested": obs_nested(schema, nested[1])}]
    else:
        impl = flat if flat[0] != "ok" else nested
    c.ask(req, impl, "tree")
    if k_only:
        # rule sets outside the property's domain (not prefix-closed, several rules for one path): only the model is compared
        c.features.add(("tree-edge", impl[0] if impl[0] == "exc" else "ok"))
        return c
    if flat[0] != "ok" or nested[0] != "ok":
        c.fail("tree_without_error", f"to_tree raised {(flat if flat[0] != 'ok' else nested)[1]}")
        return c
    flat, nested = flat[1], nested[1]
    k = len(fstr)
    # ---- structure -----------------------------------------------------------------------------------
    under = [rl for rl in schema.rules if [str(p) for p in rl.path.parts][:k] == fstr]
    for rl in under:
        hits = [it for it in flat if it.get("condition") is rl.condition]
        if len(hits) != 1:
            c.fail("each_rule_once", f"rule {rl.path!r} appears {len(hits)} times in the tree")
        elif hits[0].get("doc") is not rl.doc and hits[0].get("doc") != rl.doc:
            c.fail("rule_doc", f"rule {rl.path!r} does not carry its doc")
    for idx, it in enumerate(flat):
        p = it["parent"]
        if p >= idx:
            c.fail("parent_precedes", f"node {idx} has parent {p}")
        elif p >= 0:
            par = flat[p]
            if tuple(it["path_str"])[:-1] != tuple(par["path_str"]):
                c.fail("parent_is_prefix", f"node {it['path_str']!r} has parent {par['path_str']!r}")
    nf = flatten_nested(nested)
    key = lambda it: (tuple(it["path_str"]), it.get("required"), id(it.get("condition")))  # noqa: E731
    if sorted(map(repr, map(key, nf))) != sorted(map(repr, map(key, flat))):
        c.fail("flat_nested_same_nodes", "the flat and the nested form contain different nodes")
    # required flags: exactly when an always-applicable required_keys condition of the parent's rule names the key
    for rl in under:
        conds, ops = rl.condition.flatten()
        always = not ops or set(ops) == {"and"}
        named = {}
        if always:
            for cd in conds:
                if cd.callable.name in ("allowed_keys", "required_keys"):
                    for kk in cd.callable.args:
                        named[str(DP.DataPath(kk).parts[0])] = named.get(str(DP.DataPath(kk).parts[0]), False) or cd.callable.name == "required_keys"
        base = [str(p) for p in rl.path.parts][k:]
        tail = [fstr[-1]] if fstr else []
        for ks, want in named.items():
            node = [it for it in flat if list(it["path_str"]) == tail + base + [ks]]
            if len(node) != 1:
                c.fail("key_node", f"key named by {rl.path!r} has {len(node)} nodes")
            elif bool(node[0].get("required")) != want:
                c.fail("required_flag", f"key {ks} of {rl.path!r}: required={node[0].get('required')!r}, expected {want}")
        # keys that are children of this rule but not named by an always-applicable condition carry no flag from it
    # ---- HTML ----------------------------------------------------------------------------------------
    hs = r.choice([1, 2])
    sr = r.choice([True, True, False])
    out = enc.outcome(lambda: write_tree_html(nested, anchor_root=anchor, heading_start_level=hs, show_root_heading=sr))
    if out[0] != "ok":
        c.fail("html_without_error", f"write_tree_html raised {out[1]}")
        return c
    text = out[1]
    c.ask(["html", [hnode(n) for n in nested], anchor or "", hs, sr], {"html": text, "dyck": True}, "html")
    tc = TagChecker()
    tc.feed(text)
    tc.close()
    if tc.errors or tc.stack:
        c.fail("html_well_formed", f"tags not closed in order: {tc.errors[:2]} open at end: {tc.stack[:3]}")
    for sent in SENTINELS:
        if any(ch in sent for ch in "<>\"") and sent in text:
            c.fail("html_escaped", f"schema-supplied text {sent!r} appears unescaped in the HTML")
    if "&zq7;" in text:
        c.fail("html_escaped", "schema-supplied '&zq7;' appears unescaped in the HTML")
    c.nontrivial = len(flat) > 1
    c.features.add((min(len(rules), 6), len(from_path), bool(anchor), any(it.get("required") for it in flat),
                    any(it.get("type_info_in_parent") for it in flat)))
    return c


def type_fmt_case(r):
    """the formatter of type-like conditions on a list of single conditions: those of the property's domain
    (must give a text) and, for the correspondence, any other DSL condition (same outcome as the model)"""
    import enc
    from gen import Gen
    from valida.schema import format_map_key_value_data_type_conditions as fmt
    import valida.conditions as C
    types = [int, str, dict, list, float, bool]
    leaves = []
    domain = True
    for _ in range(r.choice([1, 1, 2, 3])):
        x = r.random()
        if x < 0.15:
            ts = r.sample(types, r.choice([1, 2, 3]))
            fn = r.choice(["is_instance", "keys_is_instance"])
            leaves.append((f"Value.{fn}(" + ", ".join(t.__name__ for t in ts) + ")", getattr(C.Value, fn)(*ts)))
        elif x < 0.3:
            cls = r.choice(["ValueDataType", "KeyDataType"])
            t = r.choice(types + [type(None), tuple])
            leaves.append((f"{cls}.equal_to({t.__name__})", getattr(C, cls).equal_to(t)))
        elif x < 0.4:
            cls = r.choice(["ValueDataType", "KeyDataType"])
            ts = r.sample(types, r.choice([0, 1, 2]))
            leaves.append((f"{cls}.in_([" + ", ".join(t.__name__ for t in ts) + "])", getattr(C, cls).in_(ts)))
        elif x < 0.6:
            fn = r.choice(["equal_to", "in_", "greater_than", "less_than_or_equal_to", "not_equal_to", "in_range", "equal_to_approx"])
            if fn == "in_":
                args = [[r.randrange(-2, 9) for _ in range(r.choice([0, 1, 3]))]]
            elif fn == "in_range":
                args = [r.randrange(0, 3), r.randrange(3, 9)]
            else:
                args = [r.choice([0, 1, 2, 5, -1, 10 ** 20])]
            leaves.append((f"ValueLength.{fn}(" + ", ".join(repr(a) for a in args) + ")", getattr(C.ValueLength, fn)(*args)))
        elif x < 0.75:
            arg = r.choice([[1, "x"], ["a", "<b>", "it's"], [True, None, -3], [], ['q"', "a\\b\n"]])
            leaves.append((f"Value.in_({arg!r})", C.Value.in_(arg)))
        else:
            # outside the domain: any DSL condition, any arguments (floats, containers, non-iterables …)
            domain = False
            g = Gen(r, pct_strings=False, max_depth=2)
            cls, ctor, args, kwargs = g.dsl_call(r.choice(g.CLASSES), None, hostile_p=0.1)
            o = enc.outcome(lambda: getattr(getattr(C, cls), ctor)(*args, **kwargs))
            if o[0] != "ok":
                continue
            import terms
            leaves.append((terms.tree_py(("leaf", cls, ctor, list(args), dict(kwargs))), o[1]))
    if not leaves:
        return None
    c = Case("type_fmt", {"conditions": [e for e, _ in leaves]})
    c.py = ("from valida.conditions import *\nfrom valida.schema import format_map_key_value_data_type_conditions as fmt\nimport pathlib\n"
            f"print(repr(fmt([{', '.join(e for e, _ in leaves)}])))")
    impl = enc.outcome(lambda: fmt([o for _, o in leaves]))
    c.ask(["type_fmt", [enc.enc_cond(o) for _, o in leaves]], impl, "type_fmt")
    if domain and (impl[0] != "ok" or not isinstance(impl[1], str)):
        c.fail("type_text", f"formatting type-like conditions of the domain gave {impl!r:.200}")
    c.nontrivial = True
    c.features.add(("type_fmt", domain, min(len(leaves), 3)))
    return c


def fixed_tree_cases(rng, tier):
    """a key named by required_keys AND allowed_keys of the same rule (in both orders), by two rules on one path, and
    under an `|`"""
    V = Value
    out = []
    fam = [
        [([], "(Value.required_keys('a') & Value.allowed_keys('a'))", V.required_keys("a") & V.allowed_keys("a"), None),
         (["a"], "Value.truthy()", V.truthy(), None)],
        [([], "(Value.allowed_keys('a') & Value.required_keys('a'))", V.allowed_keys("a") & V.required_keys("a"), None),
         (["a"], "Value.truthy()", V.truthy(), None)],
        [([], "(Value.allowed_keys('a', 'b') & Value.required_keys('b'))", V.allowed_keys("a", "b") & V.required_keys("b"), None)],
        [([], "(Value.required_keys('a') | Value.allowed_keys('a'))", V.required_keys("a") | V.allowed_keys("a"), None),
         (["a"], "Value.truthy()", V.truthy(), None)],
    ]
    for rules in fam:
        c = make_case(rng, rules, [], None, tier)
        if c is not None:
            out.append(c)
    # the same split over two rules on one path: outside the domain (one rule per path), model only
    twin = [([], "Value.required_keys('a')", V.required_keys("a"), None), ([], "Value.allowed_keys('a')", V.allowed_keys("a"), None)]
    c = make_case(rng, twin, [], None, tier, k_only=True)
    if c is not None:
        out.append(c)
    c = make_case(rng, list(reversed(twin)), [], None, tier, k_only=True)
    if c is not None:
        out.append(c)
    return out


def generate(rng, n, tier):
    from props import corners
    import random as _random
    _corner = corners.type_fmt_cases() + corners.html_cases(hnode) + fixed_tree_cases(_random.Random(0), tier)
    cases = list(_corner)
    while len(cases) < n:
        if rng.random() < 0.15:
            c = type_fmt_case(rng)
            if c is not None:
                cases.append(c)
            continue
        if rng.random() < 0.08:
            # outside the domain: some rules dropped (no longer prefix-closed), a path given two rules
            rules = gen_schema(rng, tier)
            if len(rules) > 1:
                rules = [x for x in rules if rng.random() < 0.7] or rules[:1]
            if rules and rng.random() < 0.5:
                p0 = rng.choice(rules)
                e2, c2 = gen_cond(rng, None)
                rules.insert(rng.randrange(len(rules) + 1), (list(p0[0]), e2, c2, None))
            cand = [p[:j] for p, _, _, _ in rules for j in range(1, len(p) + 1)]
            from_path = rng.choice(cand) if cand and rng.random() < 0.6 else []
            c = make_case(rng, rules, from_path, None, tier, k_only=True)
            if c is not None:
                cases.append(c)
            continue
        rules = gen_schema(rng, tier)
        # a sub-tree root: the path of some rule (as plain keys / part objects), or the whole tree
        from_path = []
        if rng.random() < 0.4:
            cand = [p for p, _, _, _ in rules if p]
            if cand:
                from_path = rng.choice(cand)
        anchor = rng.choice([None, None, "root", "my-schema"])
        c = make_case(rng, rules, from_path, anchor, tier)
        if c is not None:
            cases.append(c)
    return cases
