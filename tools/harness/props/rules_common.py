"""Shared by C05-C08, C15: rule recipes, observables of rule tests and validations, reference verdicts."""
import copy
import warnings

import enc
import terms
from props.c01 import reason_kind
from props.c03 import gen_doc_for_parts, CAST_STRINGS

import valida.casting as casting
import valida.datapath as DP
from valida.rules import Rule
from valida.schema import Schema

warnings.simplefilter("ignore")

# the cast functions a rule read from a spec / YAML file gets for `cast: {str: bool}` / `{str: int}`: the library's
# own table (at the audited baseline these are `cast_string_to_bool` and the builtin `int`)
CASTS = {"bool": ("bool", casting.CAST_LOOKUP[(str, bool)]), "int": ("int", casting.CAST_LOOKUP[(str, int)])}


# rule recipe: {"parts": [part recipes], "cond": tree, "cast": ["bool", "int"] subset in order}

def gen_rule(g, cast_p=0.0, value_only=True, max_parts=3, hostile_p=0.03):
    r = g.r
    k = r.choice([0, 1, 1, 2, 2, 3][: max_parts + 3])
    prim_p = r.choice([0.3, 0.6, 1.0])
    parts = [terms.gen_part(g, prim_p) for _ in range(k)]
    cond = gen_value_tree(g, depth=r.choice([0, 1, 1, 2]), hostile_p=hostile_p)
    cast = []
    if r.random() < cast_p:
        cast = r.choice([["bool"], ["int"], ["bool", "int"], ["int", "bool"]])
    return {"parts": parts, "cond": cond, "cast": cast}


def gen_value_tree(g, depth, hostile_p=0.03):
    r = g.r
    if depth <= 0 or r.random() < 0.45:
        if r.random() < 0.05:
            return ("null",)
        return terms.gen_leaf(g, "value", hostile_p=hostile_p)
    return ("bin", r.choice(["and", "or", "xor"]), gen_value_tree(g, depth - 1, hostile_p), gen_value_tree(g, depth - 1, hostile_p))


def build_rule(rr):
    parts = [terms.build_part(p) for p in rr["parts"]]
    cond = terms.build_tree(rr["cond"])
    cast = None
    if rr["cast"]:
        # {type: function}: one cast function per source type
        cast = {str: CASTS[rr["cast"][0]][1]}
        if len(rr["cast"]) > 1:
            # several entries: the first one's source type never matches a JSON-like node, the loop must go on
            import pathlib
            cast = {pathlib.Path: CASTS[rr["cast"][1]][1], **cast}
    return Rule(DP.DataPath(*parts), cond, cast=cast)


def rule_py(rr):
    parts = ", ".join(terms.part_py(p) for p in rr["parts"])
    cast = ""
    if rr["cast"]:
        names = {"bool": "CAST_LOOKUP[(str, bool)]", "int": "CAST_LOOKUP[(str, int)]"}
        fn = names[rr["cast"][0]]
        extra = f"pathlib.Path: {names[rr['cast'][1]]}, " if len(rr["cast"]) > 1 else ""
        cast = f", cast={{{extra}str: {fn}}}"
    return f"Rule(DataPath({parts}), {terms.tree_py(rr['cond'])}{cast})"


def rule_desc(rr):
    return {"parts": [terms.part_desc(p) for p in rr["parts"]], "cond": terms.tree_desc(rr["cond"]), "cast": rr["cast"]}


PY_HEAD = ("from valida.conditions import *\nfrom valida.datapath import *\nfrom valida.rules import Rule\n"
           "from valida.schema import Schema\nfrom valida.casting import cast_string_to_bool, CAST_LOOKUP\nimport pathlib\n")


def obs_rule_test(rt):
    fails = []
    for f in rt.failures:
        fails.append([f.index, enc.enc_val(f.value), enc.enc_val(tuple(f.path)), [reason_kind(m) for m in f.reasons]])
    data = rt.data.original if hasattr(rt.data, "original") else rt.data
    return {"tested": bool(rt.tested), "is_valid": bool(rt.is_valid), "failures": fails, "data": enc.enc_val(data)}


def obs_validated(v, order):
    tests = [obs_rule_test(t) for t in v.rule_tests]
    for t in tests:
        # nested containers of a rule test's data are shared with later casts: not an observable
        t["data"] = None
    return {
        "order": order,
        "tests": tests,
        "cast_data": enc.enc_val(v.cast_data),
        "is_valid": bool(v.is_valid), "num_failures": int(v.num_failures),
        "num_rules_tested": int(v.num_rules_tested),
    }


def cast_value(names, v):
    """reference: the value a node is replaced by (or None if it stays): first declared cast of its type that succeeds"""
    if not isinstance(v, str) or not names:
        return None
    name = names[0]     # build_rule keeps one cast function per source type
    if name == "bool":
        low = v.lower()
        if low == "true":
            return ("ok", True)
        if low == "false":
            return ("ok", False)
        return None
    try:
        return ("ok", int(v))
    except ValueError:
        return None


def set_along(doc, path, v):
    node = doc
    for k in path[:-1]:
        node = node[k]
    node[path[-1]] = v


def reference_validate(rules_sorted, doc):
    """independent reference of Schema.validate over rules in applied order: per rule
    (tested, is_valid, [(path, value)] failures) and the cast document"""
    cast_doc = copy.deepcopy(doc)
    out = []
    for rr in rules_sorted:
        sel = terms.walk(rr["parts"], doc)            # selected in the ORIGINAL document
        if rr["cast"]:
            for v, q in sel:
                cv = cast_value(rr["cast"], v)
                if cv is not None and q:
                    set_along(cast_doc, q, cv[1])
            judged = terms.walk(rr["parts"], cast_doc)
        else:
            judged = sel
        fails = [(q, v) for v, q in judged if not terms.sat_tree(rr["cond"], None, v)]
        out.append((bool(judged), not fails, fails))
    return out, cast_doc


def cast_leaf(g):
    """selected nodes for cast rules: castable and uncastable strings, and a few non-strings"""
    r = g.r
    return lambda: r.choice(CAST_STRINGS) if r.random() < 0.85 else g.atom()


def gen_true_biased_tree(g, values, depth):
    """a value-kind tree whose leaves are mostly true on the given node values (so that the verdict hinges on
    the and / or / xor structure: e.g. an xor whose operands both hold)"""
    r = g.r

    def leaf():
        v = r.choice(values) if values else 1
        x = r.random()
        if x < 0.3:
            try:
                hash(v)
                return ("leaf", "Value", "equal_to", [v], {})
            except TypeError:
                return ("leaf", "Value", "equal_to", [v], {})
        if x < 0.5:
            return ("leaf", "Value", "is_instance", [type(v)], {}) if v is not None else ("leaf", "Value", "null", [], {})
        if x < 0.65:
            return ("leaf", "Value", "null", [], {})
        if x < 0.8:
            return ("leaf", "Value", "not_equal_to", ["__no_such_value__"], {})
        if x < 0.9:
            return ("leaf", "Value", "truthy", [], {})
        return ("leaf", "ValueDataType", "equal_to", [type(v)], {}) if v is not None else ("leaf", "Value", "falsy", [], {})
    def tree(d):
        if d <= 0 or r.random() < 0.3:
            return leaf()
        return ("bin", r.choice(["and", "or", "xor", "xor"]), tree(d - 1), tree(d - 1))
    return tree(depth)
