"""C17 – a data-path argument means the value at that path in the validated document."""
import copy
import warnings

import enc
import terms
from core import Case
from gen import Gen
from props import rules_common as rc
from props.c11 import PathArg

import valida.datapath as DP
from valida.conditions import ConditionLike
from valida.rules import Rule

warnings.simplefilter("ignore")

DATUM = [None, None, None, "length", "dtype", "map_keys", "map_values"]


def gen_patharg(g, doc):
    """a path argument that mostly points at something in `doc`"""
    r = g.r
    parts = []
    node = doc
    n = r.choice([1, 1, 2, 2, 3])
    concrete = r.random() < 0.7
    for i in range(n):
        if isinstance(node, dict) and node and r.random() < 0.85:
            k = r.choice(list(node.keys()))
            if k is None:
                break
            if concrete or r.random() < 0.5:
                parts.append(("prim", k))
            else:
                parts.append(("map", {"key": ("v", k), "index": None, "value": None, "condition": None,
                                      "list_condition": None, "map_condition": None, "label": None}))
            node = node[k]
        elif isinstance(node, list) and node and r.random() < 0.85:
            k = r.randrange(len(node))
            if concrete or r.random() < 0.5:
                parts.append(("prim", k))
            else:
                parts.append(("list", {"key": None, "index": None, "value": None, "condition": None,
                                       "list_condition": None, "map_condition": None, "label": None}))
            node = node[k]
        else:
            parts.append(("prim", r.choice(["zz", "a", 5])))     # absent
            break
    if not parts:
        parts = [("prim", "zz")]
    datum = r.choice(DATUM)
    is_concrete = all(p[0] == "prim" for p in parts)
    multi = None if is_concrete else r.choice([None, None, "first", "last", "single", "all"])
    return PathArg(parts, datum, multi)


def gen_cond(g, doc, nested_p=0.0):
    """value-kind tree with one or more path-valued arguments: ('leaf', cls, ctor, args, kwargs) with PathArg"""
    r = g.r

    def leaf():
        ctor = r.choice(["equal_to", "not_equal_to", "less_than", "greater_than", "in_", "not_in",
                         "equal_to_approx", "keys_contain", "is_instance_dummy", "keys_contain_any_of", "items_contain",
                         "factor_of"])
        pa = lambda: gen_patharg(g, doc)  # noqa: E731
        lit = lambda: g.atom()  # noqa: E731
        cls = r.choice(["Value", "Value", "ValueLength"])
        if ctor in ("equal_to", "not_equal_to", "less_than", "greater_than", "factor_of", "keys_contain"):
            if cls == "ValueLength" and ctor == "keys_contain":
                ctor = "equal_to"
            a = pa()
            return ("leaf", cls, ctor, [], {"value" if ctor != "keys_contain" else "key": a}) if r.random() < 0.5 else ("leaf", cls, ctor, [a], {})
        if ctor in ("in_", "not_in"):
            if r.random() < nested_p:
                return ("leaf", cls, ctor, [[pa(), lit()]], {})        # a path inside a list argument
            return ("leaf", cls, ctor, [pa()], {})
        if ctor == "in_range":
            return ("leaf", cls, ctor, [r.choice([0, 1]), pa()], {}) if r.random() < 0.5 else ("leaf", cls, ctor, [], {"lower": pa(), "upper": 10})
        if ctor == "equal_to_approx":
            return ("leaf", cls, ctor, [pa()], {"tolerance": r.choice([0.5, 1e-8])})
        if ctor == "keys_contain_any_of":
            return ("leaf", "Value", ctor, [pa(), lit()], {})
        if ctor == "items_contain":
            if r.random() < nested_p:
                return ("leaf", "Value", ctor, [], {"a": {"x": pa()}})
            return ("leaf", "Value", ctor, [], {"a": pa(), "b": lit()})
        return ("leaf", cls, "equal_to", [pa()], {})

    def tree(d):
        if d <= 0 or r.random() < 0.6:
            return leaf()
        other = leaf() if r.random() < 0.5 else terms.gen_leaf(g, "value", hostile_p=0.0)
        sub = [tree(d - 1), other]
        r.shuffle(sub)
        return ("bin", r.choice(["and", "or", "xor"]), sub[0], sub[1])
    return tree(r.choice([0, 0, 1, 2]))


def subst(t, doc):
    """the same tree with every path argument replaced by what the path selects in `doc`
    (None if a concrete path is absent, modifiers applied); ('raise', exc) if resolution raises"""
    if t[0] == "bin":
        return ("bin", t[1], subst(t[2], doc), subst(t[3], doc))
    if t[0] != "leaf":
        return t

    def rv(v):
        if isinstance(v, PathArg):
            return reference_resolve(v, doc)
        if isinstance(v, list):
            return [rv(x) for x in v]
        if isinstance(v, dict):
            return {k: rv(x) for k, x in v.items()}
        return v
    return ("leaf", t[1], t[2], [rv(a) for a in t[3]], {k: rv(v) for k, v in t[4].items()})


def reference_resolve(pa, doc):
    """what the path selects in the document, computed by the independent reference walk (not by get_data):
    None for an absent concrete path, [] for an absent non-concrete one; datum then multiplicity modifiers"""
    sel = [v for v, _ in terms.walk(pa.parts, doc)]
    concrete = all(p[0] == "prim" for p in pa.parts)
    if not sel:
        return None if concrete else []
    try:
        if pa.datum == "length":
            sel = [len(v) for v in sel]
        elif pa.datum == "dtype":
            sel = [type(v) for v in sel]
        elif pa.datum == "map_keys":
            sel = [list(v.keys()) for v in sel]
        elif pa.datum == "map_values":
            sel = [list(v.values()) for v in sel]
    except (TypeError, AttributeError) as e:
        return Raises(type(e).__name__)
    if concrete:
        return sel[0]
    if pa.multi == "first":
        return sel[0]
    if pa.multi == "last":
        return sel[-1]
    if pa.multi == "single":
        if len(sel) > 1:
            return Raises("ValueError")
        return sel[0]
    return sel


class Raises:
    def __init__(self, exc):
        self.exc = exc


def has_raises(t):
    if t[0] == "bin":
        return has_raises(t[2]) or has_raises(t[3])
    if t[0] != "leaf":
        return False

    def hv(v):
        if isinstance(v, Raises):
            return True
        if isinstance(v, list):
            return any(hv(x) for x in v)
        if isinstance(v, dict):
            return any(hv(x) for x in v.values())
        return False
    return any(hv(a) for a in list(t[3]) + list(t[4].values()))


def undefined_to_false(t):
    """every leaf with an argument whose resolution raises becomes a leaf of the same class that holds for no item"""
    if t[0] == "bin":
        return ("bin", t[1], undefined_to_false(t[2]), undefined_to_false(t[3]))
    if t[0] == "leaf" and has_raises(t):
        return ("leaf", t[1], "in_", [[]], {})
    return t


def realise(t):
    if t[0] == "leaf":
        def rv(v):
            if isinstance(v, PathArg):
                return v.build()
            if isinstance(v, list):
                return [rv(x) for x in v]
            if isinstance(v, dict):
                return {k: rv(x) for k, x in v.items()}
            return v
        return ("leaf", t[1], t[2], [rv(a) for a in t[3]], {k: rv(v) for k, v in t[4].items()})
    if t[0] == "bin":
        return ("bin", t[1], realise(t[2]), realise(t[3]))
    return t


def nested_path(t):
    if t[0] == "bin":
        return nested_path(t[2]) or nested_path(t[3])
    if t[0] != "leaf":
        return False

    def inner(v):
        if isinstance(v, list):
            return any(isinstance(x, PathArg) or inner(x) for x in v)
        if isinstance(v, dict):
            return any(isinstance(x, PathArg) or inner(x) for x in v.values())
        return False
    return any(inner(a) for a in list(t[3]) + list(t[4].values()))


def tree_py(t):
    from props.c11 import tree_py as tp

    def fix(t):
        return t
    if t[0] == "leaf":
        def rp(v):
            if isinstance(v, PathArg):
                return repr(v)
            if isinstance(v, list):
                return "[" + ", ".join(rp(x) for x in v) + "]"
            if isinstance(v, dict):
                return "{" + ", ".join(f"{k!r}: {rp(x)}" for k, x in v.items()) + "}"
            return terms.repr_py(v)
        a = [rp(x) for x in t[3]] + [f"{k}={rp(v)}" for k, v in t[4].items()]
        return f"{t[1]}.{t[2]}({', '.join(a)})"
    if t[0] == "bin":
        sym = {"and": "&", "or": "|", "xor": "^"}[t[1]]
        return f"({tree_py(t[2])} {sym} {tree_py(t[3])})"
    return tp(t)


def verdict(rt):
    return (bool(rt.is_valid), bool(rt.tested), [enc.enc_val(tuple(f.path)) for f in rt.failures])


def make_case(rule_parts, t, doc):
    c = Case("path_arg", {"path": [terms.part_desc(p) for p in rule_parts], "cond": tree_py(t), "doc": enc.enc_val(doc)})
    c.py = rc.PY_HEAD + (f"r = Rule(DataPath({', '.join(terms.part_py(p) for p in rule_parts)}), {tree_py(t)})\n"
                         f"rt = r.test({terms.repr_py(doc)})\nprint(rt.is_valid, rt.tested, [f.path for f in rt.failures])")
    c.tags = set()
    if nested_path(t):
        c.tags.add("nested_path_arg")
    built = enc.outcome(lambda: Rule(DP.DataPath(*[terms.build_part(p) for p in rule_parts]), terms.build_tree(realise(t))))
    if built[0] != "ok":
        return None
    rule = built[1]
    impl = enc.outcome(lambda: rc.obs_rule_test(rule.test(doc)))
    c.ask(["test", enc.enc_rule(rule), enc.enc_val(doc)], impl, "test")
    # the same rule with the arguments replaced by the resolved values
    st = subst(t, doc)
    if has_raises(st):
        # resolution raises (single() with several matches, a datum modifier undefined on the node): inside the
        # callable's try – validation does not raise, and the comparison is undefined for every item: that leaf
        # holds for none of them (whatever the callable), the rest of the condition is judged as usual
        if impl[0] != "ok":
            c.fail("resolution_error_escapes", f"an unresolvable path argument made Rule.test raise {impl[1]}")
            return c
        c.features.add(("resolution-raises",))
        st = undefined_to_false(st)
    lit = enc.outcome(lambda: Rule(DP.DataPath(*[terms.build_part(p) for p in rule_parts]), terms.build_tree(st)).test(doc))
    if impl[0] != "ok":
        c.fail("raises", f"Rule.test raised {impl[1]}")
        return c
    if lit[0] != "ok":
        return c
    got = verdict(rule.test(doc))
    want = verdict(lit[1])
    if got != want:
        c.fail("substitution", f"verdict with the path argument {got!r:.200} differs from the verdict with its value substituted {want!r:.200}")
    c.nontrivial = got[1]
    c.features.add((got[0], got[1], len(terms.tree_leaves(t)) if t[0] == "bin" else 1))
    return c


def escaped_case(g):
    """a literal mapping argument written with the escaped key '\\path' is compared literally"""
    r = g.r
    inner = r.choice([["a"], ["b", 0], "x", 5])
    key = r.choice(["path", "path.length", "path.first.map_keys"])
    # the escaped key alone, or among other keys in any position
    others = {k: r.choice([1, "x", None]) for k in r.sample(["note", "z", "a"], r.choice([0, 0, 1, 2]))}
    items = list(others.items())
    items.insert(r.randrange(len(items) + 1), ("\\" + key, inner))
    spec = {"value.equal_to": dict(items)}
    want = {(k[1:] if k.startswith("\\") else k): v for k, v in items}
    c = Case("escaped", {"spec": enc.enc_val(spec)})
    c.py = f"from valida.conditions import *\nc = ConditionLike.from_spec({spec!r})\nprint(c, c.filter([{want!r}, 1]).result)"
    o = enc.outcome(lambda: ConditionLike.from_spec(copy.deepcopy(spec)))
    c.ask(["parse_cond", enc.enc_val(spec)], ["ok", enc.enc_cond(o[1])] if o[0] == "ok" else o, "parse_cond")
    if o[0] != "ok":
        c.fail("escaped_literal", f"from_spec raised {o[1]}")
        return c
    res = enc.outcome(lambda: list(o[1].filter([want, 1, {"x": 1}]).result))
    if res != ["ok", [True, False, False]]:
        c.fail("escaped_literal", f"escaped mapping is not compared literally: {res}")
    # the un-escaped spelling is a data path
    spec2 = {"value.equal_to": {key: ["a"]}}
    o2 = enc.outcome(lambda: ConditionLike.from_spec(copy.deepcopy(spec2)))
    if o2[0] == "ok":
        arg = list(o2[1].callable.kwargs.values())[0]
        if not isinstance(arg, DP.DataPath):
            c.fail("path_spec_argument", "a {path: parts} argument did not become a data path")
    c.nontrivial = True
    c.features.add(("escaped", key))
    return c


def matches_known(entry, case, name, detail):
    return entry.get("match", {}).get("tag") in getattr(case, "tags", set())


def generate(rng, n, tier):
    g = Gen(rng, pct_strings=False, max_depth=3)
    cases = []
    # D18 witness
    doc = {"a": 5, "b": 5}
    t = ("leaf", "Value", "in_", [[PathArg([("prim", "b")], None, None), 7]], {})
    cases.append(make_case([("prim", "a")], t, doc))
    while len(cases) < n:
        if rng.random() < 0.06:
            cases.append(escaped_case(g))
            continue
        doc = g.dict_(2, n=rng.choice([2, 3, 4]))
        keys = [k for k in doc if k is not None]
        if not keys:
            continue
        k = rng.choice(keys)
        rule_parts = [("prim", k)] if rng.random() < 0.7 else [("map", {"key": None, "index": None, "value": None, "condition": None,
                                                                        "list_condition": None, "map_condition": None, "label": None})]
        t = gen_cond(g, doc, nested_p=0.08)
        c = make_case(rule_parts, t, doc)
        if c is not None:
            cases.append(c)
    return cases
