"""C08 – validation is read-only: inputs and schema unchanged, results repeatable."""
import copy
import warnings

import enc
import terms
from core import Case
from gen import Gen
from props import rules_common as rc
from props.c03 import gen_doc_for_parts
from props.c06 import normalise

import valida.conditions as C
import valida.datapath as DP
from valida.data import Data
from valida.schema import Schema

warnings.simplefilter("ignore")


def deep_ids(v, out):
    """identities of every container inside a document"""
    if isinstance(v, (list, tuple)):
        out.append(id(v))
        for x in v:
            deep_ids(x, out)
    elif isinstance(v, dict):
        out.append(id(v))
        for x in v.values():
            deep_ids(x, out)
    return out


def doc_snapshot(doc):
    return (enc.enc_val(doc), deep_ids(doc, []))


def cond_snapshot(c, depth=0):
    """structure + identity of a condition object graph"""
    if depth > 50:
        return "too deep"
    ch = getattr(c, "children", None)
    if ch is not None:
        return (type(c).__name__, id(c), tuple(cond_snapshot(x, depth + 1) for x in ch))
    pc = c.callable
    return (type(c).__name__, id(c), pc.name, repr(enc.enc_val(list(pc.args))) if all(not isinstance(a, DP.DataPath) for a in pc.args) else "paths",
            tuple(sorted(pc.kwargs)))


def part_snapshot(p):
    out = [type(p).__name__, id(p), cond_snapshot(p.condition), repr(p.label)]
    if hasattr(p, "list_condition"):
        out += [cond_snapshot(p.list_condition), cond_snapshot(p.map_condition)]
    return tuple(out)


def path_snapshot(p):
    return (id(p), tuple(part_snapshot(x) for x in p.parts), p.is_concrete, p.DATUM_TYPE.name, p.MULTI_TYPE.name, id(p.source_data))


def rule_snapshot(r):
    return (id(r), path_snapshot(r.path), cond_snapshot(r.condition), repr(r.cast), repr(r.doc))


def schema_snapshot(s):
    return (id(s), tuple(rule_snapshot(r) for r in s.rules))


def deep_state(o, seen=None, depth=0):
    """attribute-level state of an object graph of the library (every attribute of every reachable
    library object, so that a memo or cache written by a call is seen), without identities"""
    if seen is None:
        seen = set()
    if depth > 40:
        return "deep"
    if o is None or isinstance(o, (bool, int, float, str)):
        return (type(o).__name__, repr(o))
    if isinstance(o, type) or callable(o) and not hasattr(o, "__dict__"):
        return ("callable", getattr(o, "__qualname__", repr(o)))
    if isinstance(o, (list, tuple)):
        return (type(o).__name__, tuple(deep_state(x, seen, depth + 1) for x in o))
    if isinstance(o, dict):
        return ("dict", tuple((deep_state(k, seen, depth + 1), deep_state(v, seen, depth + 1)) for k, v in o.items()))
    if isinstance(o, (set, frozenset)):
        return ("set", tuple(sorted(repr(x) for x in o)))
    mod = getattr(type(o), "__module__", "")
    if mod.startswith("valida") and hasattr(o, "__dict__"):
        if id(o) in seen:
            return ("seen", type(o).__name__)
        seen.add(id(o))
        return (type(o).__name__, tuple((k, deep_state(v, seen, depth + 1)) for k, v in sorted(vars(o).items())))
    if callable(o):
        return ("callable", getattr(o, "__qualname__", type(o).__name__))
    return ("other", type(o).__name__)


def retype(v, r, p=0.5):
    """an `==`-equal copy in which some numbers have another numeric type (1 / True / 1.0)"""
    if isinstance(v, list):
        return [retype(x, r, p) for x in v]
    if isinstance(v, dict):
        return {k: retype(x, r, p) for k, x in v.items()}
    if isinstance(v, (bool, int, float)) and r.random() < p:
        if v == 1:
            return r.choice([1, True, 1.0])
        if v == 0:
            return r.choice([0, False, 0.0])
        if isinstance(v, int) and not isinstance(v, bool) and abs(v) < 2 ** 53:
            return float(v)
        if isinstance(v, float) and v == int(v) and abs(v) < 2 ** 53:
            return int(v)
    return v


def patharg_history_case(g):
    """a shared rule whose condition has data-path arguments, tested over a history of documents some of which
    are `==`-equal but differ in the types of their numbers: every call must leave the rule as it was and
    give what a freshly built rule gives"""
    from props import c17
    r = g.r
    doc = g.dict_(2, n=r.choice([2, 3, 4]))
    for k in list(doc)[:2]:
        if r.random() < 0.5:
            doc[k] = r.choice([0, 1, True, 1.0, 2, 2.0, [1, 0], {"x": 1}])
    keys = [k for k in doc if k is not None]
    if not keys:
        return None
    k = r.choice(keys)
    rule_parts = [("prim", k)] if r.random() < 0.6 else [("map", {"key": None, "index": None, "value": None, "condition": None,
                                                                   "list_condition": None, "map_condition": None, "label": None})]
    # (a quarter of them with the path inside a list / mapping argument: such an argument is the condition's own
    # stored container, which a call must not write into)
    t = c17.gen_cond(g, doc, nested_p=0.25)
    if r.random() < 0.4:
        # a type-sensitive use of the argument
        pa = c17.gen_patharg(g, doc)
        pa = c17.PathArg(pa.parts, "dtype", pa.multi)
        t = ("leaf", "ValueDataType", "equal_to", [pa], {})
    docs = [doc] + [retype(doc, r) for _ in range(r.choice([1, 2, 3]))]
    if r.random() < 0.5:
        docs.append(g.dict_(2, n=3))
    order = [r.randrange(len(docs)) for _ in range(r.choice([3, 4, 6]))]

    def mk():
        return Rule(DP.DataPath(*[terms.build_part(p) for p in rule_parts]), terms.build_tree(c17.realise(t)))
    from valida.rules import Rule
    c = Case("patharg_history", {"path": [terms.part_desc(p) for p in rule_parts], "cond": c17.tree_py(t),
                                 "docs": [enc.enc_val(d) for d in docs], "order": order})
    c.py = rc.PY_HEAD + "\n".join([
        f"mk = lambda: Rule(DataPath({', '.join(terms.part_py(p) for p in rule_parts)}), {c17.tree_py(t)})",
        "r = mk()",
        f"docs = {terms.repr_py(docs)}",
        f"for i in {order}:",
        "    rt = r.test(docs[i])",
        "    print(i, rt.is_valid, [f.path for f in rt.failures], mk().test(docs[i]).is_valid)"])
    built = enc.outcome(mk)
    if built[0] != "ok":
        return None
    rule = built[1]
    S = Schema([rule])
    state = deep_state(rule)
    for n_, i in enumerate(order):
        use_schema = r.random() < 0.4
        d = docs[i]

        def obs(rl, sch):
            if use_schema:
                v = sch.validate(d)
                return (bool(v.is_valid), v.num_failures, [enc.enc_val(tuple(f.path)) for t_ in v.rule_tests for f in t_.failures])
            return c17.verdict(rl.test(d))
        got = enc.outcome(lambda: obs(rule, S))
        fresh_rule = mk()
        want = enc.outcome(lambda: obs(fresh_rule, Schema([fresh_rule])))
        if got != want:
            c.fail("repeatable", f"call #{n_} on document #{i}: the shared rule gave {got!r:.200}, a freshly built one {want!r:.200}")
            break
        st = deep_state(rule)
        if st != state:
            c.fail("schema_unchanged", f"the state of the rule / its condition changed in call #{n_} on document #{i}")
            break
    c.nontrivial = True
    c.features.add(("patharg", len(docs), len(order)))
    return c


def make_case(g, rules, docs, calls):
    r = g.r
    desc = {"rules": [rc.rule_desc(x) for x in rules], "docs": [enc.enc_val(d) for d in docs], "calls": calls}
    c = Case("history", desc)
    rules_py = ", ".join(rc.rule_py(x) for x in rules)
    lines = [rc.PY_HEAD, "import copy", f"S = Schema([{rules_py}])", f"docs = {terms.repr_py(docs)}", "before = copy.deepcopy(docs)"]
    for kind, ri, di in calls:
        if kind == "validate":
            lines.append(f"S.validate(docs[{di}])")
        elif kind == "test":
            lines.append(f"S.rules[{ri}].test(docs[{di}])")
        elif kind == "get":
            lines.append(f"S.rules[{ri}].path.get_data(docs[{di}], return_paths=True)")
        elif kind in ("data_get", "data_get_alt"):
            lines.append(f"# Data(docs[{di}]).get(*<plain keys of rule {ri}{' with int<->float spellings' if kind.endswith('alt') else ''}>, return_paths=True)")
        else:
            lines.append(f"(S.rules[{ri}].condition.filter(docs[{di}]) if isinstance(docs[{di}], (list, dict)) and docs[{di}] else None)")
    lines.append("print(docs == before)")
    c.py = "\n".join(lines)
    built = enc.outcome(lambda: [rc.build_rule(x) for x in rules])
    if built[0] != "ok":
        if built[1] != "TypeError":
            c.fail("construction", f"building the rules raised {built[1]}")
            return c
        return None
    objs = built[1]
    S = Schema(list(objs))
    s_before = schema_snapshot(S)
    d_before = [doc_snapshot(d) for d in docs]

    def run(call, schema, the_docs):
        kind, ri, di = call
        d = the_docs[di]
        if kind == "validate":
            return enc.outcome(lambda: normalise(rc.obs_validated(schema.validate(d), []), False, True))
        rule = schema.rules[ri % max(len(schema.rules), 1)] if schema.rules else None
        if rule is None:
            return ["ok", None]
        if kind == "test":
            def f():
                o = rc.obs_rule_test(rule.test(d))
                o["data"] = None
                return o
            return enc.outcome(f)
        if kind == "get":
            return enc.outcome(lambda: enc.enc_val(rule.path.get_data(d, return_paths=True)))
        if kind in ("data_get", "data_get_alt"):
            # lookup with bare parts; `_alt` uses numerically equal keys of the other numeric type (1 <-> 1.0),
            # which are different parts (an int may be a list index, a float is a mapping key only)
            prims = [p[1] for p in rules[ri % len(rules)]["parts"] if p[0] == "prim"]
            if len(prims) != len(rules[ri % len(rules)]["parts"]):
                return ["ok", None]
            if kind == "data_get_alt":
                prims = [float(x) if type(x) is int else (int(x) if type(x) is float and x == int(x) else x) for x in prims]
            return enc.outcome(lambda: enc.enc_val(Data(d).get(*prims, return_paths=True)) if isinstance(d, (list, dict)) and d else None)
        return enc.outcome(lambda: list(rule.condition._filter(Data(d)).result))

    def reference_get(call):
        """independent reference for a lookup with plain keys: the single node and its path, or None"""
        kind, ri, di = call
        parts = rules[ri % len(rules)]["parts"]
        if any(p[0] != "prim" for p in parts):
            return None
        if kind == "data_get_alt":
            parts = [("prim", float(p[1]) if type(p[1]) is int else (int(p[1]) if type(p[1]) is float and p[1] == int(p[1]) else p[1]))
                     for p in parts]
        d = docs[di]
        if not isinstance(d, (list, dict)) or not d:
            return None
        sel = terms.walk(parts, d)
        if not parts:
            return ["ok", enc.enc_val((d, ()))]
        return ["ok", enc.enc_val((sel[0][0], tuple(sel[0][1])))] if sel else ["ok", enc.enc_val(None)]

    results = []
    for i, call in enumerate(calls):
        o = run(call, S, docs)
        results.append(o)
        if call[0] in ("data_get", "data_get_alt"):
            want = reference_get(call)
            if want is not None and o != want:
                c.fail("lookup_depends_on_history", f"call #{i} {call}: Data.get gave {o!r:.200}, the part-by-part walk gives {want!r:.200}")
        # inputs unchanged after every call
        for j, d in enumerate(docs):
            if doc_snapshot(d) != d_before[j]:
                c.fail("document_unchanged", f"document #{j} was changed by call #{i} {call}")
                d_before[j] = doc_snapshot(d)
        if schema_snapshot(S) != s_before:
            c.fail("schema_unchanged", f"the schema / its rules, paths or conditions were changed by call #{i} {call}")
            s_before = schema_snapshot(S)
    # repeatable: each call equals the same call on freshly built objects and fresh documents
    for i, call in enumerate(calls):
        fb = enc.outcome(lambda: Schema([rc.build_rule(x) for x in rules]))
        if fb[0] != "ok":
            c.fail("construction", f"re-building the rules raised {fb[1]}")
            break
        fresh_S = fb[1]
        fresh_docs = [enc.dec_val(db[0]) if False else copy.deepcopy(enc.dec_val(desc["docs"][j])) for j, db in enumerate(d_before)]
        o = run(call, fresh_S, fresh_docs)
        if o != results[i]:
            c.fail("repeatable", f"call #{i} {call} gave {results[i]!r:.200} in the history but {o!r:.200} on fresh objects")
            break
    # K: the validations against the model
    for i, call in enumerate(calls):
        if call[0] == "validate" and results[i][0] == "ok":
            from props.c06 import make_cmp
            has_casts = any(x["cast"] for x in rules)
            try:
                terms_ = [enc.enc_rule(o) for o in objs]
            except enc.Unencodable:
                c.fail("schema_unchanged", "a rule of the schema can no longer be introspected (cyclic condition)")
                break
            order = sorted(range(len(rules)), key=lambda k: len(rules[k]["parts"]))
            impl = ["ok", dict(results[i][1], order=order)]
            c.ask(["validate", terms_, enc.enc_val(docs[call[2]])], impl, "validate", make_cmp(False, True))
            break
    c.nontrivial = len(calls) >= 3
    c.features.add((min(len(rules), 4), len(docs), min(len(calls), 8), any(x["cast"] for x in rules)))
    return c


def generate(rng, n, tier):
    g = Gen(rng, pct_strings=False, max_depth=3)
    cases = []
    while len(cases) < n:
        if rng.random() < 0.2:
            c = patharg_history_case(g)
            if c is not None:
                cases.append(c)
            continue
        k = rng.choice([1, 2, 2, 3, 4])
        rules = [rc.gen_rule(g, cast_p=0.4) for _ in range(k)]
        # map-or-list parts with list / map conditions build combinations on the fly in every filter call
        if rng.random() < 0.4:
            d = {"key": None, "index": None, "value": None, "condition": terms.gen_tree(g, "value", 1), "label": None,
                 "list_condition": terms.gen_tree(g, "index", 1), "map_condition": terms.gen_tree(g, "key", 1)}
            rules[0]["parts"] = [("molv", d)] + rules[0]["parts"][:1]
        ndocs = rng.choice([1, 2, 3])
        docs = [gen_doc_for_parts(g, rng.choice(rules)["parts"], leaf=rc.cast_leaf(g) if rng.random() < 0.5 else None)
                for _ in range(ndocs)]
        deep = [x for x in rules if len(x["parts"]) >= 2]
        if deep and rng.random() < 0.35:
            # two cast rules, the shorter one selecting the containers the longer one casts inside (its ancestors)
            base = rng.choice(deep)
            base["cast"] = base["cast"] or [rng.choice(["int", "bool"])]
            j = rng.randrange(1, len(base["parts"]))
            anc = list(base["parts"][:j])
            if rng.random() < 0.5:
                anc = anc[:-1] + [(rng.choice(["map", "list", "molv"]),
                                   {"key": None, "index": None, "value": None, "condition": None, "list_condition": None,
                                    "map_condition": None, "label": None})]
            extra = rc.gen_rule(g, cast_p=1.0)
            extra["parts"] = anc
            rules.append(extra)
            k = len(rules)
            docs = [gen_doc_for_parts(g, base["parts"], leaf=rc.cast_leaf(g)) for _ in range(ndocs)]
        ncalls = rng.choice([3, 4, 6, 8] if tier == "quick" else [4, 8, 12, 16])
        calls = [(rng.choice(["validate", "validate", "test", "get", "filter", "data_get", "data_get_alt"]), rng.randrange(k), rng.randrange(ndocs))
                 for _ in range(ncalls)]
        if rng.random() < 0.3:
            # the same lookup with int and float spellings of the keys, in both orders, on the same document
            ri, di = rng.randrange(k), rng.randrange(ndocs)
            pair = [("data_get", ri, di), ("data_get_alt", ri, di)]
            rng.shuffle(pair)
            calls = calls[:2] + pair + calls[2:] + pair[::-1]
        c = make_case(g, rules, docs, calls)
        if c is not None:
            cases.append(c)
    return cases
