"""C10 – path, part, rule and YAML specs build the same objects as the Python API."""
import copy
import io
import warnings

import enc
import terms
from core import Case
from gen import Gen
from props import rules_common as rc
from props import c09
from props.c03 import gen_doc_for_parts

import valida.datapath as DP
from valida.datapath import ContainerValue
from valida.rules import Rule
from valida.schema import Schema

warnings.simplefilter("ignore")

TYPE_KEY = {"map": "map_value", "list": "list_value", "molv": "map_or_list_value"}


def spec_of_datum(r, name, s, out):
    """add the spelling of a key/index/value datum spec to the part spec `out`; False if it has none"""
    if s is None:
        return True
    if s[0] == "v":
        if name == "value":
            sp = c09.spell(r, "Value", r.choice(["equal_to", "eq"]), [s[1]], {})
        elif name == "key":
            sp = c09.spell(r, "Key", r.choice(["equal_to", "eq"]), [s[1]], {})
        else:
            sp = c09.spell(r, "Index", r.choice(["equal_to", "eq"]), [s[1]], {})
        if sp is None:
            return False
        (k, v), = sp.items()
        if r.random() < 0.6:
            out[k.lower() if r.random() < 0.7 else k] = v      # shorthand: keys must start with 'value.' / 'key.' / 'index.'
            kk = list(out)[-1]
            if not kk.startswith(name + "."):
                del out[kk]
                out[name + kk[len(name):]] = v
        else:
            out[name] = sp
        return True
    t = s[1]
    if terms.simplify_tree(t)[0] == "null":
        return False          # `key: {}` is refused by the spec route (a null key condition says nothing)
    sp = c09.tree_spell(r, t)
    if sp is None:
        return False
    if t[0] == "leaf" and r.random() < 0.5:
        (k, v), = sp.items()
        out[name + k[len(name):]] = v
    else:
        out[name] = sp if sp is not None else {}
    return True


def part_spec(r, p):
    """one spelling of a part recipe as a part spec (primitive or mapping); None if it has none"""
    if p[0] == "prim":
        return p[1]
    kind, d = p
    out = {}
    if kind != "molv" or r.random() < 0.6:
        out["type"] = TYPE_KEY[kind]
    for name in ("condition", "list_condition", "map_condition"):
        if d[name] is not None:
            sp = c09.tree_spell(r, d[name])
            if sp is None and d[name][0] != "null":
                return None
            out[name] = sp if sp is not None else {}
    for name in ("value", "key", "index"):
        if not spec_of_datum(r, name, d[name], out):
            return None
    if d["label"] is not None:
        out["label"] = d["label"]
    items = list(out.items())
    r.shuffle(items)
    return dict(items)


def n_components(p):
    if p[0] == "prim":
        return 1
    d = p[1]
    return sum(1 for k in ("condition", "key", "index", "value") if d[k] is not None and not (d[k][0] == "c" and d[k][1][0] == "null"))


def sel(p, d):
    return enc.outcome(lambda: enc.enc_val(p.get_data(d, return_paths=True)))


def part_case(g, p):
    r = g.r
    sp = part_spec(r, p)
    if sp is None or not isinstance(sp, dict):
        return None
    c = Case("part_spec", {"part": terms.part_desc(p), "spec": enc.enc_val(sp)})
    c.py = ("from valida.conditions import *\nfrom valida.datapath import *\nimport pathlib\n"
            f"a = ContainerValue.from_spec({terms.repr_py(sp)})\nb = {terms.part_py(p)}\nprint(a, b, a == b)")
    api = enc.outcome(lambda: terms.build_part(p))
    if api[0] != "ok":
        return None
    parsed = enc.outcome(lambda: ContainerValue.from_spec(copy.deepcopy(sp)))
    c.ask(["parse_part", enc.enc_val(sp)], ["ok", enc.enc_part(parsed[1])] if parsed[0] == "ok" else parsed, "parse_part")
    if parsed[0] != "ok":
        c.fail("spec_accepted", f"the spec of an API-expressible part was rejected with {parsed[1]}")
        return c
    a, b = parsed[1], api[1]
    if n_components(p) <= 2 and p[1]["list_condition"] is None and p[1]["map_condition"] is None:
        if not (a == b and b == a):
            c.fail("equal_to_api", "spec-built part != keyword-built part")
    docs = [gen_doc_for_parts(g, [p]) for _ in range(3)]
    pa, pb = DP.DataPath(a), DP.DataPath(b)
    for d in docs:
        if sel(pa, d) != sel(pb, d):
            c.fail("same_selection", "spec-built and API-built parts select differently")
            break
    c.nontrivial = True
    c.features.add(("part", p[0], n_components(p)))
    return c


SUFFIX = {"length": ["length", "len"], "dtype": ["dtype", "type"], "map_keys": ["map_keys"], "map_values": ["map_values"],
          "first": ["first"], "last": ["last"], "single": ["single"], "all": ["all"]}


def path_case(g, parts):
    r = g.r
    specs = []
    for p in parts:
        sp = part_spec(r, p)
        if sp is None and p[0] != "prim":
            return None
        specs.append(sp)
    concrete = all(p[0] == "prim" for p in parts)
    datum = r.choice([None, None, "length", "dtype", "map_keys", "map_values"])
    multi = None if concrete else r.choice([None, None, "first", "last", "single", "all"])
    toks = ["path"]
    mods = [m for m in (datum, multi) if m]
    r.shuffle(mods)
    for m in mods:
        toks.append(c09.rand_case(r, r.choice(SUFFIX[m])))
    key = ".".join([c09.rand_case(r, "path")] + toks[1:])
    spec = {key: specs}
    c = Case("path_spec", {"parts": [terms.part_desc(p) for p in parts], "spec": enc.enc_val(spec)})
    api_py = f"DataPath({', '.join(terms.part_py(p) for p in parts)})" + "".join(f".{m}()" for m in mods)
    c.py = ("from valida.conditions import *\nfrom valida.datapath import *\nimport pathlib\n"
            f"a = DataPath.from_spec({terms.repr_py(spec)})\nb = {api_py}\nprint(a, b, a == b)")

    def api():
        p = DP.DataPath(*[terms.build_part(x) for x in parts])
        for m in mods:
            p = getattr(p, m)()
        return p
    b = enc.outcome(api)
    if b[0] != "ok":
        return None
    a = enc.outcome(lambda: DP.DataPath.from_spec(copy.deepcopy(spec)))
    c.ask(["parse_path", enc.enc_val(spec)], ["ok", ["path", enc.enc_path(a[1])]] if a[0] == "ok" else a, "parse_path")
    if a[0] != "ok":
        c.fail("spec_accepted", f"the path spec was rejected with {a[1]}")
        return c
    if all(n_components(p) <= 2 for p in parts) and not (a[1] == b[1]):
        c.fail("equal_to_api", "spec-built path != API-built path")
    # both suffix orders
    if len(mods) == 2:
        key2 = ".".join(["path", toks[2], toks[1]])
        a2 = enc.outcome(lambda: DP.DataPath.from_spec({key2: copy.deepcopy(specs)}))
        if a2[0] != "ok" or not (a2[1] == a[1]):
            c.fail("suffix_order", "the two suffix orders give different paths")
    docs = [gen_doc_for_parts(g, parts) for _ in range(3)]
    for d in docs:
        if sel(a[1], d) != sel(b[1], d):
            c.fail("same_selection", "spec-built and API-built paths select differently")
            break
    c.nontrivial = True
    c.features.add(("path", len(parts), datum, multi))
    return c


def from_str_case(g):
    r = g.r
    delim = r.choice(["/", "/", ".", ":"])
    toks = [r.choice(["a", "b", "inputs", "p1", "key", "x y", "0", "1", "12", "-3", "abc", "k1", "1.5", "0.1", "2.0", "10.25", "-0.5",
                      "", "", "+1", " 1", "1_0"])
            for _ in range(r.choice([0, 1, 2, 3, 4]))]
    toks = [t for t in toks if delim not in t]
    s = delim.join(toks)
    if s == "":
        toks = []            # the empty string has no tokens (a lone empty key cannot be written)
    c = Case("from_str", {"str": s, "delim": delim})
    c.py = f"from valida.datapath import *\np = DataPath.from_str({s!r}, delimiter={delim!r})\nprint(p)"
    a = enc.outcome(lambda: DP.DataPath.from_str(s, delimiter=delim))
    c.ask(["from_str", s, delim], ["ok", enc.enc_path(a[1])] if a[0] == "ok" else a, "from_str")
    if a[0] != "ok":
        c.fail("from_str", f"from_str raised {a[1]}")
        return c
    def numeric(t):
        try:
            float(t)
            return True
        except ValueError:
            return False
    if s and not any(numeric(t) for t in toks):
        b = DP.DataPath(*toks)
        if not (a[1] == b):
            c.fail("from_str_equal", "from_str of non-numeric tokens != DataPath(*tokens)")
    # numeric tokens select both the string key and the integer key / index
    # a numeric token matches the text key and the numeric key (and, for an integer, the list index) – and nothing else:
    # the same selection as the explicit API path
    def api_part(t):
        try:
            n = int(t)
            return DP.MapOrListValue(key=DP.cnds.Key.in_((t, n)), index=n)
        except ValueError:
            pass
        try:
            return DP.MapValue(key=DP.cnds.Key.in_((t, float(t))))
        except ValueError:
            return t
    b2 = DP.DataPath(*[api_part(t) for t in toks])
    if toks and not (a[1] == b2):
        c.fail("from_str_equal", "from_str path != the API path with Key.in_((text, number)) parts")
    docs = [{"a": {"0": "s", 0: "i", "1": [10, 11], "1.5": "t", 1.5: "f"}, "1": "one", 1: "int-one", "12": 5, "1.5": ["p", "q"], 1.5: {"a": 1}},
            ["x", {"a": 1, "b": [1, 2]}, "y"], {"a": ["l0", "l1", "l2"], "b": {"0.1": 1}}]
    for d in docs:
        o = enc.outcome(lambda: enc.enc_val(a[1].get_data(d, return_paths=True)))
        o2 = enc.outcome(lambda: enc.enc_val(b2.get_data(d, return_paths=True)))
        if o[0] != "ok":
            c.fail("from_str_resolves", f"resolving a from_str path raised {o[1]}")
        elif o != o2:
            c.fail("from_str_selects", f"from_str path selects {o!r:.200}, the API path {o2!r:.200}")
    c.nontrivial = bool(toks)
    c.features.add(("from_str", len(toks), delim))
    return c


DOC_SHAPES = ["none", "str", "list", "dict-str", "dict-list", "dict-no-desc", "dict-examples"]


def rule_spec(g, rr):
    """(spec, expected normalised doc) for a rule recipe"""
    r = g.r
    rr["cast"] = rr["cast"][:1]        # a spec names one cast per source type (and only types the library has a name for)
    path = []
    for p in rr["parts"]:
        sp = part_spec(r, p)
        if sp is None and p[0] != "prim":
            return None
        path.append(sp)
    cond = c09.tree_spell(r, rr["cond"])
    if cond is None:
        if rr["cond"][0] != "null":
            return None
        cond = {}
    spec = {"path": path, "condition": cond}
    if rr["cast"]:
        spec["cast"] = {"str": rr["cast"][0]}
    shape = r.choice(DOC_SHAPES)
    want = None
    if shape == "str":
        spec["doc"] = " some text \n"
        want = {"description": ["some text"], "examples": []}
    elif shape == "list":
        spec["doc"] = ["first ", " second"]
        want = {"description": ["first", "second"], "examples": []}
    elif shape == "dict-str":
        spec["doc"] = {"description": " d "}
        want = {"description": ["d"], "examples": []}
    elif shape == "dict-list":
        spec["doc"] = {"description": ["a ", "b"], "examples": [" e1 "]}
        want = {"description": ["a", "b"], "examples": ["e1"]}
    elif shape == "dict-no-desc":
        spec["doc"] = {"examples": ["e "]}
        want = {"examples": ["e"], "description": []}
    elif shape == "dict-examples":
        spec["doc"] = {"description": "x", "examples": []}
        want = {"description": ["x"], "examples": []}
    items = list(spec.items())
    r.shuffle(items)
    return dict(items), want, shape


def rule_case(g, rr, yaml_too=True):
    r = g.r
    rs = rule_spec(g, rr)
    if rs is None:
        return None
    spec, want_doc, shape = rs
    c = Case("rule_spec", {"rule": rc.rule_desc(rr), "spec": enc.enc_val(spec)})
    c.py = rc.PY_HEAD + f"a = Rule.from_spec({terms.repr_py(spec)})\nb = {rc.rule_py(rr)}\nprint(a, b, a == b, a.doc)"
    api = enc.outcome(lambda: rc.build_rule(rr))
    if api[0] != "ok":
        return None
    a = enc.outcome(lambda: Rule.from_spec(copy.deepcopy(spec)))
    if a[0] == "ok":
        doc_enc = None if a[1].doc is None else enc.enc_val(a[1].doc)
        c.ask(["parse_rule", enc.enc_val(spec)], ["ok", {"rule": enc.enc_rule(a[1]), "doc": doc_enc}], "parse_rule")
    else:
        c.ask(["parse_rule", enc.enc_val(spec)], a, "parse_rule")
        c.fail("spec_accepted", f"the rule spec was rejected with {a[1]}")
        return c
    ra, rb = a[1], api[1]
    simple = all(n_components(p) <= 2 for p in rr["parts"])
    if simple and not (ra == rb and rb == ra):
        c.fail("equal_to_api", "spec-built rule != API-built rule")
    if ra.doc != want_doc:
        c.fail("doc_normalised", f"doc {ra.doc!r} expected {want_doc!r}")
    if (ra.cast or None) != (rb.cast or None):
        c.fail("cast", f"cast {ra.cast!r} expected {rb.cast!r}")
    docs = [gen_doc_for_parts(g, rr["parts"]) for _ in range(3)]
    for d in docs:
        oa = enc.outcome(lambda: strip(rc.obs_rule_test(ra.test(d))))
        ob = enc.outcome(lambda: strip(rc.obs_rule_test(rb.test(d))))
        if oa != ob:
            c.fail("same_validation", f"spec-built and API-built rules validate differently: {oa!r:.200} vs {ob!r:.200}")
            break
    # YAML route
    if yaml_too:
        y = to_yaml({"rules": [spec]})
        if y is not None:
            s = enc.outcome(lambda: Schema.from_yaml(y))
            if s[0] != "ok":
                c.fail("yaml", f"Schema.from_yaml raised {s[1]}")
            else:
                if simple and not (s[1].rules[0] == rb):
                    c.fail("yaml_equal", "the rule loaded from YAML text != API-built rule")
                for d in docs[:2]:
                    oa = enc.outcome(lambda: strip(rc.obs_rule_test(s[1].rules[0].test(d))))
                    ob = enc.outcome(lambda: strip(rc.obs_rule_test(rb.test(d))))
                    if oa != ob:
                        c.fail("yaml_same_validation", "the rule loaded from YAML validates differently")
                        break
            c.features.add(("yaml",))
    c.nontrivial = True
    c.features.add(("rule", len(rr["parts"]), bool(rr["cast"]), shape))
    return c


def strip(o):
    o = dict(o)
    o["failures"] = [f[:3] for f in o["failures"]]
    return o


def yaml_safe(v):
    """representable in safe YAML and loaded back as the same Python value"""
    if v is None or isinstance(v, (bool, int, str)):
        return True
    if isinstance(v, float):
        return v == v and abs(v) < 1e300
    if isinstance(v, list):
        return all(yaml_safe(x) for x in v)
    if isinstance(v, dict):
        return all(isinstance(k, (str, int, bool, float)) or k is None for k in v) and all(yaml_safe(x) for x in v.values())
    return False


def to_yaml(struct):
    if not yaml_safe(struct):
        return None
    from ruamel.yaml import YAML
    y = YAML(typ="safe")
    buf = io.StringIO()
    try:
        y.dump(struct, buf)
        text = buf.getvalue()
        back = YAML(typ="safe").load(text)
    except Exception:  # noqa: BLE001
        return None
    if enc.enc_val(back) != enc.enc_val(struct):
        return None
    return text


def generate(rng, n, tier):
    from props import corners
    _corner = corners.from_str_cases()
    g = Gen(rng, pct_strings=False, max_depth=2)
    cases = list(_corner)
    while len(cases) < n:
        x = rng.random()
        c = None
        if x < 0.3:
            p = terms.gen_part(g, prim_p=0.0)
            c = part_case(g, p)
        elif x < 0.55:
            parts = [terms.gen_part(g, rng.choice([0.4, 0.7, 1.0])) for _ in range(rng.choice([0, 1, 2, 3]))]
            c = path_case(g, parts)
        elif x < 0.65:
            c = from_str_case(g)
        else:
            rr = rc.gen_rule(g, cast_p=0.3)
            c = rule_case(g, rr)
        if c is not None:
            cases.append(c)
    return cases
