"""C07 – validation never raises because of what the document contains (with and without casts)."""
from props import c06


def generate(rng, n, tier):
    return c06.generate(rng, n, tier, cast_p=0.4, hostile=True)
