"""C14 – equality is an equivalence relation that implies identical behaviour."""
import copy
import warnings

import enc
import terms
from core import Case
from gen import Gen
from props import rules_common as rc
from props.c03 import gen_doc_for_parts
from props.c09 import filter_obs, PROBES

import valida.datapath as DP
from valida.schema import Schema

warnings.simplefilter("ignore")


VARPOS = ("is_instance", "keys_is_instance", "keys_contain_any_of", "keys_contain_all_of", "keys_contain_one_of", "keys_equal_to",
          "allowed_keys", "required_keys", "forbidden_keys")


def mutate_tree(g, t):
    """one atom changed: an argument, a callable, a class, an operator, operand order (commuted: equal)"""
    r = g.r
    kind = r.choice(["arg", "ctor", "cls", "commute", "op", "same", "dup"])
    if t[0] == "bin" and kind == "dup":
        # a combination whose two operands are equal, against one sharing only one of them
        return ("bin", t[1], t[2], copy.deepcopy(t[2])), "dup-child"
    if t[0] == "bin" and t[2][0] == "bin" and r.random() < 0.2:
        # the same leaves and operators, grouped differently: (a o1 b) o2 c  ->  (a o1 c) o2 b
        return ("bin", t[1], ("bin", t[2][1], t[2][2], t[3]), t[2][3]), "regroup"
    if t[0] == "bin" and t[3][0] == "bin" and r.random() < 0.1:
        # a o2 (b o1 c)  ->  b o2 (a o1 c)
        return ("bin", t[1], t[3][2], ("bin", t[3][1], t[2], t[3][3])), "regroup"
    if t[0] == "bin":
        if kind == "commute":
            return ("bin", t[1], t[3], t[2]), "commuted"
        if kind == "op":
            return ("bin", r.choice([o for o in ("and", "or", "xor") if o != t[1]]), t[2], t[3]), "op"
        if r.random() < 0.5:
            m, w = mutate_tree(g, t[2])
            return ("bin", t[1], m, t[3]), w
        m, w = mutate_tree(g, t[3])
        return ("bin", t[1], t[2], m), w
    if t[0] == "null" or kind in ("same", "commute", "op"):
        return copy.deepcopy(t), "rebuilt"
    _, cls, ctor, args, kwargs = t
    # one argument more or less (keyword for `**items`, positional for `*args` constructors)
    if ctor == "items_contain" and r.random() < 0.5:
        kwargs = dict(kwargs)
        if kwargs and r.random() < 0.5:
            kwargs.pop(r.choice(list(kwargs)))
            return ("leaf", cls, ctor, list(args), kwargs), "kw-drop"
        kwargs[r.choice([k for k in ("zz", "a", "b", "k9") if k not in kwargs] or ["zz9"])] = r.choice([1, "a", None])
        return ("leaf", cls, ctor, list(args), kwargs), "kw-add"
    if ctor in VARPOS and r.random() < 0.5:
        args = list(args)
        if args and r.random() < 0.5:
            args.pop(r.randrange(len(args)))
            return ("leaf", cls, ctor, args, dict(kwargs)), "arg-drop"
        args.insert(r.randrange(len(args) + 1), r.choice([int, str] if "instance" in ctor else ["zz", "a", 1]))
        return ("leaf", cls, ctor, args, dict(kwargs)), "arg-add"
    if kind == "arg" and (args or kwargs):
        args, kwargs = list(args), dict(kwargs)
        pool = [0, 1, 2, 1.0, True, "a", "b", None, [1], [1.0], {"a": 1}]
        if args:
            i = r.randrange(len(args))
            args[i] = r.choice(pool)
        else:
            k = r.choice(list(kwargs))
            kwargs[k] = r.choice(pool)
        return ("leaf", cls, ctor, args, kwargs), "arg"
    if kind == "cls":
        other = {"Value": "Key", "Key": "Value", "ValueLength": "KeyLength", "KeyLength": "ValueLength",
                 "ValueDataType": "KeyDataType", "KeyDataType": "ValueDataType", "Index": "Value"}[cls]
        return ("leaf", other, ctor, args, kwargs), "cls"
    if kind == "ctor":
        swaps = {"equal_to": "not_equal_to", "eq": "equal_to", "less_than": "less_than_or_equal_to", "lt": "less_than",
                 "gt": "greater_than", "in_": "not_in", "truthy": "falsy", "allowed_keys": "required_keys",
                 "keys_contain_any_of": "keys_contain_all_of", "in_range": "not_in_range"}
        if ctor in swaps:
            return ("leaf", cls, swaps[ctor], args, kwargs), "ctor"
    return copy.deepcopy(t), "rebuilt"


def gen_other_leaf(g, like):
    t = terms.gen_leaf(g, "value", hostile_p=0.0)
    return t


def mutate_part(g, p):
    r = g.r
    if p[0] == "prim":
        x = r.random()
        if x < 0.3:
            return copy.deepcopy(p), "rebuilt"
        if x < 0.45:
            # the part object the plain key / index stands for, written out: the parts are equal, the path is
            # no longer concrete (it yields a list of matches instead of the single node)
            v = p[1]
            none = {"key": None, "index": None, "value": None, "condition": None, "list_condition": None,
                    "map_condition": None, "label": None}
            if isinstance(v, int) and not isinstance(v, bool):
                return ("molv", dict(none, key=("v", v), index=("v", v))), "explicit-part"
            return ("map", dict(none, key=("v", v))), "explicit-part"
        v = p[1]
        alts = {str: ["a", "b", "zz"], int: [0, 1, 2, 7], float: [0.5, 1.0, 2.0], bool: [True, False]}[type(v)]
        if x < 0.8:
            return ("prim", r.choice(alts)), "key"
        # numerically equal key of another type (1 / 1.0 / True): equal conditions? (1 == 1.0)
        eqs = {1: 1.0, 0: 0.0, 1.0: 1, 0.0: 0, 2: 2.0, 2.0: 2}
        if v in eqs and not isinstance(v, bool):
            return ("prim", eqs[v]), "key-type"
        return copy.deepcopy(p), "rebuilt"
    kind, d = p
    d = copy.deepcopy(d)
    x = r.random()
    if x < 0.3:
        return (kind, d), "rebuilt"
    if x < 0.45:
        d["label"] = r.choice(["lbl", "other", None])
        return (kind, d), "label"
    if x < 0.6:
        k2 = r.choice([k for k in ("map", "list", "molv") if k != kind])
        d2 = dict(d)
        if k2 == "map":
            d2["index"] = None
            d2["list_condition"] = d2["map_condition"] = None
        elif k2 == "list":
            d2["key"] = None
            d2["list_condition"] = d2["map_condition"] = None
        return (k2, d2), "kind"
    for f in ("key", "index", "value"):
        if d[f] is not None and d[f][0] == "c":
            m, w = mutate_tree(g, d[f][1])
            d[f] = ("c", m)
            return (kind, d), "cond-" + w
        if d[f] is not None and d[f][0] == "v":
            d[f] = ("v", r.choice(["a", "b", 0, 1, 2]))
            return (kind, d), "spec-value"
    return (kind, d), "rebuilt"


def eq_obs(a, b):
    return enc.outcome(lambda: bool(a == b))


def make_cond_case(g, t):
    r = g.r
    if t[0] == "bin" and r.random() < 0.15:
        t = ("bin", t[1], t[2], copy.deepcopy(t[2]))        # x = a op a
        m, what = ("bin", t[1], t[2], gen_other_leaf(g, t[2])), "dup-vs-distinct"
    else:
        m, what = mutate_tree(g, t)
    c = Case("eq_cond", {"x": terms.tree_desc(t), "y": terms.tree_desc(m), "mutation": what})
    c.py = ("from valida.conditions import *\nimport pathlib\n"
            f"x = {terms.tree_py(t)}\ny = {terms.tree_py(m)}\nprint(x == y, y == x)")
    bx, by, bx2 = (enc.outcome(lambda: terms.build_tree(t)), enc.outcome(lambda: terms.build_tree(m)),
                   enc.outcome(lambda: terms.build_tree(t)))
    if bx[0] != "ok" or by[0] != "ok":
        return None
    x, y, x2 = bx[1], by[1], bx2[1]
    check_pair(c, x, y, x2, lambda o: enc.enc_cond(o), "eq_cond", lambda o, d: filter_obs(o, d), PROBES)
    c.features.add(("cond", what))
    return c


def only_numeric_type_differences(a, b):
    """the two encoded terms are the same except at numbers that are numerically equal but of different type
    (1 / True / 1.0): the characteristic of finding D16"""
    found = [False]

    def num(j):
        return isinstance(j, list) and len(j) == 2 and j[0] in ("b", "i", "f")

    def rec(u, v):
        if num(u) and num(v):
            if u == v:
                return True
            try:
                same = enc.dec_val(u) == enc.dec_val(v)
            except Exception:  # noqa: BLE001
                return False
            found[0] = found[0] or same
            return same
        if isinstance(u, list) and isinstance(v, list):
            return len(u) == len(v) and all(rec(p, q) for p, q in zip(u, v))
        return u == v
    return rec(a, b) and found[0]


def check_pair(c, x, y, x2, encf, op, behave, probes):
    exy, eyx, exx, exx2 = eq_obs(x, y), eq_obs(y, x), eq_obs(x, x), eq_obs(x, x2)
    if exx != ["ok", True]:
        c.fail("reflexive", f"x == x gave {exx}")
    if exx2 != ["ok", True]:
        c.fail("rebuilt_copy", f"a separately built copy compares {exx2}")
    if exy != eyx:
        c.fail("symmetric", f"x == y is {exy} but y == x is {eyx}")
    if exy[0] != "ok":
        c.fail("eq_raises", f"== raised {exy[1]}")
        return
    c.ask([op, encf(x), encf(y)], exy[1], op, lambda impl, model: None if impl == model else f"impl {impl} model {model}")
    c.nontrivial = True
    if exy[1]:
        for d in probes:
            a, b = behave(x, d), behave(y, d)
            if a != b:
                c.fail("equal_implies_same_behaviour", f"x == y but they behave differently: {a!r:.200} vs {b!r:.200}")
                c.tags = getattr(c, "tags", set()) | {"eq_behaviour"}
                try:
                    if only_numeric_type_differences(encf(x), encf(y)):
                        c.tags.add("numeric_arg_type")
                except enc.Unencodable:
                    pass
                break
    # equality does not depend on whether an object has been used: after x has been applied to the probes,
    # every comparison gives what it gave before
    for d in probes:
        behave(x, d)
    after = (eq_obs(x, y), eq_obs(y, x), eq_obs(x, x), eq_obs(x, x2))
    if after != (exy, eyx, exx, exx2):
        c.fail("equality_after_use", f"after x was used, (x==y, y==x, x==x, x==copy) went from {(exy, eyx, exx, exx2)} to {after}")
        c.py += "\n# then use x on a document (filter / get_data / test) and compare again"


def make_path_case(g, parts, docs):
    r = g.r
    i = r.randrange(len(parts)) if parts else None
    m = list(copy.deepcopy(parts))
    what = "rebuilt"
    modifier = None
    x = r.random()
    if x < 0.08:
        m.append(r.choice([("prim", "a"), ("prim", 0), terms.gen_part(g, 0.3)]))
        what = "append-part"
    elif x < 0.16 and len(parts) > 1:
        m.pop()
        what = "drop-last-part"
    elif x < 0.26:
        modifier = r.choice(["length", "dtype", "map_keys", "map_values", "first", "last", "single", "all", "source"])
        what = "modifier-" + modifier
    elif i is not None:
        m[i], what = mutate_part(g, parts[i])
    c = Case("eq_path", {"x": [terms.part_desc(p) for p in parts], "y": [terms.part_desc(p) for p in m], "mutation": what})
    c.py = ("from valida.conditions import *\nfrom valida.datapath import *\nimport pathlib\n"
            f"x = DataPath({', '.join(terms.part_py(p) for p in parts)})\ny = DataPath({', '.join(terms.part_py(p) for p in m)})\nprint(x == y, y == x)")
    mk = lambda ps: enc.outcome(lambda: DP.DataPath(*[terms.build_part(p) for p in ps]))  # noqa: E731
    bx, by, bx2 = mk(parts), mk(m), mk(parts)
    if bx[0] != "ok" or by[0] != "ok":
        return None
    if modifier is not None:
        # the same parts with a modifier (or a bound document) on one side only
        if modifier == "source":
            by = enc.outcome(lambda: DP.DataPath(*[terms.build_part(p) for p in m], source_data=docs[0]))
        else:
            by = enc.outcome(lambda: getattr(by[1], modifier)())
        if by[0] != "ok":
            return None
        c.py += f"\n# y carries the modifier / bound document: {modifier}"
    behave = lambda o, d: enc.outcome(lambda: enc.enc_val(o.get_data(d, return_paths=True)))  # noqa: E731
    check_pair(c, bx[1], by[1], bx2[1], enc.enc_path, "eq_path", behave, docs)
    c.features.add(("path", what))
    if what == "key-type":
        c.tags = getattr(c, "tags", set()) | {"numeric_key_type"}
    return c


def make_rule_case(g, rr, docs):
    r = g.r
    m = copy.deepcopy(rr)
    x = r.random()
    what = "rebuilt"
    if x < 0.3 and rr["parts"]:
        i = r.randrange(len(rr["parts"]))
        m["parts"][i], what = mutate_part(g, rr["parts"][i])
        what = "path-" + what
    elif x < 0.6:
        m["cond"], what = mutate_tree(g, rr["cond"])
        what = "cond-" + what
    elif x < 0.75:
        m["cast"] = r.choice([c for c in ([], ["int"], ["bool"]) if c != rr["cast"]])
        what = "cast"
    if r.random() < 0.12 and rr["parts"]:
        # a rule whose condition mixes value-kind leaves with key / index leaves (these read the position in the
        # selection), against the same rule with the operands commuted: equal, and the same verdicts
        t = terms.gen_tree(g, r.choice(["value+index", "index", "value+index"]), depth=r.choice([1, 2]), null_p=0.0)
        if t[0] == "bin":
            rr = dict(rr, cond=t, cast=[])
            m = dict(copy.deepcopy(rr), cond=("bin", t[1], t[3], t[2]))
            what = "mixed-kind-commuted"
    c = Case("eq_rule", {"x": rc.rule_desc(rr), "y": rc.rule_desc(m), "mutation": what})
    c.py = rc.PY_HEAD + f"x = {rc.rule_py(rr)}\ny = {rc.rule_py(m)}\nprint(x == y, y == x)"
    bx, by, bx2 = (enc.outcome(lambda: rc.build_rule(rr)), enc.outcome(lambda: rc.build_rule(m)),
                   enc.outcome(lambda: rc.build_rule(rr)))
    if bx[0] != "ok" or by[0] != "ok":
        return None

    def behave(o, d):
        # verdict, failures (path, value) in order; the textual reasons follow the operand order and are
        # not part of the verdict
        def f():
            ob = rc.obs_rule_test(o.test(d))
            ob["failures"] = [x[:3] for x in ob["failures"]]
            return ob
        return enc.outcome(f)
    check_pair(c, bx[1], by[1], bx2[1], enc.enc_rule, "eq_rule", behave, docs)
    # schemas of one rule
    sx, sy = Schema([bx[1]]), Schema([by[1]])
    if eq_obs(sx, sy) != eq_obs(bx[1], by[1]):
        c.fail("schema_eq", "single-rule schemas compare differently from their rules")
    # a schema that has validated documents still equals a separately built copy of the same definition
    sx2 = Schema([bx2[1]])
    before = (eq_obs(sx, sx2), eq_obs(sx2, sx), eq_obs(sx, sx), eq_obs(sx, sy))
    for d in docs:
        enc.outcome(lambda: sx.validate(d))
    after = (eq_obs(sx, sx2), eq_obs(sx2, sx), eq_obs(sx, sx), eq_obs(sx, sy))
    if before[0] != ["ok", True]:
        c.fail("rebuilt_copy", f"separately built single-rule schemas compare {before[0]}")
    if after != before:
        c.fail("equality_after_use", f"after Schema([x]).validate(doc), (s==copy, copy==s, s==s, s==Schema([y])) went from {before} to {after}")
        c.py = rc.PY_HEAD + (f"s = Schema([{rc.rule_py(rr)}])\ns2 = Schema([{rc.rule_py(rr)}])\nprint(s == s2)\n"
                             f"s.validate({docs[0]!r})\nprint(s == s2, s2 == s, s == s)")
    c.features.add(("rule", what))
    return c


def transitivity_case(g, t):
    """x, y, z from the same mutation family: x == y and y == z must give x == z"""
    a, _ = mutate_tree(g, t)
    b, _ = mutate_tree(g, a)
    c = Case("transitive", {"x": terms.tree_desc(t), "y": terms.tree_desc(a), "z": terms.tree_desc(b)})
    c.py = ("from valida.conditions import *\nimport pathlib\n"
            f"x = {terms.tree_py(t)}\ny = {terms.tree_py(a)}\nz = {terms.tree_py(b)}\nprint(x == y, y == z, x == z)")
    o = [enc.outcome(lambda tt=tt: terms.build_tree(tt)) for tt in (t, a, b)]
    if any(x[0] != "ok" for x in o):
        return None
    x, y, z = (v[1] for v in o)
    if (x == y) and (y == z) and not (x == z):
        c.fail("transitive", "x == y and y == z but not x == z")
    c.nontrivial = (x == y) and (y == z)
    c.features.add(("transitive", bool(x == y), bool(y == z)))
    return c


def patharg_pair_case(g):
    """conditions whose argument is a data path: against the literal of the same spelling, against the same path
    with a modifier, against another path, against a rebuilt copy"""
    from props import c17
    from props.c11 import PathArg
    r = g.r
    key = r.choice(["a", "b", 0])
    ctor = r.choice(["equal_to", "not_equal_to", "less_than", "in_"])
    base = PathArg([("prim", key)], None, None)
    variants = {
        "literal": key,
        "datum": PathArg([("prim", key)], r.choice(["length", "dtype"]), None),
        "other-path": PathArg([("prim", "zz")], None, None),
        "longer-path": PathArg([("prim", key), ("prim", 0)], None, None),
        "rebuilt": PathArg([("prim", key)], None, None),
    }
    what = r.choice(list(variants))
    tx = ("leaf", "Value", ctor, [base], {})
    ty = ("leaf", "Value", ctor, [variants[what]], {})
    c = Case("eq_cond_patharg", {"x": c17.tree_py(tx), "y": c17.tree_py(ty), "mutation": what})
    c.py = ("from valida.conditions import *\nfrom valida.datapath import *\n"
            f"x = {c17.tree_py(tx)}\ny = {c17.tree_py(ty)}\nprint(x == y, y == x)")
    bx = enc.outcome(lambda: terms.build_tree(c17.realise(tx)))
    by = enc.outcome(lambda: terms.build_tree(c17.realise(ty)))
    bx2 = enc.outcome(lambda: terms.build_tree(c17.realise(tx)))
    if bx[0] != "ok" or by[0] != "ok":
        return None
    check_pair(c, bx[1], by[1], bx2[1], lambda o: enc.enc_cond(o), "eq_cond", lambda o, d: filter_obs(o, d), PROBES)
    c.features.add(("cond-patharg", what))
    return c


def matches_known(entry, case, name, detail):
    m = entry.get("match", {})
    if m.get("predicate") and m["predicate"] != name:
        return False
    return m.get("tag") in getattr(case, "tags", set()) or (m.get("py_contains") and all(s in (case.py or "") for s in m["py_contains"]))


def generate(rng, n, tier):
    g = Gen(rng, pct_strings=False, max_depth=2)
    cases = []
    # D16 witness: numerically equal arguments of different type
    t16 = ("leaf", "Value", "in_range", [1, 5], {})
    c = Case("eq_cond", {"x": "Value.in_range(1, 5)", "y": "Value.in_range(1.0, 5)"})
    c.py = "from valida.conditions import *\nx = Value.in_range(1, 5)\ny = Value.in_range(1.0, 5)\nprint(x == y, x.filter([1, 2]).result, y.filter([1, 2]).result)"
    from valida.conditions import Value
    check_pair(c, Value.in_range(1, 5), Value.in_range(1.0, 5), Value.in_range(1, 5), enc.enc_cond, "eq_cond",
               lambda o, d: filter_obs(o, d), PROBES)
    c.tags = getattr(c, "tags", set()) | {"numeric_arg_type"}
    cases.append(c)
    # equality across different shapes, both orders (a keyword / a positional argument more on one side)
    for tx, ty in [(("leaf", "Value", "items_contain", [], {"a": 1}), ("leaf", "Value", "items_contain", [], {"a": 1, "b": 2})),
                   (("leaf", "Value", "items_contain", [], {"a": 1, "b": 2}), ("leaf", "Value", "items_contain", [], {"a": 1})),
                   (("leaf", "Value", "items_contain", [], {}), ("leaf", "Value", "items_contain", [], {"a": 1})),
                   (("leaf", "Value", "items_contain", [], {"a": 1}), ("leaf", "Value", "items_contain", [], {"b": 1})),
                   (("leaf", "Value", "items_contain", [], {"b": 1}), ("leaf", "Value", "items_contain", [], {"a": 1})),
                   (("leaf", "Value", "items_contain", [], {"a": 1, "b": 2}), ("leaf", "Value", "items_contain", [], {"a": 1, "c": 2})),
                   (("leaf", "Value", "items_contain", [], {"a": 1, "c": 2}), ("leaf", "Value", "items_contain", [], {"a": 1, "b": 2})),
                   (("leaf", "Value", "is_instance", [int], {}), ("leaf", "Value", "is_instance", [int, str], {})),
                   (("leaf", "Value", "keys_contain_any_of", ["a", "b"], {}), ("leaf", "Value", "keys_contain_any_of", ["a"], {}))]:
        c = Case("eq_cond", {"x": terms.tree_desc(tx), "y": terms.tree_desc(ty), "mutation": "shape"})
        c.py = ("from valida.conditions import *\nimport pathlib\n"
                f"x = {terms.tree_py(tx)}\ny = {terms.tree_py(ty)}\nprint(x == y, y == x)")
        check_pair(c, terms.build_tree(tx), terms.build_tree(ty), terms.build_tree(tx), lambda o: enc.enc_cond(o), "eq_cond",
                   lambda o, d: filter_obs(o, d), PROBES)
        c.features.add(("cond", "shape"))
        cases.append(c)
    while len(cases) < n:
        x = rng.random()
        if x < 0.04:
            c = patharg_pair_case(g)
            if c is not None:
                cases.append(c)
            continue
        if x < 0.35:
            kind = rng.choice(["value", "value", "key", "index", "value+key"])
            t = terms.gen_tree(g, kind, depth=rng.choice([0, 1, 2]), null_p=0.08)
            c = make_cond_case(g, t)
        elif x < 0.45:
            t = terms.gen_tree(g, "value", depth=rng.choice([1, 2]), null_p=0.05)
            c = transitivity_case(g, t)
        elif x < 0.75:
            parts = [terms.gen_part(g, 0.5) for _ in range(rng.choice([1, 1, 2, 3]))]
            docs = [gen_doc_for_parts(g, parts) for _ in range(3)]
            c = make_path_case(g, parts, docs)
        else:
            rr = rc.gen_rule(g, cast_p=0.3)
            docs = [gen_doc_for_parts(g, rr["parts"]) for _ in range(3)]
            c = make_rule_case(g, rr, docs)
        if c is not None:
            cases.append(c)
    return cases
