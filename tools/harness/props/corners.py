"""Fixed corner cases (K only: the implementation against the model, no separate expectation) for branches the
random generators do not reach: objects that are not built through the DSL, "which error wins" when a spec
has two faults, boundaries of repr(), bound / modified paths in serialisation and add_schema, an empty
`children` list in the HTML writer, escaped keys in keyword mappings, `setItem`.  They come from the
model-mutation run (DESIGN 4d): every group below is the witness of a model mutant that had survived.
Each property module takes the groups of the operations it compares."""
import copy
import json
import pathlib

import enc
from core import Case

import valida.callables as calls
import valida.conditions as C
import valida.datapath as DP
from valida.casting import cast_string_to_bool
from valida.rules import Rule
from valida.schema import Schema, format_map_key_value_data_type_conditions as type_fmt, write_tree_html


def _case(kind, desc, py, req, fn, label):
    c = Case(kind, desc)
    c.py = py
    impl = enc.outcome(fn)
    try:
        c.ask(req() if callable(req) else req, impl, label)
    except enc.Unencodable:
        return None
    c.features.add(("corner", label, str(desc)[:40]))
    c.nontrivial = True
    return c


def to_json_cases():
    out = []
    raw = [
        ("Value(callables.equal_to, 5)", lambda: C.Value(calls.equal_to, 5)),
        ("ValueLength(callables.in_range, 1, upper=5)", lambda: C.ValueLength(calls.in_range, 1, upper=5)),
        ("ValueDataType.in_([str, 5])", lambda: C.ValueDataType.in_([str, 5])),
        ("ValueDataType.equal_to(5)", lambda: C.ValueDataType.equal_to(5)),
        ("Value.is_instance(int, 'a')", lambda: C.Value.is_instance(int, "a")),
        ("Value(callables.in_range, lower=1, upper=2)", lambda: C.Value(calls.in_range, lower=1, upper=2)),
        ("Value(callables.truthy)", lambda: C.Value(calls.truthy)),
        ("ValueDataType.in_((int, str))", lambda: C.ValueDataType.in_((int, str))),
        ("KeyDataType.not_in(())", lambda: C.KeyDataType.not_in(())),
        ("ValueDataType.equal_to((int,))", lambda: C.ValueDataType.equal_to((int,))),
        ("ValueDataType.in_([(int,)])", lambda: C.ValueDataType.in_([(int,)])),
        ("Value.in_((1, 'a'))", lambda: C.Value.in_((1, "a"))),
    ]
    for text, mk in raw:
        o = mk()
        c = _case("corner_to_json", {"cond": text},
                  f"from valida.conditions import *\nfrom valida import callables\nprint({text}.to_json_like())",
                  lambda o=o: ["to_json", enc.enc_cond(o)], lambda o=o: enc.enc_val(o.to_json_like()), "to_json")
        if c:
            out.append(c)
    return out


def parse_cases():
    from valida.conditions import ConditionLike
    from valida.datapath import ContainerValue
    out = []
    conds = [
        {"value.equal_to": {"\\path\\path": 1}}, {"value.equal_to": {"\\path": 1, "path": 2}},
        {"value.items_contain": {"\\path": 1}}, {"value.items_contain": {"\\path": 1, "b": 2}},
        {"value.items_contain": {"a\\pathb": 1}}, {"value.in": [{"\\path": ["a"]}, {"path": ["a"]}]},
        {"value.in_range": {"lower": 1, "upper": 5, "\\path": 2}},
        {"value.allowed_keys": ("a", "b")}, {"value.keys_contain_any_of": ()}, {"key.keys_equal_to": ("k1",)}, {"value.is_instance": (int,)},
        {"value.dtype.in": ("int", "str")}, {"value.type.not_in": ("int",)}, {"value.dtype.equal_to": ("int",)}, {"key.dtype.in": (int, "str")},
        {"value.is_instance": ("int", "str")}, {"value.dtype.in": ["int", ("str",)]},
        {"value.in": ({"path": 5},)}, {"value.in": ({"path.first": ["a"]}, 7)}, {"value.in_range": ({"path": ["a"]}, 10)},
        {"value.in": ({"path": ["a"]}, {"\\path": 1})}, {"value.equal_to": {"path.length.dtype": ["a"]}},
        {"value.equal_to": {"path.first.last": [{"type": "map_value"}]}}, {"value.equal_to": {"path.all.all": [{"type": "list_value"}, "a"]}},
        {"value.equal_to": {"path.any": [{"type": "list_value"}]}}, {"value.equal_to": {"path.length.any": [{"type": "map_value"}]}},
    ]
    for sp in conds:
        c = _case("corner_parse_cond", {"spec": repr(sp)}, f"from valida.conditions import *\nprint(ConditionLike.from_spec({sp!r}))",
                  ["parse_cond", enc.enc_val(sp)], lambda sp=sp: enc.enc_cond(ConditionLike.from_spec(copy.deepcopy(sp))), "parse_cond")
        if c:
            out.append(c)
    parts = [
        {"type": "map_value", "label": None}, {"type": "list_value", "label": None, "index": 0}, {"type": "map_value", "label": ""},
        {"type": "map_value", "label": 0}, {"label": None}, {"type": "map_or_list_value", "key": "a", "label": None},
        {"index": 5, "key": {"value.eq": 1}}, {"key": 5, "index": {"value.eq": 1}}, {"index.foo": 1, "key": 5},
        {"type": "map_value", "key": 5, "zzz": 1}, {"condition": {"value.foo": 1}, "type": "nope"}, {"type": "list_value", "value": {"key.eq": 1}, "index": "a"},
        {"type": "map_value", "values": 1}, {"type": "map_value", "value_": 1}, {"type": "map_value", "valuex.eq": 1}, {"type": "map_value", "key_": 1},
        {"type": "list_value", "index0": 1}, {"type": "map_value", "value": None}, {"type": "map_value", "key": None}, {"type": "list_value", "index": None},
        {"key": None, "index": None}, {"condition": None, "list_condition": None, "map_condition": None}, {"type": "map_value", "value": None, "key.eq": "a"},
    ]
    for sp in parts:
        c = _case("corner_parse_part", {"spec": repr(sp)}, f"from valida.datapath import *\nprint(ContainerValue.from_spec({sp!r}))",
                  ["parse_part", enc.enc_val(sp)], lambda sp=sp: enc.enc_part(ContainerValue.from_spec(copy.deepcopy(sp))), "parse_part")
        if c:
            out.append(c)
    # two faults in one rule spec: which error wins
    rules = [
        {"path": [{"type": "nope"}], "condition": {"value.foo": 1}},
        {"path": ["a"], "condition": {"value.foo": 1}, "cast": {"nope": "int"}},
        {"path": ["a"], "condition": {}, "cast": {"nope": "nope2"}},
        {"path": ["a"], "condition": {}, "cast": {"str": "nope2", "nope": "int"}},
        {"path": ["a"], "condition": {}, "cast": {"str": "float"}},
        {"path": ["a"], "condition": {}, "doc": {"description": [1]}, "cast": ["str"]},
        {"path": [{"type": "map_value", "bad": 1}], "condition": [1], "doc": 5},
        {"path": ["a"], "condition": {}, "doc": "a\x1f"}, {"path": ["a"], "condition": {}, "doc": ["\x1c b \x1d", "c\x00"]},
        {"path": ["a"], "condition": {}, "doc": {"description": "  d\x1e", "examples": ["e\x1f\n"]}},
        {"condition": {"value.foo": 1}}, {"path": 5, "condition": {"value.foo": 1}},
        {"path": ["a"], "condition": {}, "doc": ("first ", " second")}, {"path": ["a"], "condition": {}, "doc": {"description": ("a",)}},
        {"path": ["a"], "condition": {}, "doc": {"examples": ("a",)}}, {"path": ["a"], "condition": {}, "cast": {"str": ["int"]}},
        {"path": ["a"], "condition": {}, "cast": {"str": {"a": 1}}}, {"path": ["a"], "condition": {}, "cast": {("str",): "int"}},
        {"path": ["a"], "condition": {}, "doc": "\x0ba\x0c"}, {"path": ["a"], "condition": {}, "doc": ["\t\rb\r\t", "\x0c"]},
        {"path": ["a"], "condition": {}, "doc": {"description": "\x0b", "examples": ["\x0c e \x0b", " \n\t "]}},
    ]
    for sp in rules:
        def f(sp=sp):
            r = Rule.from_spec(copy.deepcopy(sp))
            return {"rule": enc.enc_rule(r), "doc": None if r.doc is None else enc.enc_val(r.doc)}
        c = Case("corner_parse_rule", {"spec": repr(sp)})
        c.py = f"from valida.rules import Rule\nprint(Rule.from_spec({sp!r}))"
        impl = enc.outcome(f)
        try:
            c.ask(["parse_rule", enc.enc_val(sp)], impl, "parse_rule")
        except enc.Unencodable:
            continue
        c.features.add(("corner", "parse_rule", repr(sp)[:40]))
        out.append(c)
    return out


def parse_schema_cases(rng):
    """rule specs in an order that is NOT the sorted one (the parser must sort, stably)"""
    out = []
    pool = [{"path": ["a", "b"], "condition": {"value.equal_to": 1}}, {"path": ["a"], "condition": {"value.equal_to": 2}},
            {"path": [], "condition": {"value.truthy": None}}, {"path": ["a", {"type": "list_value"}, "c"], "condition": {"value.equal_to": 3}},
            {"path": ["b"], "condition": {"value.equal_to": 4}, "cast": {"str": "int"}}, {"path": ["c", "d"], "condition": {"value.lt": 5}}]
    for _ in range(6):
        specs = [copy.deepcopy(x) for x in rng.sample(pool, rng.choice([2, 3, 4, 5, 6]))]
        c = _case("corner_parse_schema", {"specs": repr(specs)}, f"from valida.schema import Schema\nprint(Schema.from_json_like({specs!r}).rules)",
                  ["parse_schema", enc.enc_val(specs)],
                  lambda specs=specs: [enc.enc_rule(x) for x in Schema.from_json_like(copy.deepcopy(specs)).rules], "parse_schema")
        if c:
            out.append(c)
    return out


def to_part_specs_cases():
    out = []
    mk = [
        ("DataPath('a', source_data={'a': 1})", lambda: DP.DataPath("a", source_data={"a": 1})),
        ("DataPath(MapValue('a'), MapValue(), source_data={'a': 1})", lambda: DP.DataPath(DP.MapValue("a"), DP.MapValue(), source_data={"a": 1})),
        ("DataPath(MapValue(key=Key(callables.equal_to, 'a')), MapValue()).length()",
         lambda: DP.DataPath(DP.MapValue(key=C.Key(calls.equal_to, "a")), DP.MapValue()).length()),
        ("DataPath(MapValue(key=Key(callables.equal_to, 'a')), MapValue(), source_data={'a': 1})",
         lambda: DP.DataPath(DP.MapValue(key=C.Key(calls.equal_to, "a")), DP.MapValue(), source_data={"a": 1})),
        ("DataPath(MapValue(), 'a').first()", lambda: DP.DataPath(DP.MapValue(), "a").first()),
        ("DataPath(True, MapValue())", lambda: DP.DataPath(True, DP.MapValue())),
        ("DataPath(MapValue(key=Key.in_range(1, 5)), MapValue())", lambda: DP.DataPath(DP.MapValue(key=C.Key.in_range(1, 5)), DP.MapValue())),
    ]
    for text, f in mk:
        p = f()
        c = _case("corner_to_part_specs", {"path": text},
                  f"from valida.conditions import *\nfrom valida.datapath import *\nfrom valida import callables\nprint({text}.to_part_specs())",
                  lambda p=p: ["to_part_specs", enc.enc_path(p)], lambda p=p: enc.enc_val(p.to_part_specs()), "to_part_specs")
        if c:
            out.append(c)
    return out


def add_schema_cases():
    out = []
    t_rules = [lambda: Rule(DP.DataPath("c"), C.Value.truthy()), lambda: Rule(DP.DataPath(DP.MapValue(), "x").first(), C.Value.equal_to(1)),
               lambda: Rule(DP.DataPath("c").length(), C.Value.equal_to(1)), lambda: Rule(DP.DataPath(), C.Value.truthy())]
    roots = [("DataPath()", lambda: DP.DataPath()), ("DataPath('r', source_data={'r': 1})", lambda: DP.DataPath("r", source_data={"r": 1})),
             ("DataPath('r').length()", lambda: DP.DataPath("r").length()), ("DataPath(MapValue()).first()", lambda: DP.DataPath(DP.MapValue()).first()),
             ("DataPath('r', 0)", lambda: DP.DataPath("r", 0))]
    for rtext, mkroot in roots:
        def f(mkroot=mkroot):
            S = Schema([])
            T = Schema([r() for r in t_rules])
            S.add_schema(T, mkroot())
            return [[enc.enc_rule(x) for x in S.rules]]
        T = Schema([r() for r in t_rules])
        c = _case("corner_add_schema", {"root": rtext}, f"# S = Schema([]); S.add_schema(T, {rtext}) with T's rule paths: 'c', (MapValue(), 'x').first(), ('c').length(), ()",
                  lambda mkroot=mkroot, T=T: ["add_schema", [], [[[enc.enc_rule(x) for x in T.rules], enc.enc_path(mkroot())]]], f, "add_schema")
        if c:
            c.requests[-1] = (c.requests[-1][0], c.requests[-1][1], "add_schema", lambda impl, model: None if impl == ["ok", model] or impl == model else "rules differ")
            out.append(c)
    return out


def repr_cases():
    import math
    out = []
    vals = [0.0001, 0.00012345, 9.999e-05, 1e-05, 0.00001234, 1e16, 9999999999999998.0, 1e15, 123456789012345680.0,
            2251799813685247.75, 2251799813685247.25, 4503599627370495.5, 1125899906842623.875, 694403206548407.75, 261335791859169.375,
            0.1 + 0.2, 1 / 3, 2 / 3, 5e-324, 2.2250738585072014e-308, 1.7976931348623157e308, 1e22, 1e23, 9007199254740993.0,
            math.nextafter(1e16, 0), math.nextafter(1e-4, 0), math.nextafter(1e-4, 1), -0.0001, -1e16, 100.0, 1e2, 123456.7,
            "a'b\"c", "it's", 'say "x"', "\x1b\x7f\x00\t\n\r\\", (1,), ((1,),), [()], {(): (None,)}, [1.5, (2.5,)], 10 ** 30, -(10 ** 100)]
    for v in vals:
        c = _case("corner_repr", {"value": repr(v)}, f"print(repr({v!r}))", ["repr", enc.enc_val(v)], lambda v=v: repr(v), "repr")
        if c:
            out.append(c)
    return out


def type_fmt_cases():
    out = []
    lists = [
        ("[]", lambda: []),
        ("[ValueLength(callables.in_range, 1, upper=5)]", lambda: [C.ValueLength(calls.in_range, 1, upper=5)]),
        ("[ValueLength(callables.in_range, 1, 5), KeyLength.equal_to('a')]", lambda: [C.ValueLength(calls.in_range, 1, 5), C.KeyLength.equal_to("a")]),
        ("[Value(callables.equal_to, 5)]", lambda: [C.Value(calls.equal_to, 5)]),
        ("[ValueLength.in_([1, 2]), ValueLength.in_('ab')]", lambda: [C.ValueLength.in_([1, 2]), C.ValueLength.in_("ab")]),
        ("[Value.in_(5)]", lambda: [C.Value.in_(5)]),
        ("[ValueDataType.equal_to([int])]", lambda: [C.ValueDataType.equal_to([int])]),
        ("[ValueLength.greater_than('a'), KeyLength.in_range('a', upper='b')]", lambda: [C.ValueLength.greater_than("a"), C.KeyLength.in_range("a", upper="b")]),
        ("[ValueLength.less_than(\"it's\"), ValueLength.not_in([1, 'x'])]", lambda: [C.ValueLength.less_than("it's"), C.ValueLength.not_in([1, "x"])]),
    ]
    for text, mk in lists:
        cs = mk()
        c = _case("corner_type_fmt", {"conditions": text},
                  f"from valida.conditions import *\nfrom valida import callables\nfrom valida.schema import format_map_key_value_data_type_conditions as f\nprint(repr(f({text})))",
                  lambda cs=cs: ["type_fmt", [enc.enc_cond(o) for o in cs]], lambda cs=cs: type_fmt(cs), "type_fmt")
        if c:
            out.append(c)
    return out


def html_cases(hnode):
    """hand-made nested trees: an empty `children` list, a path-less root with an anchor holding metacharacters"""
    out = []
    leaf = {"path": ("a",), "condition": C.Value.truthy(), "doc": None, "parent": -1, "path_str": ("a",), "children": []}
    leaf2 = {"path": ("a",), "condition": C.Value.truthy(), "doc": None, "parent": -1, "path_str": ("a",), "children": [],
             "type_info_in_parent": True, "type": "x", "type_fmt": "int"}
    root = {"path": (), "condition": C.Value.truthy(), "doc": {"description": ["`a` <b>"], "examples": ["`x`\n`"]}, "parent": -1, "path_str": ()}
    for nodes, anchor, text in [([leaf], None, "children: []"), ([leaf2], None, "children: [] with type_info_in_parent"),
                                ([root], "a<b", "path-less root, anchor a<b"), ([root], "x&\"y'", "path-less root, anchor with quotes"),
                                ([root], None, "path-less root, no anchor"), ([dict(leaf, children=[dict(leaf2, children=[])])], "r", "nested empty children")]:
        for hs, sr in ((1, True), (3, False)):
            def f(nodes=nodes, anchor=anchor, hs=hs, sr=sr):
                return {"html": write_tree_html(copy.deepcopy(nodes), anchor_root=anchor, heading_start_level=hs, show_root_heading=sr), "dyck": True}
            c = Case("corner_html", {"tree": text, "anchor": anchor, "heading_start_level": hs, "show_root_heading": sr})
            c.py = f"# write_tree_html on a hand-made tree: {text}; anchor_root={anchor!r}, heading_start_level={hs}, show_root_heading={sr}"
            impl = enc.outcome(f)
            if impl[0] == "ok":
                impl = impl[1]
            c.ask(["html", [hnode(n) for n in nodes], anchor or "", hs, sr], impl, "html")
            c.features.add(("corner", "html", text))
            out.append(c)
    return out


def setitem_cases():
    out = []
    triples = [({1: "a"}, True, "b"), ({1: "a"}, 1.0, "b"), ({"a": 1}, "b", 2), ({"a": 1}, "a", 2), ({}, "a", 1), ([1], 1, "b"), ([1], 0, "b"),
               ([1, 2], -1, "b"), ([1, 2], -3, "b"), ([1], True, "b"), ([1], 1.0, "b"), ([1], "0", "b"), ((1,), 0, "b"), ("ab", 0, "b"),
               ({"a": 1}, ["a"], 1), (None, 0, 1), ({1: "a", "1": "b"}, 1, "c")]
    for a, k, v in triples:
        def f(a=a, k=k, v=v):
            d = copy.deepcopy(a)
            d[k] = v
            return enc.enc_val(d)
        c = _case("corner_setitem", {"args": repr((a, k, v))}, f"d = {a!r}\nd[{k!r}] = {v!r}\nprint(d)",
                  ["prim", "setItem", [enc.enc_val(a), enc.enc_val(k), enc.enc_val(v)]], f, "prim:setItem")
        if c:
            out.append(c)
    return out


def from_str_cases():
    out = []
    for s, d in [("a/+1.5", "/"), ("a/-1.5", "/"), ("9007199254740993.0", "/"), ("a.9007199254740993", "."), ("0.1/0.30000000000000004", "/"),
                 ("+1", "/"), ("-0", "/"), ("1_0/1__0", "/"), ("1e5", "/"), (" 1 /\t2", "/"), ("a//b", "/"), ("/", "/"), ("", "."), ("1.", "/"), (".5", "/"),
                 ("4.9e-324", "/"), ("1" * 30, "/"), ("0.5000000000000001", "/"), ("2.5", "."), ("١", "/")]:
        c = _case("corner_from_str", {"text": s, "delimiter": d}, f"from valida.datapath import *\nprint(DataPath.from_str({s!r}, delimiter={d!r}))",
                  ["from_str", s, d], lambda s=s, d=d: enc.enc_path(DP.DataPath.from_str(s, delimiter=d)), "from_str")
        if c:
            out.append(c)
    return out


def validate_cases():
    """a cast rule and a cast-free rule over the same node: the cast-free rule is judged on the ORIGINAL document,
    the cast rule on the working copy (and `cast_data` is the copy)"""
    from props import rules_common as rc
    from props.c06 import make_cmp
    out = []
    S = str
    mk = [
        ("[Rule('a', Value.equal_to('5'), cast={str: int}), Rule('a', Value.equal_to(5))]", {"a": "5"},
         lambda: [Rule(DP.DataPath("a"), C.Value.equal_to("5"), cast={S: int}), Rule(DP.DataPath("a"), C.Value.equal_to(5))]),
        ("[Rule('a', Value.equal_to(5)), Rule('a', Value.equal_to('5'), cast={str: int})]", {"a": "5"},
         lambda: [Rule(DP.DataPath("a"), C.Value.equal_to(5)), Rule(DP.DataPath("a"), C.Value.equal_to("5"), cast={S: int})]),
        ("[Rule('a', Value.dtype.equal_to(str)), Rule('a', Value.dtype.equal_to(int), cast={str: int})]", {"a": "7", "b": "x"},
         lambda: [Rule(DP.DataPath("a"), C.Value.dtype.equal_to(str)), Rule(DP.DataPath("a"), C.Value.dtype.equal_to(int), cast={S: int})]),
        ("[Rule((MapValue(),), Value.dtype.equal_to(bool), cast={str: cast_string_to_bool}), Rule((MapValue(),), Value.dtype.equal_to(str))]",
         {"a": "true", "b": "no", "c": "FALSE"},
         lambda: [Rule(DP.DataPath(DP.MapValue()), C.Value.dtype.equal_to(bool), cast={S: cast_string_to_bool}),
                  Rule(DP.DataPath(DP.MapValue()), C.Value.dtype.equal_to(str))]),
        ("[Rule(('xs', ListValue()), Value.is_instance(int), cast={str: int}), Rule(('xs', ListValue()), Value.is_instance(str)), Rule(('xs',), Value.length.equal_to(3))]",
         {"xs": ["1", "two", 3]},
         lambda: [Rule(DP.DataPath("xs", DP.ListValue()), C.Value.is_instance(int), cast={S: int}),
                  Rule(DP.DataPath("xs", DP.ListValue()), C.Value.is_instance(str)), Rule(DP.DataPath("xs"), C.ValueLength.equal_to(3))]),
    ]
    for text, doc, f in mk:
        rules = f()
        schema = Schema(list(rules))
        applied = [next(i for i, o in enumerate(rules) if o is x) for x in schema.rules]
        c = Case("corner_validate", {"rules": text, "doc": repr(doc)})
        c.py = rc.PY_HEAD + f"v = Schema({text}).validate({doc!r})\nprint(v.is_valid, v.num_failures, v.cast_data, [[f.path for f in t.failures] for t in v.rule_tests])"
        impl = enc.outcome(lambda: rc.obs_validated(schema.validate(copy.deepcopy(doc)), applied))
        c.ask(["validate", [enc.enc_rule(o) for o in rules], enc.enc_val(doc)], impl, "validate", make_cmp(False, True))
        c.features.add(("corner", "validate", text[:40]))
        out.append(c)
    return out


def filter_cases():
    """conditions that are only ever serialised elsewhere, FILTERED here: built directly (arguments that do not fit the
    callable's signature: Python's binding errors inside the callable's `try`), with an unresolved data-path argument
    (no source document: the DataPath object itself reaches the callable), reserved / own-parameter keyword names"""
    from props.c01 import obs_filtered
    out = []
    docs = [[1, "a", {"a": 1, "value": 2}, None, [1, 2]], {"a": 1, "b": {"a": 1}, 0: "x"}]
    mk = [
        ("Value(callables.equal_to, 1, value=2)", lambda: C.Value(calls.equal_to, 1, value=2)),
        ("Value(callables.equal_to, 1, 2)", lambda: C.Value(calls.equal_to, 1, 2)),
        ("Value(callables.equal_to)", lambda: C.Value(calls.equal_to)),
        ("Value(callables.truthy, 1)", lambda: C.Value(calls.truthy, 1)),
        ("Value(callables.equal_to, bogus=1)", lambda: C.Value(calls.equal_to, bogus=1)),
        ("Value(callables.equal_to, 1, trial_datum=2)", lambda: C.Value(calls.equal_to, 1, trial_datum=2)),
        ("Value(callables.in_range, 1, upper=5)", lambda: C.Value(calls.in_range, 1, upper=5)),
        ("Value(callables.in_range, lower=1)", lambda: C.Value(calls.in_range, lower=1)),
        ("Value(callables.keys_contain_any_of, 'a', keys=1)", lambda: C.Value(calls.keys_contain_any_of, "a", keys=1)),
        ("Value.items_contain(trial_dict=1)", lambda: C.Value.items_contain(trial_dict=1)),
        ("Value.items_contain(items=1)", lambda: C.Value.items_contain(items=1)),
        ("Value.keys_contain_all_of('zz', [1])", lambda: C.Value.keys_contain_all_of("zz", [1])),
        ("Value.keys_contain_all_of('a', [1])", lambda: C.Value.keys_contain_all_of("a", [1])),
        ("Value.keys_contain(DataPath('a'))", lambda: C.Value.keys_contain(DP.DataPath("a"))),
        ("Value.in_(DataPath('a'))", lambda: C.Value.in_(DP.DataPath("a"))),
        ("Value.equal_to(DataPath('a'))", lambda: C.Value.equal_to(DP.DataPath("a"))),
        ("Value.keys_contain_any_of(DataPath('a'), 'a')", lambda: C.Value.keys_contain_any_of(DP.DataPath("a"), "a")),
        ("Value.in_([DataPath('a'), 1])", lambda: C.Value.in_([DP.DataPath("a"), 1])),
        ("Value.less_than(DataPath('a')) | Value.equal_to(1)", lambda: C.Value.less_than(DP.DataPath("a")) | C.Value.equal_to(1)),
        ("ValueLength.equal_to(DataPath('a'))", lambda: C.ValueLength.equal_to(DP.DataPath("a"))),
    ]
    for text, f in mk:
        try:
            cond = f()
        except TypeError:
            continue
        for d in docs:
            c = _case("corner_filter", {"cond": text, "doc": repr(d)},
                      f"from valida.conditions import *\nfrom valida.datapath import *\nfrom valida import callables\nprint({text}.filter({d!r}).result)",
                      lambda cond=cond, d=d: ["filter", enc.enc_cond(cond), enc.enc_val(d)],
                      lambda cond=cond, d=d: obs_filtered(cond.filter(d)), "filter")
            if c:
                out.append(c)
    return out


def get_cases():
    """parts whose `condition=` is a single condition of the foreign kind (possible only through `condition=`; `key=` /
    `index=` / `value=` refuse foreign kinds), the ANY multiplicity modifier, a second modifier of the same family"""
    out = []
    mk = [
        ("DataPath(MapValue(condition=Index.equal_to(0)))", lambda: DP.DataPath(DP.MapValue(condition=C.Index.equal_to(0))), {0: "x", "a": 1}),
        ("DataPath(ListValue(condition=Key.equal_to(0)))", lambda: DP.DataPath(DP.ListValue(condition=C.Key.equal_to(0))), ["x", "y"]),
        ("DataPath(MapOrListValue(condition=Key.equal_to('a')))", lambda: DP.DataPath(DP.MapOrListValue(condition=C.Key.equal_to("a"))), {"a": 1, "b": 2}),
        ("DataPath(MapOrListValue(condition=Key.equal_to('a')))", lambda: DP.DataPath(DP.MapOrListValue(condition=C.Key.equal_to("a"))), ["a", "b"]),
        ("DataPath(MapOrListValue(condition=Index.equal_to(1)))", lambda: DP.DataPath(DP.MapOrListValue(condition=C.Index.equal_to(1))), {"a": 1, 1: 2}),
        ("DataPath('r', MapValue(condition=Index.lt(5) & Value.gt(0)))", lambda: DP.DataPath("r", DP.MapValue(condition=C.Index.less_than(5) & C.Value.greater_than(0))),
         {"r": {"a": 1, "b": -1}}),
        ("DataPath(ListValue()).any()", lambda: DP.DataPath(DP.ListValue()).any(), [1, 2, 3]),
        ("DataPath(MapValue(), 'x').any()", lambda: DP.DataPath(DP.MapValue(), "x").any(), {"a": {"x": 1}, "b": {"y": 2}}),
        ("DataPath(ListValue()).length().any()", lambda: DP.DataPath(DP.ListValue()).length().any(), [[1], "ab", 3]),
        ("DataPath(ListValue()).any()", lambda: DP.DataPath(DP.ListValue()).any(), {"a": 1}),
    ]
    for text, f, doc in mk:
        o = enc.outcome(f)
        if o[0] != "ok":
            continue
        p = o[1]
        for rp in (True, False):
            c = _case("corner_get", {"path": text, "doc": repr(doc), "return_paths": rp},
                      f"from valida.conditions import *\nfrom valida.datapath import *\nprint({text}.get_data({doc!r}, return_paths={rp}))",
                      lambda p=p, doc=doc, rp=rp: ["get", enc.enc_path(p), enc.enc_val(doc), rp],
                      lambda p=p, doc=doc, rp=rp: enc.enc_val(p.get_data(doc, return_paths=rp)), "get")
            if c:
                out.append(c)
    return out


def test_cases():
    """rules whose condition reads keys / indices (positions in the selection), alone (refused: the selection is a list)
    and inside combinations (evaluated)"""
    from props import rules_common as rc
    out = []
    mk = [
        ("Rule(DataPath(ListValue()), Index.equal_to(0))", lambda: Rule(DP.DataPath(DP.ListValue()), C.Index.equal_to(0)), [5, 6]),
        ("Rule(DataPath('a', ListValue()), Index.less_than(1) & Value.greater_than(3))",
         lambda: Rule(DP.DataPath("a", DP.ListValue()), C.Index.less_than(1) & C.Value.greater_than(3)), {"a": [5, 1, 7]}),
        ("Rule(DataPath('a', ListValue()), Value.greater_than(3) | Index.equal_to(1))",
         lambda: Rule(DP.DataPath("a", DP.ListValue()), C.Value.greater_than(3) | C.Index.equal_to(1)), {"a": [5, 1, 2]}),
        ("Rule(DataPath(MapValue()), Key.equal_to(0))", lambda: Rule(DP.DataPath(DP.MapValue()), C.Key.equal_to(0)), {"a": 5}),
        ("Rule(DataPath(MapValue()), KeyLength.equal_to(1))", lambda: Rule(DP.DataPath(DP.MapValue()), C.KeyLength.equal_to(1)), {"a": 5}),
        ("Rule(DataPath('a'), Index.equal_to(0))", lambda: Rule(DP.DataPath("a"), C.Index.equal_to(0)), {"a": 5}),
        ("Rule(DataPath('a'), Key.equal_to(0) ^ Value.equal_to(5))", lambda: Rule(DP.DataPath("a"), C.Key.equal_to(0) ^ C.Value.equal_to(5)), {"a": 5}),
        ("Rule(DataPath(MapValue()), Index.in_([0, 2]) & Value.is_instance(int), cast={str: int})",
         lambda: Rule(DP.DataPath(DP.MapValue()), C.Index.in_([0, 2]) & C.Value.is_instance(int), cast={str: int}), {"a": "1", "b": 2, "c": "x"}),
    ]
    for text, f, doc in mk:
        rule = f()
        c = _case("corner_test", {"rule": text, "doc": repr(doc)},
                  rc.PY_HEAD + f"rt = {text}.test({doc!r})\nprint(rt.is_valid, [f.path for f in rt.failures])",
                  lambda rule=rule, doc=doc: ["test", enc.enc_rule(rule), enc.enc_val(doc)],
                  lambda rule=rule, doc=doc: rc.obs_rule_test(rule.test(copy.deepcopy(doc))), "test")
        if c:
            out.append(c)
    return out
