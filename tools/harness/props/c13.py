"""C13 – rules and schemas survive the JSON round trip, casts included."""
import copy
import json
import warnings

import enc
import terms
from core import Case
from gen import Gen
from props import rules_common as rc
from props import c11
from props.c03 import gen_doc_for_parts

from valida.rules import Rule
from valida.schema import Schema

warnings.simplefilter("ignore")


def gen_rule(g):
    """a rule in the serialisable fragment: primitive / bare parts, C11-fragment condition without path
    arguments or path-like literal mappings, optional cast"""
    r = g.r
    bare = lambda k: (k, {"key": None, "index": None, "value": None, "condition": None, "list_condition": None, "map_condition": None, "label": None})  # noqa: E731
    k = r.choice([0, 1, 1, 2, 2, 3])
    parts = [r.choice([("prim", r.choice(["a", "b", 0, 1, "k1", 1.5])), ("prim", r.choice(["a", "b", "0", "1", "1.5", "a/b", "", "-1", "x.y"])),
                       bare(r.choice(["map", "list", "molv"]))])
             for _ in range(k)]
    while True:
        t = c11.gen_tree(g, "value", r.choice([0, 1, 2]))
        if not c11.has_path_arg(t) and not c11.has_pathlike_literal(t):
            break
    cast = r.choice([[], [], ["int"], ["bool"]])
    # a rule given an empty cast mapping (`cast={}`) rather than none: it must come back equal as well
    return {"parts": parts, "cond": t, "cast": cast, "empty_cast": (not cast) and r.random() < 0.15}


def val_obs(s, doc):
    def f():
        v = s.validate(doc)
        return (bool(v.is_valid), int(v.num_failures), int(v.num_rules_tested), enc.enc_val(v.cast_data),
                [[(enc.enc_val(tuple(x.path))) for x in t.failures] for t in v.rule_tests])
    return enc.outcome(f)


def make_case(rules, docs):
    desc = {"rules": [{"parts": [terms.part_desc(p) for p in r["parts"]], "cond": c11.tree_py(r["cond"]), "cast": r["cast"],
                       "empty_cast": bool(r.get("empty_cast"))} for r in rules]}
    c = Case("schema_roundtrip", desc)
    rules_py = ", ".join(rc.rule_py(r) for r in rules)
    c.py = rc.PY_HEAD + (f"import json\ns = Schema([{rules_py}])\njs = s.to_json_like()\nprint(js)\n"
                         "t = Schema.from_json_like(json.loads(json.dumps(js)))\nprint(t == s)")
    built = enc.outcome(lambda: [rc.build_rule(r) for r in rules])
    if built[0] != "ok":
        return None
    objs = [Rule(o.path, o.condition, cast={}) if r.get("empty_cast") else o for o, r in zip(built[1], rules)]
    # some rules carry a doc block: it is not serialised, and plays no part in `==`
    objs = [Rule(o.path, o.condition, cast=o.cast, doc={"description": ["what it is"], "examples": ["`x`"]})
            if (i + len(rules)) % 4 == 0 else o for i, o in enumerate(objs)]
    empty_cast = any(r.get("empty_cast") for r in rules)
    if empty_cast:
        c.py = c.py.replace("s = Schema(", "s = Schema(  # NOTE: rules flagged empty_cast in the case are built with cast={}\n    ")
    s = Schema(list(objs))
    js = enc.outcome(lambda: s.to_json_like())
    if not empty_cast:
        # (the model has one representation for "no casts": `None` and `{}` are the same rule there)
        c.ask(["schema_to_json", [enc.enc_rule(o) for o in s.rules]], ["ok", enc.enc_val(js[1])] if js[0] == "ok" else js,
              "schema_to_json")
    if js[0] != "ok":
        # the path fragment C12 can serialise was generated: refusing is a violation here
        c.fail("serialises", f"Schema.to_json_like raised {js[1]}")
        return c
    js = js[1]
    dumped = enc.outcome(lambda: json.loads(json.dumps(js)))
    if dumped[0] != "ok":
        c.fail("json_text", f"json.dumps raised {dumped[1]}")
        return c
    if enc.enc_val(dumped[1]) != enc.enc_val(js):
        c.fail("json_text", "the JSON-like form does not survive json.dumps / json.loads unchanged")
    back = enc.outcome(lambda: Schema.from_json_like(copy.deepcopy(dumped[1])))
    c.ask(["parse_schema", enc.enc_val(dumped[1])],
          ["ok", [enc.enc_rule(x) for x in back[1].rules]] if back[0] == "ok" else back, "parse_schema")
    if back[0] != "ok":
        c.fail("rebuilds", f"Schema.from_json_like raised {back[1]}")
        return c
    t = back[1]
    eq = enc.outcome(lambda: (t == s, s == t))
    if eq != ["ok", (True, True)]:
        c.fail("equal_after_roundtrip", f"rebuilt == original gave {eq}")
    for d in docs:
        a, b = val_obs(s, d), val_obs(t, d)
        if a != b:
            c.fail("same_validation", f"the rebuilt schema validates differently: {a!r:.250} vs {b!r:.250}")
            break
    # single rules too
    for o in objs[:2]:
        rj = enc.outcome(lambda o=o: json.loads(json.dumps(o.to_json_like())))
        if rj[0] != "ok":
            c.fail("rule_serialises", f"Rule.to_json_like / json raised {rj[1]}")
            continue
        rb = enc.outcome(lambda: Rule.from_json_like(copy.deepcopy(rj[1])))
        if rb[0] != "ok" or not (rb[1] == o):
            c.fail("rule_roundtrip", f"rule round trip failed: {rb[0]} {rb[1] if rb[0] != 'ok' else 'not equal'}")
    c.nontrivial = len(rules) > 0
    c.features.add((min(len(rules), 4), any(r["cast"] for r in rules), max([len(r["parts"]) for r in rules] + [0])))
    return c


def generate(rng, n, tier):
    from props import corners
    _corner = corners.parse_schema_cases(rng)
    g = Gen(rng, pct_strings=False, max_depth=3)
    cases = list(_corner)
    # casts outside the library's table of declared casts: `to_json_like` looks the function up without its
    # from-type (K only: such a rule is not in the fragment the property is about)
    from valida.casting import cast_string_to_bool
    import valida.datapath as DPm
    import valida.conditions as CC
    for text, cast in [("{int: int}", {int: int}), ("{bool: cast_string_to_bool}", {bool: cast_string_to_bool}),
                       ("{float: float}", {float: float})]:
        c = Case("rule_to_json_cast", {"cast": text})
        c.py = rc.PY_HEAD + f"print(Rule(DataPath('a'), Value.equal_to(1), cast={text}).to_json_like())"
        r = Rule(DPm.DataPath("a"), CC.Value.equal_to(1), cast=cast)
        o = enc.outcome(lambda: enc.enc_val(r.to_json_like()))
        try:
            c.ask(["rule_to_json", enc.enc_rule(r)], o, "rule_to_json")
        except KeyError:
            continue
        c.features.add(("cast-lookup", text))
        cases.append(c)
    while len(cases) < n:
        k = rng.choice([0, 1, 1, 2, 3, 4])
        rules = [gen_rule(g) for _ in range(k)]
        base = rng.choice(rules)["parts"] if rules else []
        docs = [gen_doc_for_parts(g, base) for _ in range(3)]
        c = make_case(rules, docs)
        if c is not None:
            cases.append(c)
    return cases
