"""C04 – reported concrete paths are truthful; path modifiers mean what they say.
Same cases as C03 with every datum x multiplicity modifier in both application orders."""
from props import c03


def generate(rng, n, tier):
    return c03.generate(rng, n, tier, modifiers=True)
