"""C15 – casts replace exactly the castable selected nodes in a private copy."""
from props import c06, c05


def generate(rng, n, tier):
    from props import corners
    _corner = corners.setitem_cases() + corners.validate_cases()
    half = n // 2
    return _corner + c06.generate(rng, half, tier, cast_p=0.8) + c05.generate(rng, n - half, tier, cast_p=0.9)
