"""C15 – casts replace exactly the castable selected nodes in a private copy."""
from props import c06, c05


def generate(rng, n, tier):
    half = n // 2
    return c06.generate(rng, half, tier, cast_p=0.8) + c05.generate(rng, n - half, tier, cast_p=0.9)
