"""C01 – a single condition filters every item to its documented meaning, never aborting."""
import warnings

import enc
import oracle
from core import Case
from gen import Gen

import valida.conditions as C
from valida.data import Data

warnings.simplefilter("ignore")

REASON_KIND = (("Condition pre-processor raised", "pre"), ("Condition callable raised", "err"),
               ("Condition callable returned False", "false"))


def reason_kind(msg):
    for prefix, kind in REASON_KIND:
        if msg.startswith(prefix):
            return kind
    return "?"


def obs_filtered(fd):
    res = list(fd.result)
    return {
        "result": res,
        "data": [enc.enc_val(v) for v in fd.data],
        "keys": [enc.enc_val(k) for k in fd.keys],
        "failure_indices": list(fd.failure_indices),
        "pre_err": [bool(x) for x in fd.pre_processor_error],
        "c_err": [bool(x) for x in fd.callable_error],
        "c_false": [bool(x) for x in fd.callable_false],
        "reasons": [[reason_kind(m) for m in fd.get_failure_by_index(i)] for i in fd.failure_indices],
    }


COARSE = ("result", "data", "keys", "failure_indices")


def cmp_coarse(impl, model):
    """comparison for printf-sensitive cases: only the verdicts, not which flag was raised"""
    from core import default_cmp
    if impl[0] == "ok" and isinstance(model, list) and model[0] == "ok":
        a = {k: impl[1][k] for k in COARSE}
        b = {k: model[1][k] for k in COARSE}
        return None if a == b else "differ (coarse)"
    return default_cmp(impl, model)


def has_pct(v):
    if isinstance(v, str):
        return "%" in v
    if isinstance(v, (list, tuple)):
        return any(has_pct(x) for x in v)
    if isinstance(v, dict):
        return any(has_pct(k) or has_pct(x) for k, x in v.items())
    return False


def items_of(doc):
    if isinstance(doc, list):
        return list(range(len(doc))), list(doc)
    return list(doc.keys()), list(doc.values())


CLS_INFO = {
    "Value": ("value", ""), "ValueLength": ("value", "len"), "ValueDataType": ("value", "type"),
    "Key": ("key", ""), "KeyLength": ("key", "len"), "KeyDataType": ("key", "type"), "Index": ("index", ""),
}


def expected_result(cls, fn, pos, kw, doc):
    """the documented per-item booleans, or 'refuse' for Key-on-list / Index-on-mapping"""
    like, pre = CLS_INFO[cls]
    if isinstance(doc, (list, dict)) and not doc:
        return "refuse"          # an empty document is not filterable: `Data` raises TypeError (documented)
    if like == "key" and not isinstance(doc, dict):
        return "refuse"
    if like == "index" and not isinstance(doc, list):
        return "refuse"
    keys, values = items_of(doc)
    data = values if like == "value" else keys
    out = []
    for d in data:
        p = oracle.preproc(pre, d)
        if p is None:
            out.append(False)
            continue
        m = oracle.meaning(fn, p[1], pos, kw)
        out.append(bool(m) if m is not None else False)
    return out


def make_case(cls, ctor, args, kwargs, doc, r=None):
    desc = {"cls": cls, "ctor": ctor, "args": enc.enc_val(list(args)), "kwargs": enc.enc_val(dict(kwargs)),
            "doc": enc.enc_val(doc)}
    c = Case("filter", desc)
    c.py = f"from valida.conditions import *\nimport pathlib\nprint({cls}.{ctor}(*{args!r}, **{kwargs!r}).filter({doc!r}).result)"
    try:
        cond = getattr(getattr(C, cls), ctor)(*args, **kwargs)
    except TypeError:
        # a DSL constructor refusing its arguments (wrong arity) is outside C01
        return None
    term = enc.enc_cond(cond)
    pc = cond.callable
    impl = enc.outcome(lambda: obs_filtered(cond.filter(doc)))
    pct = has_pct(doc) or has_pct(pc.args) or has_pct(pc.kwargs)
    sensitive = pct and pc.name in ("factor_of", "has_factor")
    c.ask(["filter", term, enc.enc_val(doc)], impl, "filter", cmp_coarse if sensitive else None)

    # ---- direct predicates (independent of the model) -------------------------------------------
    exp = expected_result(cls, pc.name, pc.args, pc.kwargs, doc)
    if exp == "refuse":
        if impl != ["exc", "TypeError"]:
            c.fail("kind_refusal", f"expected TypeError, got {impl[:2] if impl[0] == 'exc' else 'a result'}")
    elif impl[0] == "exc":
        c.fail("never_aborts", f"filter raised {impl[1]}")
    else:
        o = impl[1]
        keys, values = items_of(doc)
        if o["result"] != exp:
            bad = [i for i, (a, b) in enumerate(zip(o["result"], exp)) if a != b]
            c.fail("documented_meaning", f"result {o['result']} but documented meaning gives {exp} (items {bad})")
        if len(o["result"]) != len(values):
            c.fail("one_boolean_per_item", f"{len(o['result'])} results for {len(values)} items")
        if o["data"] != [enc.enc_val(v) for v, b in zip(values, o["result"]) if b] \
                or o["keys"] != [enc.enc_val(k) for k, b in zip(keys, o["result"]) if b] \
                or o["failure_indices"] != [i for i, b in enumerate(o["result"]) if not b]:
            c.fail("partition", "data / keys / failure_indices are not the partition induced by result")
        try:
            ta = cond.test_all(doc)
            if ta != all(o["result"]):
                c.fail("test_all", f"test_all={ta} but result={o['result']}")
        except Exception as e:  # noqa: BLE001
            c.fail("test_all", f"raised {type(e).__name__}")
        # features for coverage accounting
        kinds = {("T" if b else "F") for b in o["result"]}
        c.nontrivial = len(kinds) == 2
        flags = set()
        if any(o["pre_err"]):
            flags.add("pre")
        if any(o["c_err"]):
            flags.add("err")
        if any(o["c_false"]):
            flags.add("false")
        if any(o["result"]):
            flags.add("true")
        for f in flags:
            c.features.add((cls, pc.name, f))
    return c


def corpus_cases():
    """minimised past failures / defect witnesses (run first)"""
    import pathlib  # noqa: F401
    out = [
        ("Value", "factor_of", [6], {}, [0, 2, 3, 4.0, "a"]),
        ("Value", "has_factor", [0], {}, [0, 2]),
        ("Value", "has_factor", [2], {}, ["100%", "%d", "%(a)s", 4]),
        ("Value", "factor_of", ["%(a)s"], {}, [{"b": 1}, {"a": 1}, 3]),
        ("Value", "not_in_range", [1, 5], {}, [0, 1, 4, 5, 2.0, 2.5, "a", None, True]),
        ("Value", "in_range", [1, 5], {}, [0, 1, 4, 5, 2.0, 2.5, "a", None, True]),
        ("Value", "in_range", [1.0, 5], {}, [1, 2]),
        ("Value", "less_than", [3], {}, [1, "a", None, 3.5, [1], True]),
        ("Value", "less_than", [[1, 2]], {}, [[1, "a"], [0, "a"], [1], [1, 2, 3], (1, 2)]),
        ("ValueLength", "equal_to", [2], {}, ["ab", [1, 2], 5, None, {"a": 1, "b": 2}]),
        ("ValueDataType", "equal_to", [int], {}, [1, True, 1.0, "1"]),
        ("ValueDataType", "in_", [[int, str]], {}, [1, True, 1.0, "1"]),
        ("Value", "is_instance", [int, "a"], {}, [1, "s"]),
        ("Value", "is_instance", [bool], {}, [1, True, 1.0, 0, False]),
        # isinstance takes nested tuples of types; the empty tuple matches nothing; scanned left to right
        ("ValueLength", "is_instance", [(), int], {}, {"k2": "1", 10: 0, "k1": {None: 2.5}}),
        ("Value", "is_instance", [(str, (float, ()))], {}, [1, "s", 2.5, None, True]),
        ("Value", "is_instance", [(int, (5,)), str], {}, [1, "s", 2.5]),
        ("Value", "is_instance", [((), ())], {}, [1, "s"]),
        ("Value", "keys_is_instance", [(), (str, (int,))], {}, [{"a": 1, 2: 3}, {2.5: 1}, {}, 5]),
        ("Value", "is_instance", [int], {}, [True, 1, 1.0, False, 0.0, 0]),
        ("Value", "is_instance", [float], {}, {"a": 1, "b": 1.0, "c": True}),
        ("ValueDataType", "equal_to", [float], {}, [1, 1.0, True]),
        ("Key", "equal_to", ["a"], {}, {"a": 1, "b": 2, 1: 3}),
        ("Key", "equal_to", [1], {}, {1.0: 1, True: 2, "1": 3}),
        ("Key", "equal_to", ["a"], {}, [1, 2]),
        ("Index", "in_", [[0, 2]], {}, [5, 6, 7]),
        ("Index", "equal_to", [0], {}, {"a": 1}),
        ("Value", "keys_contain_all_of", [], {}, [5, {}, {"a": 1}]),
        ("Value", "keys_contain_any_of", ["a", [1]], {}, [{"a": 1}, {"b": 1}, 5]),
        ("Value", "keys_contain_N_of", [1, ["a", "b", "a"]], {}, [{"a": 1}, {"a": 1, "b": 2}, {}, 3]),
        ("Value", "keys_contain_at_least_N_of", ["x", ["a"]], {}, [{"a": 1}]),
        ("Value", "keys_equal_to", ["a", 1], {}, [{"a": 0, 1.0: 0}, {"a": 0, True: 0, "b": 0}, {"a": 0}, []]),
        ("Value", "keys_is_instance", [str, 5], {}, [{"a": 1}, {1: 1}, {}]),
        ("Value", "items_contain", [], {"a": 1, "b": [1]}, [{"a": 1, "b": [1]}, {"a": True, "b": [1.0]}, {"a": 1}, 5, []]),
        ("Value", "allowed_keys", ["a", "b"], {}, [{"a": 1}, {"c": 1}, {}, 5]),
        ("Value", "required_keys", ["a", [1]], {}, [{"a": 1}]),
        ("Value", "forbidden_keys", ["a"], {}, [{"a": 1}, {"b": 1}, {}, "a"]),
        ("Value", "equal_to_approx", [1], {}, [1.000000001, 1.1, "a", True, None]),
        ("Value", "equal_to_approx", [1.0, 0.5], {}, [1.4, 1.5, 0.5, 2 ** 53 + 1]),
        ("Value", "truthy", [], {}, [0, 0.0, "", [], {}, None, "0", [0]]),
        # boundaries suggested by the model-mutation run (DESIGN 4d)
        ("Value", "equal_to_approx", [9007199254740992.0, 1], {}, [2 ** 53 + 1, 2 ** 53 + 3, 2 ** 53 - 1]),
        ("Value", "has_factor", [()], {}, ["abc", "", 3]),
        ("Value", "factor_of", ["abc"], {}, [[1], {}, 5, (), (1,)]),
        ("Value", "in_", [""], {}, ["", "a", 1]),
        ("Value", "equal_to_approx", [10 ** 400], {}, [1.5, 10 ** 400, "a"]),
        ("Value", "factor_of", [2.5], {}, [10 ** 400, 5, 2 ** 1024]),
        ("Value", "in_", [[1, 1, True]], {}, [1, 1.0, True, 2]),
        ("Value", "keys_contain_all_of", ["zz", [1]], {}, [{"a": 1}, {"zz": 1}, 5]),
        ("Value", "keys_contain_all_of", ["a", [1], "zz"], {}, [{"a": 1}, {"b": 1}]),
        ("Value", "keys_contain_any_of", [[1], "a"], {}, [{"a": 1}, {"b": 1}]),
        ("Value", "items_contain", [], {"trial_dict": 1}, [{"trial_dict": 1}, {"a": 1}]),
        ("Value", "items_contain", [], {"items": 1}, [{"items": 1}, {"a": 1}]),
        # empty top-level documents: `Data({})` / `Data([])` is a TypeError for every condition
        ("Value", "truthy", [], {}, {}), ("Key", "equal_to", ["a"], {}, {}), ("Index", "equal_to", [0], {}, []), ("Value", "truthy", [], {}, []),
        ("Value", "in_", ["abc"], {}, ["a", "", "bc", "d", 1, None]),
        ("Value", "in_", [{"a": 1, 1: 2}], {}, ["a", 1.0, True, [1], None]),
        ("Value", "in_", [5], {}, [1, "a"]),
        ("Value", "not_in", [[1, "a", [2]]], {}, [1.0, "a", [2], 2, None]),
    ]
    return out


def _corner_filter():
    from props import corners
    return corners.filter_cases()


def generate(rng, n, tier):
    g = Gen(rng, pct_strings=True, max_depth=3 if tier == "quick" else 4)
    # the primitives the callables are made of (App. C), against the model: sampled / exhaustive over the atom pool
    from props import prims
    cases = prims.generate(rng, 600, tier)
    cases += _corner_filter()
    n += len(cases)
    for (cls, ctor, args, kwargs, doc) in corpus_cases():
        c = make_case(cls, ctor, args, kwargs, doc)
        if c is not None:
            cases.append(c)
    # every (class × constructor) pair at least twice, then random
    pairs = [(cls, ctor) for cls in g.CLASSES for ctor in g.ctors_of(cls)]
    todo = pairs * 2
    rng.shuffle(todo)
    while len(cases) < n:
        if todo:
            cls, ctor = todo.pop()
        else:
            cls, ctor = None, None
        cls, ctor, args, kwargs = g.dsl_call(cls, ctor)
        doc = g.doc_for(cls, ctor)
        c = make_case(cls, ctor, args, kwargs, doc)
        if c is not None:
            cases.append(c)
    return cases
