"""C11 – conditions survive the JSON-like round trip."""
import copy
import json
import pathlib
import warnings

import enc
import terms
from core import Case
from gen import Gen, TYPE_POOL
from props.c09 import CANON, filter_obs, PROBES

import valida.datapath as DP
from valida.conditions import ConditionLike

warnings.simplefilter("ignore")

NUMERIC = ["equal_to", "not_equal_to", "less_than", "greater_than", "less_than_or_equal_to", "greater_than_or_equal_to",
           "in_", "not_in", "in_range", "not_in_range", "equal_to_approx", "factor_of", "has_factor", "eq", "lt", "gt",
           "lte", "gte"]


def json_value(g, depth=1):
    """a JSON-representable value: null/bool/int/float/str/list/str-keyed mapping"""
    r = g.r
    x = r.random()
    if depth <= 0 or x < 0.6:
        return g.atom()
    if x < 0.8:
        return [json_value(g, depth - 1) for _ in range(r.choice([0, 1, 2, 3]))]
    keys = ["a", "b", "k1", "key", "q", "x.path"] * 6 + ["path", "Path.length", "\\path"]
    return {r.choice(keys): json_value(g, depth - 1) for _ in range(r.choice([0, 1, 2]))}


def gen_leaf(g, kind, path_p=0.04):
    """a leaf of the fragment: ('leaf', cls, ctor, args, kwargs) with JSON-like, type or data-path arguments"""
    r = g.r
    if kind == "value":
        cls = r.choice(["Value", "Value", "Value", "ValueLength", "ValueDataType"])
    elif kind == "key":
        cls = r.choice(["Key", "Key", "KeyLength", "KeyDataType"])
    else:
        cls = "Index"

    def arg():
        if r.random() < path_p:
            return gen_path_arg(g)
        return json_value(g, 1)
    if cls.endswith("DataType"):
        ctor = r.choice(["equal_to", "eq", "not_equal_to", "in_", "not_in"])
        if CANON.get(ctor, ctor) in ("equal_to", "not_equal_to"):
            return ("leaf", cls, ctor, [r.choice(TYPE_POOL)], {})
        return ("leaf", cls, ctor, [[r.choice(TYPE_POOL) for _ in range(r.choice([0, 1, 2, 3]))]], {})
    if cls.endswith("Length"):
        ctor = r.choice(NUMERIC)
    else:
        ctor = r.choice(g.ctors_of(cls))
    canon = CANON.get(ctor, ctor)
    if canon in ("equal_to", "not_equal_to", "less_than", "greater_than", "less_than_or_equal_to",
                 "greater_than_or_equal_to", "factor_of", "has_factor", "keys_contain"):
        return ("leaf", cls, ctor, [arg()], {})
    if canon in ("in_", "not_in"):
        v = r.choice([[json_value(g, 0) for _ in range(r.choice([0, 1, 2, 3]))], "abc", {"a": 1, "b": 2}])
        if r.random() < path_p:
            v = gen_path_arg(g)
        return ("leaf", cls, ctor, [v], {})
    if canon in ("in_range", "not_in_range"):
        return ("leaf", cls, ctor, [r.choice([0, 1, -2]), r.choice([3, 5, 10])], {})
    if canon == "equal_to_approx":
        return ("leaf", cls, ctor, [g.number()] + ([r.choice([0.5, 1e-8, 1])] if r.random() < 0.5 else []), {})
    if canon in ("truthy", "falsy", "null"):
        return ("leaf", cls, ctor, [], {})
    if canon in ("is_instance", "keys_is_instance"):
        return ("leaf", cls, ctor, g.types(), {})
    if canon in ("keys_contain_any_of", "keys_contain_all_of", "keys_contain_one_of", "keys_equal_to", "allowed_keys",
                 "required_keys", "forbidden_keys"):
        return ("leaf", cls, ctor, [r.choice(["a", "b", "k1", 1, 2.5, None, True]) for _ in range(r.choice([0, 1, 2, 3]))], {})
    if canon in ("keys_contain_N_of", "keys_contain_at_least_N_of", "keys_contain_at_most_N_of"):
        return ("leaf", cls, ctor, [r.choice([0, 1, 2]), [r.choice(["a", "b", "k1"]) for _ in range(r.choice([1, 2, 3]))]], {})
    if canon in ("keys_contain_at_least_one_of", "keys_contain_at_most_one_of"):
        return ("leaf", cls, ctor, [[r.choice(["a", "b", "k1"]) for _ in range(r.choice([1, 2, 3]))]], {})
    if canon == "items_contain":
        return ("leaf", cls, ctor, [], {r.choice(["a", "b", "k1", "q"]): json_value(g, 1) for _ in range(r.choice([0, 1, 2]))})
    raise ValueError(ctor)


class PathArg:
    """a data-path argument recipe (hashable wrapper so that recipes stay plain data)"""
    def __init__(self, parts, datum, multi):
        self.parts, self.datum, self.multi = parts, datum, multi

    def build(self):
        p = DP.DataPath(*[terms.build_part(x) for x in self.parts])
        if self.datum:
            p = getattr(p, self.datum)()
        if self.multi:
            p = getattr(p, self.multi)()
        return p

    def __repr__(self):
        s = "DataPath(" + ", ".join(terms.part_py(x) for x in self.parts) + ")"
        if self.datum:
            s += f".{self.datum}()"
        if self.multi:
            s += f".{self.multi}()"
        return s


def gen_path_arg(g):
    r = g.r
    k = r.choice([1, 1, 2])
    parts = [("prim", r.choice(["a", "b", "k1", 0, 1])) for _ in range(k)]
    datum = r.choice([None, None, "length", "dtype"])
    return PathArg(parts, datum, None)


def realise(t):
    """replace PathArg recipes by DataPath objects (fresh ones each time)"""
    if t[0] == "leaf":
        def rv(v):
            if isinstance(v, PathArg):
                return v.build()
            return v
        return ("leaf", t[1], t[2], [rv(a) for a in t[3]], {k: rv(v) for k, v in t[4].items()})
    if t[0] == "bin":
        return ("bin", t[1], realise(t[2]), realise(t[3]))
    return t


def gen_tree(g, kind, depth):
    r = g.r
    if depth <= 0 or r.random() < 0.45:
        if r.random() < 0.08:
            return ("null",)
        k = r.choice(kind.split("+"))
        return gen_leaf(g, k)
    return ("bin", r.choice(["and", "or", "xor"]), gen_tree(g, kind, depth - 1), gen_tree(g, kind, depth - 1))


def type_exact_json(v):
    return enc.enc_val(v)


def tree_py(t):
    if t[0] == "leaf":
        a = [repr(x) if isinstance(x, PathArg) else terms.repr_py(x) for x in t[3]]
        a += [f"{k}={repr(v) if isinstance(v, PathArg) else terms.repr_py(v)}" for k, v in t[4].items()]
        return f"{t[1]}.{t[2]}({', '.join(a)})"
    if t[0] == "null":
        return "NullCondition()"
    sym = {"and": "&", "or": "|", "xor": "^"}[t[1]]
    return f"({tree_py(t[2])} {sym} {tree_py(t[3])})"


def has_path_arg(t):
    if t[0] == "leaf":
        return any(isinstance(x, PathArg) for x in list(t[3]) + list(t[4].values()))
    if t[0] == "bin":
        return has_path_arg(t[2]) or has_path_arg(t[3])
    return False


def pathlike_literal(v):
    """a literal mapping argument whose keys look like a path spec (D11)"""
    if isinstance(v, dict):
        return any(isinstance(k, str) and (k.lower().split(".")[0] == "path" or "\\path" in k) for k in v) or \
            any(pathlike_literal(x) for x in v.values())
    if isinstance(v, list):
        return any(pathlike_literal(x) for x in v)
    return False


def has_pathlike_literal(t):
    if t[0] == "leaf":
        return any(pathlike_literal(x) for x in list(t[3]) + list(t[4].values()) if not isinstance(x, PathArg))
    if t[0] == "bin":
        return has_pathlike_literal(t[2]) or has_pathlike_literal(t[3])
    return False


def make_case(t):
    c = Case("roundtrip", {"tree": tree_py(t)})
    c.py = ("import json, pathlib\nfrom valida.conditions import *\nfrom valida.datapath import *\n"
            f"c = {tree_py(t)}\njs = c.to_json_like()\nprint(js)\nr = ConditionLike.from_json_like(json.loads(json.dumps(js)))\n"
            "print(r, r == c, r.to_json_like() == js)")
    c.tags = set()
    if has_path_arg(t):
        c.tags.add("path_arg")
    if has_pathlike_literal(t):
        c.tags.add("pathlike_literal")
    built = enc.outcome(lambda: terms.build_tree(realise(t)))
    if built[0] != "ok":
        return None
    cond = built[1]
    term = enc.enc_cond(cond)
    js = enc.outcome(lambda: cond.to_json_like())
    def zero_opaque(j):
        # a DataPath object emitted as it is (finding D10) is one anonymous object to the model
        if isinstance(j, list):
            if len(j) == 2 and j[0] == "o":
                return ["o", 0]
            return [zero_opaque(x) for x in j]
        return j
    c.ask(["to_json", term], ["ok", zero_opaque(enc.enc_val(js[1]))] if js[0] == "ok" else js, "to_json")
    if js[0] != "ok":
        c.fail("serialises", f"to_json_like raised {js[1]}")
        return c
    js = js[1]
    dumped = enc.outcome(lambda: json.loads(json.dumps(js)))
    if dumped[0] != "ok":
        c.fail("json_pure", f"json.dumps raised {dumped[1]}")
        return c
    if type_exact_json(dumped[1]) != type_exact_json(js):
        c.fail("json_pure", "the serialised form does not survive json.dumps / json.loads unchanged")
        return c
    back = enc.outcome(lambda: ConditionLike.from_json_like(copy.deepcopy(dumped[1])))
    c.ask(["parse_cond", enc.enc_val(dumped[1])], ["ok", enc.enc_cond(back[1])] if back[0] == "ok" else back, "parse_cond")
    if back[0] != "ok":
        c.fail("rebuilds", f"from_json_like raised {back[1]}")
        return c
    rb = back[1]
    eq = enc.outcome(lambda: (rb == cond, cond == rb))
    if eq != ["ok", (True, True)]:
        c.fail("equal_after_roundtrip", f"rebuilt == original gave {eq}")
    again = enc.outcome(lambda: rb.to_json_like())
    if again[0] != "ok" or type_exact_json(again[1]) != type_exact_json(js):
        c.fail("stable", "serialising the rebuilt condition gives different data")
    if not has_path_arg(t):
        for d in PROBES:
            ra, rbb = filter_obs(cond, d), filter_obs(rb, d)
            if ra != rbb:
                c.fail("same_behaviour", f"rebuilt condition filters differently: {ra} vs {rbb}")
                break
    for l in terms.tree_leaves(t):
        if l[0] == "leaf":
            c.features.add((l[1], CANON.get(l[2], l[2])))
    c.nontrivial = True
    return c


def matches_known(entry, case, name, detail):
    m = entry.get("match", {})
    tags = getattr(case, "tags", set())
    return m.get("tag") in tags


CORPUS = [
    ("leaf", "Value", "factor_of", [6], {}),
    ("leaf", "Value", "has_factor", [2], {}),
    ("leaf", "Value", "keys_contain_N_of", [1, ["a", "b"]], {}),
    ("leaf", "Value", "not_in_range", [1, 5], {}),
    ("leaf", "ValueDataType", "in_", [[int, str]], {}),
    ("leaf", "Value", "equal_to", [{}], {}),
    ("leaf", "Value", "equal_to", [{"a": {"b": [1, 2.5, None]}}], {}),
    ("bin", "and", ("bin", "and", ("leaf", "Value", "gt", [1], {}), ("leaf", "Value", "lt", [4], {})), ("leaf", "Value", "gt", [2], {})),
    ("leaf", "Value", "equal_to", [PathArg([("prim", "a")], None, None)], {}),
    ("leaf", "Value", "equal_to", [{"path": ["a"]}], {}),
]


def generate(rng, n, tier):
    from props import corners
    _corner = corners.to_json_cases() + corners.parse_cases()
    g = Gen(rng, pct_strings=False, max_depth=2)
    cases = list(_corner)
    for t in CORPUS:
        c = make_case(t)
        if c is not None:
            cases.append(c)
    while len(cases) < n:
        kind = rng.choice(["value", "value", "key", "index", "value+key", "value+index"])
        t = gen_tree(g, kind, rng.choice([0, 0, 1, 2, 3]))
        c = make_case(t)
        if c is not None:
            cases.append(c)
    return cases
