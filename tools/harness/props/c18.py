"""C18 – add_schema adds re-rooted rules and leaves the added schema intact."""
import copy
import warnings

import enc
import terms
from core import Case
from gen import Gen
from props import rules_common as rc
from props.c03 import gen_doc_for_parts

import valida.datapath as DP
from valida.schema import Schema

warnings.simplefilter("ignore")


def snapshot_schema(s):
    return [(id(r), id(r.path), enc.enc_rule(r)) for r in s.rules]


def canon_path(path):
    """path elements up to Python key identity (1 == True == 1.0)"""
    return repr([("num", float(k)) if isinstance(k, (bool, int, float)) else ("other", repr(k)) for k in path])


def val_summary(v):
    fails = []
    for t in v.rule_tests:
        for f in t.failures:
            fails.append(canon_path(tuple(f.path)))
    return (bool(v.is_valid), int(v.num_failures), int(v.num_rules_tested), sorted(fails))


def grow_doc(g, root, t_rules, s_rules):
    """a document with, at `root` (concrete keys), a sub-document grown along one of T's rule paths"""
    r = g.r
    base = r.choice(t_rules)["parts"] if t_rules else []
    sub = gen_doc_for_parts(g, base)
    if r.random() < 0.15:
        sub = r.choice([5, "s", None, [], {}])       # what lies at R is not a non-empty container
    doc = sub
    for k in reversed(root):
        if isinstance(k, int) and not isinstance(k, bool) and 0 <= k < 3 and r.random() < 0.5:
            lst = [g.value(1) for _ in range(k + 1 + r.choice([0, 1]))]
            lst[k] = doc
            doc = lst
        else:
            d = {}
            for _ in range(r.choice([0, 1, 2])):
                kk = g.key()
                if kk != k:              # (1 == True == 1.0: the same mapping key)
                    d[kk] = g.value(1)
            d[k] = doc
            doc = d
    if not isinstance(doc, (list, dict)) or not doc:
        doc = {"zz": 1}
    return doc, sub


def index_along(doc, root):
    node = doc
    for k in root:
        try:
            node = node[k]
        except (KeyError, IndexError, TypeError):
            return ("absent", None)
    return ("ok", node)


def make_case(g, s_rules, t_rules, roots):
    r = g.r
    desc = {"S": [rc.rule_desc(x) for x in s_rules], "T": [rc.rule_desc(x) for x in t_rules], "roots": [enc.enc_val(list(x)) for x in roots]}
    c = Case("add_schema", desc)
    lines = [rc.PY_HEAD, f"S = Schema([{', '.join(rc.rule_py(x) for x in s_rules)}])",
             f"T = Schema([{', '.join(rc.rule_py(x) for x in t_rules)}])"]
    for root in roots:
        lines.append(f"S.add_schema(T, DataPath(*{list(root)!r}))")
    lines.append("print([r.path for r in T.rules]); print([r.path for r in S.rules])")
    c.py = "\n".join(lines)
    try:
        s_list = [rc.build_rule(x) for x in s_rules]
        S = Schema(s_list)
        S_twin = Schema(s_list)          # another schema built from the same list object
        T = Schema([rc.build_rule(x) for x in t_rules])
    except TypeError:
        return None
    s_list_before = [id(x) for x in s_list]
    twin_before = snapshot_schema(S_twin)
    expected_order = [("S", id(x)) for x in S.rules]
    t_before = snapshot_schema(T)
    s_terms = [enc.enc_rule(x) for x in S.rules]
    t_terms = [enc.enc_rule(x) for x in T.rules]
    # a fresh, never-added copy of T and of S for the reference judgement
    T_ref = Schema([rc.build_rule(x) for x in t_rules])
    S_ref = Schema([rc.build_rule(x) for x in s_rules])
    impl_states = []
    calls = []
    # the document judged at the end; in half of the histories S (and T) have already validated it before and
    # between the additions: an addition takes effect whatever S was asked before
    doc, _ = grow_doc(g, roots[0], t_rules, s_rules)
    used_before = r.random() < 0.5
    if used_before:
        lines.insert(3, f"doc = {doc!r}\nS.validate(doc); T.validate(doc)   # asked before the additions")
        lines[-1] = "print(S.validate(doc).is_valid, S.validate(doc).num_failures, len(S.rules))"
        c.py = "\n".join(lines)
    for root in roots:
        if used_before:
            enc.outcome(lambda: S.validate(copy.deepcopy(doc)))
            enc.outcome(lambda: T.validate(copy.deepcopy(doc)))
        rp = DP.DataPath(*root)
        o = enc.outcome(lambda: S.add_schema(T, rp))
        if o[0] != "ok":
            c.fail("add_schema_raises", f"add_schema raised {o[1]}")
            return c
        impl_states.append([enc.enc_rule(x) for x in S.rules])
        calls.append([t_terms, enc.enc_path(DP.DataPath(*root))])
        if snapshot_schema(T) != t_before:
            c.fail("added_schema_unchanged", f"T was changed by add_schema under root {root!r}")
            break
        if snapshot_schema(S_twin) != twin_before or [id(x) for x in s_list] != s_list_before:
            c.fail("independent_additions", "adding T to S changed another schema built from the same rule list (or the caller's list)")
            break
        # expected: previous rules, then T's rules re-rooted in T's order, stably sorted by path length
        expected_order = expected_order + [("T", id(t.condition), len(root)) for t in T.rules]
        lens = {}
        for tag in expected_order:
            pass
        def plen(tag):
            if tag[0] == "S":
                return next(len(x.path) for x in s_list if id(x) == tag[1])
            return tag[2] + next(len(t.path) for t in T.rules if id(t.condition) == tag[1])
        expected_order = sorted(expected_order, key=plen)
        got_order = []
        for x in S.rules:
            if id(x) in s_list_before:
                got_order.append(("S", id(x)))
            else:
                got_order.append(("T", id(x.condition), len(x.path) - next(len(t.path) for t in T.rules if t.condition is x.condition)))
        if got_order != expected_order:
            c.fail("tie_order", "rules of S are not 'previous rules, then re-rooted rules', shortest path first with ties in that order")
            expected_order = got_order
    c.ask(["add_schema", s_terms, calls], impl_states, "add_schema", lambda impl, model: None if impl == model else "rules differ")
    # rules of S afterwards: shortest path first, ties in insertion order
    lens = [len(x.path) for x in S.rules]
    if lens != sorted(lens):
        c.fail("sorted", f"rules of S are not ordered by path length: {lens}")
    if len(S.rules) != len(s_rules) + len(t_rules) * len(roots):
        c.fail("rule_count", f"S has {len(S.rules)} rules, expected {len(s_rules) + len(t_rules) * len(roots)}")
    # judgement: S' = S plus T's judgement of what lies at each root
    vs = enc.outcome(lambda: val_summary(S.validate(copy.deepcopy(doc))))
    v0 = enc.outcome(lambda: val_summary(S_ref.validate(copy.deepcopy(doc))))
    if vs[0] != "ok" or v0[0] != "ok":
        if vs[0] != "ok":
            c.fail("validate_raises", f"validating with the extended schema raised {vs[1]}")
        return c
    exp_valid, exp_nf, exp_nt, exp_fails = v0[1]
    exp_fails = list(exp_fails)
    for root in roots:
        st, sub = index_along(doc, root)
        if st == "ok" and isinstance(sub, (list, dict)) and sub:
            vt = enc.outcome(lambda: T_ref.validate(copy.deepcopy(sub)))
            if vt[0] != "ok":
                return c
            v = vt[1]
            exp_valid = exp_valid and bool(v.is_valid)
            exp_nf += int(v.num_failures)
            exp_nt += int(v.num_rules_tested)
            for t in v.rule_tests:
                for f in t.failures:
                    exp_fails.append(canon_path(tuple(root) + tuple(f.path)))
        elif st == "ok" and not t_rules_have_empty_path(t_rules):
            pass
        elif st == "ok":
            # what lies at R is a scalar / empty container: a rule of T with the empty path still selects it
            return c
    got = vs[1]
    want = (exp_valid, exp_nf, exp_nt, sorted(exp_fails))
    if got != want:
        c.fail("judgement", f"S' judges {got!r:.300} but S plus T-at-R gives {want!r:.300}")
    c.nontrivial = len(t_rules) > 0 and got[2] > 0
    c.features.add((min(len(s_rules), 3), min(len(t_rules), 3), len(roots), got[0]))
    c.features.add(("validated_before_additions", used_before))
    return c


def self_case(g, s_rules, root):
    """`S.add_schema(S, R)`: T is S itself. The call must return, and S then consists of its previous rules plus
    each of them re-rooted at R (shortest path first, ties: previous rules first, then in the previous order)."""
    desc = {"S": [rc.rule_desc(x) for x in s_rules], "self_addition_root": enc.enc_val(list(root))}
    c = Case("add_schema_self", desc)
    c.py = "\n".join([rc.PY_HEAD, f"S = Schema([{', '.join(rc.rule_py(x) for x in s_rules)}])",
                      f"S.add_schema(S, DataPath(*{list(root)!r}))", "print([r.path for r in S.rules])"])
    try:
        S = Schema([rc.build_rule(x) for x in s_rules])
    except TypeError:
        return None
    before = list(S.rules)
    s_terms = [enc.enc_rule(x) for x in before]
    rp = DP.DataPath(*root)
    o = enc.outcome(lambda: S.add_schema(S, rp), seconds=2.0)
    if o[0] != "ok":
        c.fail("add_schema_raises", f"adding a schema to itself: add_schema gave {o[1]}")
        return c
    c.ask(["add_schema", s_terms, [[s_terms, enc.enc_path(rp)]]], [[enc.enc_rule(x) for x in S.rules]], "add_schema",
          lambda impl, model: None if impl == model else "rules differ")
    want = sorted([("S", i, len(x.path)) for i, x in enumerate(before)] +
                  [("T", i, len(root) + len(x.path)) for i, x in enumerate(before)], key=lambda t: t[2])
    got = []
    for x in S.rules:
        if any(x is y for y in before):
            got.append(("S", next(i for i, y in enumerate(before) if y is x), len(x.path)))
        else:
            got.append(("T", next((i for i, y in enumerate(before) if y.condition is x.condition), -1), len(x.path)))
    if len(S.rules) != 2 * len(before):
        c.fail("rule_count", f"S has {len(S.rules)} rules after adding itself, expected {2 * len(before)}")
    elif [t[2] for t in got] != [t[2] for t in want] or sorted(got) != sorted(want):
        c.fail("tie_order", f"after adding S to itself its rules are {got}, expected {want}")
    c.nontrivial = len(before) > 0
    c.features.add(("self", min(len(before), 3), len(root)))
    return c


def t_rules_have_empty_path(t_rules):
    return any(not x["parts"] for x in t_rules)


def generate(rng, n, tier):
    from props import corners
    _corner = corners.add_schema_cases()
    g = Gen(rng, pct_strings=False, max_depth=2)
    cases = list(_corner)
    while len(cases) < n:
        s_rules = [rc.gen_rule(g, max_parts=2) for _ in range(rng.choice([0, 1, 2, 3]))]
        if rng.random() < 0.06:
            c = self_case(g, s_rules, tuple(rng.choice(["p", "q", 0, "a"]) for _ in range(rng.choice([1, 2]))))
            if c is not None:
                cases.append(c)
            continue
        t_rules = [rc.gen_rule(g, max_parts=2) for _ in range(rng.choice([1, 1, 2, 3]))]
        nroots = rng.choice([1, 1, 2, 3])
        roots = []
        for _ in range(nroots):
            roots.append(tuple(rng.choice(["p", "q", "sub", 0, 1, "a"]) for _ in range(rng.choice([1, 1, 2]))))
        # distinct roots that do not nest (each addition judged independently)
        roots = list(dict.fromkeys(roots))
        roots = [x for x in roots if not any(y != x and x[:len(y)] == y for y in roots)]
        c = make_case(g, s_rules, t_rules, roots)
        if c is not None:
            cases.append(c)
    return cases
