"""Recipes: JSON-able descriptions of condition trees, path parts, paths and rules that can be
(a) built into implementation objects through the public API, (b) evaluated by the independent
Python oracle, (c) printed as a replay."""
import enc
import oracle

import valida.conditions as C
import valida.datapath as DP

VALUE_CLASSES = ["Value", "ValueLength", "ValueDataType"]
KEY_CLASSES = ["Key", "KeyLength", "KeyDataType"]
INDEX_CLASSES = ["Index"]
CLS_INFO = {
    "Value": ("value", ""), "ValueLength": ("value", "len"), "ValueDataType": ("value", "type"),
    "Key": ("key", ""), "KeyLength": ("key", "len"), "KeyDataType": ("key", "type"), "Index": ("index", ""),
}
OPS = {"and": lambda a, b: a & b, "or": lambda a, b: a | b, "xor": lambda a, b: a ^ b}
OPF = {"and": lambda a, b: a and b, "or": lambda a, b: a or b, "xor": lambda a, b: a != b}


# ---- condition trees ---------------------------------------------------------------------------
# ("null",) | ("leaf", cls, ctor, args(list), kwargs(dict)) | ("bin", op, a, b)

def gen_leaf(g, kind, hostile_p=0.05):
    r = g.r
    if kind == "value":
        cls = r.choice(VALUE_CLASSES) if r.random() < 0.4 else "Value"
    elif kind == "key":
        cls = r.choice(KEY_CLASSES) if r.random() < 0.3 else "Key"
    else:
        cls = "Index"
    cls, ctor, args, kwargs = g.dsl_call(cls, None, hostile_p=hostile_p)
    return ("leaf", cls, ctor, list(args), dict(kwargs))


def gen_tree(g, kind, depth=2, null_p=0.1):
    """kind: 'value' | 'key' | 'index' | 'value+key' | 'value+index' (mixed leaves)"""
    r = g.r
    if r.random() < null_p:
        return ("null",)
    if depth <= 0 or r.random() < 0.5:
        k = kind
        if "+" in kind:
            k = r.choice(kind.split("+"))
        return gen_leaf(g, k)
    op = r.choice(["and", "or", "xor"])
    return ("bin", op, gen_tree(g, kind, depth - 1, null_p), gen_tree(g, kind, depth - 1, null_p))


def repeat_operands(r, t, p=0.15):
    """the same tree with, here and there, an operand repeated (as an equal copy, possibly with its own operands
    commuted): `a ^ a`, `(a & b) ^ (b & a)`, `a | b | a` - combinations are not idempotent for xor"""
    if t[0] != "bin":
        return t
    _, op, a, b = t
    a, b = repeat_operands(r, a, p), repeat_operands(r, b, p)
    if r.random() < p:
        src = a
        if src[0] == "bin" and r.random() < 0.5:
            src = ("bin", src[1], src[3], src[2])
        elif a[0] == "bin" and r.random() < 0.5:
            src = a[2]                      # a op b op a, flattened by the spec writer
        b = src
    return ("bin", op, a, b)


def build_tree(t):
    if t[0] == "null":
        return C.NullCondition()
    if t[0] == "leaf":
        _, cls, ctor, args, kwargs = t
        return getattr(getattr(C, cls), ctor)(*args, **kwargs)
    _, op, a, b = t
    return OPS[op](build_tree(a), build_tree(b))


def tree_py(t):
    if t[0] == "null":
        return "NullCondition()"
    if t[0] == "leaf":
        _, cls, ctor, args, kwargs = t
        a = [repr_py(x) for x in args] + [f"{k}={repr_py(v)}" for k, v in kwargs.items()]
        return f"{cls}.{ctor}({', '.join(a)})"
    _, op, a, b = t
    sym = {"and": "&", "or": "|", "xor": "^"}[op]
    return f"({tree_py(a)} {sym} {tree_py(b)})"


def repr_py(v):
    import pathlib
    if isinstance(v, type):
        return "pathlib.Path" if v is pathlib.Path else v.__name__
    if isinstance(v, list):
        return "[" + ", ".join(repr_py(x) for x in v) + "]"
    if isinstance(v, tuple):
        return "(" + ", ".join(repr_py(x) for x in v) + ("," if len(v) == 1 else "") + ")"
    if isinstance(v, dict):
        return "{" + ", ".join(f"{repr_py(k)}: {repr_py(x)}" for k, x in v.items()) + "}"
    return repr(v)


def tree_desc(t):
    if t[0] == "null":
        return ["null"]
    if t[0] == "leaf":
        return ["leaf", t[1], t[2], enc.enc_val(list(t[3])), enc.enc_val(dict(t[4]))]
    return ["bin", t[1], tree_desc(t[2]), tree_desc(t[3])]


def is_null_tree(t):
    return t[0] == "null"


def simplify_tree(t):
    """the tree after the null short-circuit (what `&`, `|`, `^` actually build)"""
    if t[0] != "bin":
        return t
    a, b = simplify_tree(t[2]), simplify_tree(t[3])
    if is_null_tree(b):
        return a
    if is_null_tree(a):
        return b
    return ("bin", t[1], a, b)


def tree_leaves(t):
    if t[0] == "bin":
        return tree_leaves(t[2]) + tree_leaves(t[3])
    return [t]


def tree_kinds(t):
    """set of 'key' / 'index' kinds among the non-null leaves"""
    out = set()
    for l in tree_leaves(simplify_tree(t)):
        if l[0] == "leaf":
            out.add(CLS_INFO[l[1]][0])
    return out


def stored_args(t):
    """(callable name, positional args, keyword args) a DSL leaf stores – read off the real object"""
    c = build_tree(t)
    return c.callable.name, c.callable.args, c.callable.kwargs


def sat_tree(t, key, value):
    """documented meaning of the tree on one item: key = mapping key or list index; a null operand
    is the identity of every operator (C02)"""
    if t[0] == "null":
        return True
    if t[0] == "bin":
        if is_null_tree(simplify_tree(t[3])):
            return sat_tree(t[2], key, value)
        if is_null_tree(simplify_tree(t[2])):
            return sat_tree(t[3], key, value)
        return OPF[t[1]](sat_tree(t[2], key, value), sat_tree(t[3], key, value))
    _, cls, ctor, args, kwargs = t
    like, pre = CLS_INFO[cls]
    datum = value if like == "value" else key
    p = oracle.preproc(pre, datum)
    if p is None:
        return False
    fn, pos, kw = stored_args(t)
    m = oracle.meaning(fn, p[1], pos, kw)
    return bool(m) if m is not None else False


# ---- path parts --------------------------------------------------------------------------------
# ("prim", v) | (kind, {"key": spec, "index": spec, "value": spec, "condition": tree|None,
#                       "list_condition": tree|None, "map_condition": tree|None, "label": v|None})
# spec: None | ("v", value) | ("c", tree)

def gen_spec(g, kind, p_none=0.5):
    r = g.r
    x = r.random()
    if x < p_none:
        return None
    if x < p_none + (1 - p_none) * 0.5:
        # (a bare `None` cannot be given: it means "no argument")
        v = None
        while v is None:
            if kind == "key":
                v = g.key() if r.random() < 0.9 else g.atom()
            elif kind == "index":
                v = r.choice([0, 1, 2, -1, 3])
            else:
                v = g.atom()
        return ("v", v)
    return ("c", gen_tree(g, kind, depth=1, null_p=0.08))


def gen_part(g, prim_p=0.45):
    r = g.r
    if r.random() < prim_p:
        x = r.random()
        if x < 0.55:
            return ("prim", r.choice(["a", "b", "c", "k1", "key", "", "1", "q"]))
        if x < 0.85:
            return ("prim", r.choice([0, 1, 2, 3, -1]))
        if x < 0.93:
            return ("prim", r.choice([0.5, 1.0, 2.5, 0.0]))
        return ("prim", r.choice([True, False]))
    kind = r.choice(["map", "list", "molv"])
    d = {"key": None, "index": None, "value": None, "condition": None, "list_condition": None,
         "map_condition": None, "label": None}
    if kind in ("map", "molv"):
        d["key"] = gen_spec(g, "key", 0.45)
    if kind in ("list", "molv"):
        d["index"] = gen_spec(g, "index", 0.45)
    d["value"] = gen_spec(g, "value", 0.6)
    if r.random() < 0.2:
        ck = {"map": "value+key", "list": "value+index", "molv": "value"}[kind]
        d["condition"] = gen_tree(g, ck, depth=1)
    if kind == "molv":
        if r.random() < 0.15:
            d["list_condition"] = gen_tree(g, "index", depth=1)
        if r.random() < 0.15:
            d["map_condition"] = gen_tree(g, "key", depth=1)
    if r.random() < 0.1:
        d["label"] = r.choice(["lbl", "x", 3])
    return (kind, d)


def build_spec(s):
    if s is None:
        return None
    if s[0] == "v":
        return s[1]
    return build_tree(s[1])


def build_part(p):
    if p[0] == "prim":
        return p[1]
    kind, d = p
    cond = None if d["condition"] is None else build_tree(d["condition"])
    if kind == "map":
        return DP.MapValue(key=build_spec(d["key"]), value=build_spec(d["value"]), condition=cond, label=d["label"])
    if kind == "list":
        return DP.ListValue(index=build_spec(d["index"]), value=build_spec(d["value"]), condition=cond, label=d["label"])
    lc = None if d["list_condition"] is None else build_tree(d["list_condition"])
    mc = None if d["map_condition"] is None else build_tree(d["map_condition"])
    return DP.MapOrListValue(key=build_spec(d["key"]), index=build_spec(d["index"]), value=build_spec(d["value"]),
                             list_condition=lc, map_condition=mc, condition=cond, label=d["label"])


def spec_py(s):
    if s is None:
        return "None"
    if s[0] == "v":
        return repr_py(s[1])
    return tree_py(s[1])


def part_py(p):
    if p[0] == "prim":
        return repr_py(p[1])
    kind, d = p
    name = {"map": "MapValue", "list": "ListValue", "molv": "MapOrListValue"}[kind]
    kws = []
    for k in ("key", "index", "value"):
        if d[k] is not None:
            kws.append(f"{k}={spec_py(d[k])}")
    for k in ("condition", "list_condition", "map_condition"):
        if d[k] is not None:
            kws.append(f"{k}={tree_py(d[k])}")
    if d["label"] is not None:
        kws.append(f"label={d['label']!r}")
    return f"{name}({', '.join(kws)})"


def spec_desc(s):
    if s is None:
        return None
    if s[0] == "v":
        return ["v", enc.enc_val(s[1])]
    return ["c", tree_desc(s[1])]


def part_desc(p):
    if p[0] == "prim":
        return ["prim", enc.enc_val(p[1])]
    kind, d = p
    return [kind, {k: (spec_desc(d[k]) if k in ("key", "index", "value") else
                       (None if d[k] is None else (tree_desc(d[k]) if k != "label" else enc.enc_val(d[k]))))
                   for k in d}]


def spec_sat(s, like, key, value):
    """a datum spec as a test on one item"""
    if s is None:
        return True
    if s[0] == "v":
        datum = value if like == "value" else key
        return datum == s[1]
    return sat_tree(s[1], key, value)


def children(p, node):
    """(key, child) pairs of `node` the part matches, in document order – independent reference"""
    if not isinstance(node, (list, dict)) or not node:
        return []
    is_list = isinstance(node, list)
    items = list(enumerate(node)) if is_list else list(node.items())
    if p[0] == "prim":
        v = p[1]
        if isinstance(v, (str, float)):
            return [] if is_list else [(k, c) for k, c in items if k == v]
        return [(k, c) for k, c in items if k == v]
    kind, d = p
    if kind == "map" and is_list:
        return []
    if kind == "list" and not is_list:
        return []
    out = []
    for k, c in items:
        ok = spec_sat(d["value"], "value", k, c)
        if d["condition"] is not None:
            ok = ok and sat_tree(d["condition"], k, c)
        if kind == "map":
            ok = ok and spec_sat(d["key"], "key", k, c)
        elif kind == "list":
            ok = ok and spec_sat(d["index"], "index", k, c)
        elif is_list:
            ok = ok and spec_sat(d["index"], "index", k, c)
            if d["list_condition"] is not None:
                ok = ok and sat_tree(d["list_condition"], k, c)
        else:
            ok = ok and spec_sat(d["key"], "key", k, c)
            if d["map_condition"] is not None:
                ok = ok and sat_tree(d["map_condition"], k, c)
        if ok:
            out.append((k, c))
    return out


def walk(parts, node, path=()):
    if not parts:
        return [(node, path)]
    out = []
    for k, c in children(parts[0], node):
        out += walk(parts[1:], c, path + (k,))
    return out


def part_constructible(p):
    """the constructor accepts the recipe (no kind mismatch, no key/index mixing)"""
    if p[0] == "prim":
        return True
    kind, d = p
    try:
        build_part(p)
        return True
    except TypeError:
        return False
