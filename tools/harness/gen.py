"""Generators: documents, DSL calls, condition trees, path recipes, rules.  Every random choice comes
from the one `random.Random` handed in, so a case replays from (seed, index)."""
import pathlib

INT_POOL = [0, 1, -1, 2, 3, 4, 5, 6, 7, 10, 12, -3, -7, 100, 2 ** 53 + 1, 2 ** 53 - 1, 2 ** 63 - 1, -(2 ** 63)]
FLOAT_POOL = [0.0, 1.0, 2.0, -1.0, 0.5, 2.5, -7.5, 3.0, 6.0, 1e-8, 1.00000001, 1.000000005, 5e-324, 1e300, 9007199254740992.0,
              0.1, 0.30000000000000004, 12.0]
STR_POOL = ["", "a", "b", "abc", "ab", "1", "0", "true", "False", "TRUE", "x y", "é", "key", "k1", "k2", "zz",
            " 12 ", "-3", "1_0", "+7", "abc def", "q", "r"]
PCT_STR_POOL = ["100%", "%d", "%s", "%%", "%(a)s", "%z", "%", "%5", "%c"]
KEY_STR_POOL = ["a", "b", "c", "k1", "k2", "key", "", "1", "q", "r"]
TYPE_POOL = [int, float, str, list, dict, bool, pathlib.Path]


class Gen:
    def __init__(self, rng, pct_strings=False, max_depth=3):
        self.r = rng
        self.pct = pct_strings
        self.max_depth = max_depth

    # ---- atoms -------------------------------------------------------------------------------
    def int_(self):
        r = self.r
        return r.choice(INT_POOL) if r.random() < 0.8 else r.randint(-20, 20)

    def float_(self):
        r = self.r
        if r.random() < 0.8:
            return r.choice(FLOAT_POOL)
        return r.choice([r.randint(-50, 50) / 4, r.random(), float(r.randint(-5, 5))])

    def str_(self):
        r = self.r
        if self.pct and r.random() < 0.15:
            return r.choice(PCT_STR_POOL)
        return r.choice(STR_POOL)

    def number(self):
        r = self.r
        x = r.random()
        if x < 0.5:
            return self.int_()
        if x < 0.9:
            return self.float_()
        return r.choice([True, False])

    def atom(self):
        r = self.r
        x = r.random()
        if x < 0.30:
            return self.int_()
        if x < 0.50:
            return self.float_()
        if x < 0.60:
            return r.choice([True, False])
        if x < 0.68:
            return None
        return self.str_()

    def key(self):
        r = self.r
        x = r.random()
        if x < 0.6:
            return r.choice(KEY_STR_POOL)
        if x < 0.78:
            return r.choice([0, 1, 2, 3, -1, 10])
        if x < 0.88:
            return r.choice([0.5, 1.0, 2.5, 0.0])
        if x < 0.95:
            return r.choice([True, False])
        return None

    # ---- nested values -----------------------------------------------------------------------
    def value(self, depth=None):
        r = self.r
        if depth is None:
            depth = self.max_depth
        x = r.random()
        if depth <= 0 or x < 0.55:
            return self.atom()
        if x < 0.78:
            return self.list_(depth - 1, allow_empty=True)
        return self.dict_(depth - 1, allow_empty=True)

    def list_(self, depth, allow_empty=False, n=None):
        r = self.r
        if n is None:
            n = r.choice([0, 1, 1, 2, 2, 3, 4]) if allow_empty else r.choice([1, 1, 2, 2, 3, 4, 5])
        if r.random() < 0.3:
            # homogeneous list
            f = r.choice([self.int_, self.float_, self.str_, self.number])
            return [f() for _ in range(n)]
        return [self.value(depth) for _ in range(n)]

    def dict_(self, depth, allow_empty=False, n=None):
        r = self.r
        if n is None:
            n = r.choice([0, 1, 1, 2, 2, 3, 4]) if allow_empty else r.choice([1, 1, 2, 2, 3, 4, 5])
        d = {}
        tries = 0
        while len(d) < n and tries < 20:
            tries += 1
            d[self.key()] = self.value(depth)
        if not d and not allow_empty:
            d[self.key()] = self.value(depth)
        return d

    def doc(self, depth=None):
        if depth is None:
            depth = self.max_depth
        if self.r.random() < 0.5:
            return self.list_(depth - 1)
        return self.dict_(depth - 1)

    def any_value(self):
        """argument value of 'every JSON-like type'"""
        r = self.r
        x = r.random()
        if x < 0.6:
            return self.atom()
        if x < 0.8:
            return self.list_(1, allow_empty=True)
        if x < 0.9:
            return self.dict_(1, allow_empty=True)
        if x < 0.95:
            return tuple(self.list_(0, allow_empty=True))
        return r.choice(TYPE_POOL)

    def types(self, n=None):
        r = self.r
        if n is None:
            n = r.choice([0, 1, 1, 2, 3])
        return [r.choice(TYPE_POOL) for _ in range(n)]

    def keys(self, n=None):
        r = self.r
        if n is None:
            n = r.choice([0, 1, 2, 2, 3])
        return [self.key() for _ in range(n)]

    # ---- DSL calls ---------------------------------------------------------------------------
    GENERAL = ["equal_to", "not_equal_to", "less_than", "greater_than", "less_than_or_equal_to",
               "greater_than_or_equal_to", "in_", "not_in", "in_range", "not_in_range", "equal_to_approx",
               "factor_of", "has_factor", "truthy", "falsy", "null", "is_instance",
               "eq", "lt", "gt", "lte", "gte"]
    MAP = ["keys_contain", "keys_contain_any_of", "keys_contain_all_of", "keys_contain_N_of",
           "keys_contain_at_least_N_of", "keys_contain_at_most_N_of", "keys_contain_one_of",
           "keys_contain_at_least_one_of", "keys_contain_at_most_one_of", "keys_equal_to", "keys_is_instance",
           "items_contain", "allowed_keys", "required_keys", "forbidden_keys"]
    CLASSES = ["Value", "ValueLength", "ValueDataType", "Key", "KeyLength", "KeyDataType", "Index"]

    def ctors_of(self, cls):
        return self.GENERAL + (self.MAP if cls in ("Value", "Key") else [])

    def expected_arg(self, cls, hostile):
        """a comparison operand of the kind the class's datum has"""
        r = self.r
        if hostile:
            return self.any_value()
        if cls.endswith("Length"):
            return r.choice([0, 1, 2, 3, 4, 5])
        if cls.endswith("DataType"):
            return r.choice(TYPE_POOL)
        if cls == "Index":
            return r.choice([0, 1, 2, 3, -1])
        if cls == "Key":
            return self.key()
        return self.atom() if r.random() < 0.8 else self.value(1)

    def dsl_call(self, cls=None, ctor=None, hostile_p=0.12):
        """(cls, ctor, args, kwargs): a call `Cls.ctor(*args, **kwargs)`; arguments mostly of the
        expected kind, sometimes (hostile_p) of any other kind."""
        r = self.r
        if cls is None:
            cls = r.choice(self.CLASSES)
        if ctor is None:
            ctor = r.choice(self.ctors_of(cls))
        h = r.random() < hostile_p
        a = lambda: self.expected_arg(cls, h)  # noqa: E731
        kw = r.random() < 0.3
        if ctor in ("equal_to", "not_equal_to", "less_than", "greater_than", "less_than_or_equal_to",
                    "greater_than_or_equal_to", "eq", "lt", "gt", "lte", "gte"):
            v = a()
            return (cls, ctor, [], {"value": v}) if kw else (cls, ctor, [v], {})
        if ctor in ("in_", "not_in"):
            x = r.random()
            if h:
                v = self.any_value()
            elif x < 0.6:
                v = [a() for _ in range(r.choice([0, 1, 2, 3, 4]))]
            elif x < 0.7:
                v = tuple(a() for _ in range(r.choice([0, 1, 2, 3])))
            elif x < 0.85:
                v = self.str_()
            else:
                v = self.dict_(0, allow_empty=True)
            return (cls, ctor, [], {"value": v}) if kw else (cls, ctor, [v], {})
        if ctor in ("in_range", "not_in_range"):
            if h:
                lo, hi = self.any_value(), self.any_value()
                # `x in range(l, u)` scans the range linearly for a non-int x: keep ranges small
                if type(lo) in (int, bool) and type(hi) in (int, bool) and hi - lo > 1000:
                    hi = lo + 7
            else:
                lo = r.choice([0, 1, -2, 2, 3, True])
                hi = r.choice([0, 2, 3, 5, 10, -1])
            return (cls, ctor, [], {"lower": lo, "upper": hi}) if kw else (cls, ctor, [lo, hi], {})
        if ctor == "equal_to_approx":
            v = self.any_value() if h else self.number()
            x = r.random()
            if x < 0.5:
                return (cls, ctor, [v], {})
            tol = self.any_value() if h else r.choice([1e-8, 0.5, 1, 0, 1e-3, 2.5])
            return (cls, ctor, [v], {"tolerance": tol}) if kw else (cls, ctor, [v, tol], {})
        if ctor in ("factor_of", "has_factor"):
            if h:
                v = self.any_value()
            else:
                v = r.choice([1, 2, 3, 6, 12, -4, 2.0, 0.5, 2.5, True, 0, 0.0, 7, 100])
            return (cls, ctor, [], {"value": v}) if kw else (cls, ctor, [v], {})
        if ctor in ("truthy", "falsy", "null"):
            return (cls, ctor, [], {})
        if ctor in ("is_instance", "keys_is_instance"):
            ts = [self.any_value() for _ in range(r.choice([1, 2]))] if h else self.types()
            return (cls, ctor, ts, {})
        if ctor == "keys_contain":
            v = self.any_value() if h else self.key()
            return (cls, ctor, [], {"key": v}) if kw else (cls, ctor, [v], {})
        if ctor in ("keys_contain_any_of", "keys_contain_all_of", "keys_contain_one_of", "keys_equal_to",
                    "allowed_keys", "required_keys", "forbidden_keys"):
            ks = [self.any_value() for _ in range(r.choice([1, 2, 3]))] if h else self.keys()
            return (cls, ctor, ks, {})
        if ctor in ("keys_contain_N_of", "keys_contain_at_least_N_of", "keys_contain_at_most_N_of"):
            n = self.any_value() if h else r.choice([0, 1, 2, 3, 1.0, True])
            ks = self.any_value() if h else r.choice([self.keys(), tuple(self.keys())])
            return (cls, ctor, [], {"N": n, "keys": ks}) if kw else (cls, ctor, [n, ks], {})
        if ctor in ("keys_contain_at_least_one_of", "keys_contain_at_most_one_of"):
            ks = self.any_value() if h else r.choice([self.keys(), tuple(self.keys())])
            return (cls, ctor, [], {"keys": ks}) if kw else (cls, ctor, [ks], {})
        if ctor == "items_contain":
            n = r.choice([0, 1, 2, 3])
            items = {}
            for _ in range(n):
                items[r.choice(["a", "b", "c", "k1", "key", "q", "trial_dict", "items"]) if h else
                      r.choice(["a", "b", "c", "k1", "key", "q"])] = self.atom() if r.random() < 0.8 else self.value(1)
            return (cls, ctor, [], items)
        raise ValueError(ctor)

    def doc_for(self, cls, ctor, depth=None):
        """a document whose items suit the call (mappings for keys_*, numbers for factors, …), or any"""
        r = self.r
        x = r.random()
        if x < 0.25:
            return self.doc(depth)
        n = r.choice([1, 2, 3, 4, 5])
        as_list = cls == "Index" or (cls.startswith("Value") and r.random() < 0.5)
        if cls.startswith("Key") and r.random() < 0.9:
            as_list = False

        EQUAL_VALUES = [1, True, 1.0, 0, False, 0.0, 2, 2.0, "1", "", None]

        def item():
            y = r.random()
            if ctor in ("is_instance", "equal_to", "eq", "not_equal_to", "in_", "not_in", "truthy", "falsy") or cls.endswith("DataType"):
                # values that compare equal but differ in type (1 == True == 1.0), in any order
                if y < 0.5:
                    return r.choice(EQUAL_VALUES)
            if ctor in self.MAP:
                return self.dict_(1, allow_empty=True) if y < 0.8 else self.value(1)
            if ctor in ("factor_of", "has_factor", "equal_to_approx", "in_range", "not_in_range"):
                return self.number() if y < 0.85 else self.value(1)
            if cls.endswith("Length"):
                return r.choice([self.str_(), self.list_(0, allow_empty=True), self.dict_(0, allow_empty=True)]) \
                    if y < 0.85 else self.atom()
            return self.value(2)
        if as_list:
            return [item() for _ in range(n)]
        d = {}
        for _ in range(n):
            d[self.key()] = item()
        return d
