#!/usr/bin/env python3
"""Replay a violation file written by vcheck: print what was violated and run the recorded Python snippet
against /repo's working tree (the snippet uses only the public API of valida)."""
import json
import os
import subprocess
import sys


def main():
    if len(sys.argv) < 2:
        print("usage: replay.py <replays/Pxx-seed-n.json>")
        return 2
    r = json.load(open(sys.argv[1]))
    print(f"property   : {r.get('property')}")
    print(f"kind       : {r.get('kind')}")
    for k in ("predicate", "operation", "reason", "detail"):
        if r.get(k) is not None:
            print(f"{k:<11}: {str(r[k])[:1500]}")
    if r.get("proof_problems"):
        print("proof / tie problems:")
        for p in r["proof_problems"]:
            print("   -", str(p)[:600])
    if r.get("impl") is not None or r.get("model") is not None:
        print(f"implementation: {str(r.get('impl'))[:800]}")
        print(f"model         : {str(r.get('model'))[:800]}")
    py = r.get("python")
    if not py:
        print("(no Python snippet recorded: the case is in the 'case' field)")
        print(json.dumps(r.get("case"))[:3000])
        return 0
    print("---- snippet " + "-" * 60)
    print(py)
    print("---- output (PYTHONPATH=/repo) " + "-" * 42)
    env = dict(os.environ, PYTHONPATH="/repo")
    try:
        p = subprocess.run(["/venv/bin/python", "-c", py], env=env, stdout=subprocess.PIPE, stderr=subprocess.STDOUT, timeout=120)
        print(p.stdout.decode("utf-8", "replace")[-4000:])
    except subprocess.TimeoutExpired:
        print("(the snippet did not finish within 120 s)")
    return 0


if __name__ == "__main__":
    sys.exit(main())
