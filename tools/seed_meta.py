#!/usr/bin/env python3
"""Development-time tool: for every /verif/seeded/<id>/ confirm the change, run the check of its property against it and
write meta.json."""
import json
import os
import sys

sys.path.insert(0, os.path.dirname(os.path.abspath(__file__)))
import seedcheck  # noqa: E402

VERIF = os.path.dirname(os.path.dirname(os.path.abspath(__file__)))
ids = sys.argv[1:] or sorted(os.listdir(os.path.join(VERIF, "seeded")))
for sid in ids:
    d = os.path.join(VERIF, "seeded", sid)
    if not os.path.isdir(d):
        continue
    prop = sid.split("-")[0]
    notes = open(os.path.join(d, "notes.md")).read() if os.path.exists(os.path.join(d, "notes.md")) else ""
    conf = seedcheck.confirm(d)
    det = seedcheck.detect(d, [prop])
    r = det[prop]
    rp = r.get("replay", {})
    meta = {
        "id": sid, "breaks_property": prop,
        "needs_to_manifest": next((l.strip() for l in notes.splitlines() if "manifest" in l.lower() and len(l) > 40), "see notes.md"),
        "confirmation": conf,
        "what_was_run": [
            "tools/seedcheck.py confirm: git worktree of /repo HEAD, git apply patch.diff, pytest (266 passed required), demo.py (exit 1 required), git checkout, demo.py (exit 0 required)",
            f"tools/seedcheck.py detect: git -C /repo apply patch.diff; ./vcheck {prop} --tier quick (VERIF_SEED=0); git -C /repo checkout -- .",
        ],
        "detection": {"check": prop, "exit": r["exit"], "lines": r["lines"], "kind": rp.get("kind"),
                      "predicate": rp.get("predicate"), "detail": str(rp.get("detail"))[:400],
                      "failing_input_python": (rp.get("python") or "")[-1500:]},
        "detected": r["exit"] == 1,
        "detected_with_failing_input": r["exit"] == 1 and rp.get("kind") == "impl-violates-property",
    }
    json.dump(meta, open(os.path.join(d, "meta.json"), "w"), indent=1)
    print(sid, "confirmed" if conf["confirmed"] else "NOT CONFIRMED", "| detected" if meta["detected"] else "| MISSED",
          "| with failing input" if meta["detected_with_failing_input"] else "", flush=True)
