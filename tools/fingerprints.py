#!/usr/bin/env python3
"""Function-level fingerprints of valida/*.py (ast, docstrings and comments ignored).

  tools/fingerprints.py --record [/repo]     write tools/baseline_fingerprints.json (the source the model was audited against)
  changed(repo)                              names whose fingerprint differs from the baseline (used by vcheck to explore
                                             more deeply when the source is not the audited one; never a verdict by itself)
"""
import ast
import hashlib
import json
import os
import sys

HERE = os.path.dirname(os.path.abspath(__file__))
BASELINE = os.path.join(HERE, "baseline_fingerprints.json")


def _strip_doc(body):
    if body and isinstance(body[0], ast.Expr) and isinstance(body[0].value, ast.Constant) and isinstance(body[0].value.value, str):
        return body[1:]
    return body


def _h(nodes):
    return hashlib.sha1("\n".join(ast.dump(n) for n in nodes).encode()).hexdigest()[:16]


def fingerprint(repo):
    out = {}
    d = os.path.join(repo, "valida")
    for fn in sorted(os.listdir(d)):
        if not fn.endswith(".py"):
            continue
        try:
            tree = ast.parse(open(os.path.join(d, fn)).read())
        except SyntaxError:
            out[fn + ":<syntax-error>"] = "x"
            continue
        top = []

        def visit(body, prefix):
            for node in body:
                if isinstance(node, (ast.FunctionDef, ast.AsyncFunctionDef)):
                    out[f"{fn}:{prefix}{node.name}"] = _h([ast.Module(body=_strip_doc(node.body), type_ignores=[]), node.args] +
                                                          list(node.decorator_list))
                elif isinstance(node, ast.ClassDef):
                    rest = [x for x in _strip_doc(node.body) if not isinstance(x, (ast.FunctionDef, ast.AsyncFunctionDef, ast.ClassDef))]
                    out[f"{fn}:{prefix}{node.name}.<class-body>"] = _h(rest + list(node.bases))
                    visit(node.body, prefix + node.name + ".")
                elif prefix == "":
                    top.append(node)
        visit(tree.body, "")
        out[fn + ":<module>"] = _h(_strip_doc(top))
    return out


def changed(repo):
    try:
        base = json.load(open(BASELINE))
    except (OSError, ValueError):
        return []
    now = fingerprint(repo)
    return sorted(k for k in set(base) | set(now) if base.get(k) != now.get(k))


if __name__ == "__main__":
    if len(sys.argv) > 1 and sys.argv[1] == "--record":
        repo = sys.argv[2] if len(sys.argv) > 2 else "/repo"
        with open(BASELINE, "w") as fh:
            json.dump(fingerprint(repo), fh, indent=0, sort_keys=True)
            fh.write("\n")
        print("recorded", len(fingerprint(repo)), "fingerprints")
    else:
        print("\n".join(changed(sys.argv[1] if len(sys.argv) > 1 else "/repo")) or "unchanged")
