#!/usr/bin/env python3
"""Development-time tool (not a registered command): confirm a seeded change and run the checks against it.

  tools/seedcheck.py confirm <dir>         apply <dir>/patch.diff in a scratch worktree of /repo, run the test suite
                                           (must pass) and the demo (must fail), revert, run the demo (must pass)
  tools/seedcheck.py detect <dir> Cxx...   apply the patch to /repo, run ./vcheck for each property, undo the patch
"""
import json
import os
import subprocess
import sys
import tempfile

VERIF = os.path.dirname(os.path.dirname(os.path.abspath(__file__)))


def sh(cmd, cwd=None, env=None, timeout=3600):
    p = subprocess.run(cmd, cwd=cwd, env=env, stdout=subprocess.PIPE, stderr=subprocess.STDOUT, timeout=timeout, shell=isinstance(cmd, str))
    return p.returncode, p.stdout.decode("utf-8", "replace")


def confirm(d):
    d = os.path.abspath(d)
    wt = tempfile.mkdtemp(prefix="valida-seed-")
    os.rmdir(wt)
    out = {}
    try:
        rc, txt = sh(["git", "-C", "/repo", "worktree", "add", "-q", "--detach", wt, "HEAD"])
        assert rc == 0, txt
        env = dict(os.environ, PYTHONPATH=wt)
        rc, txt = sh(["git", "apply", os.path.join(d, "patch.diff")], cwd=wt)
        out["applies"] = rc == 0
        rc, txt = sh(["/venv/bin/python", "-m", "pytest", "-q", "-p", "no:cacheprovider"], cwd=wt, env=env)
        out["tests_with_change"] = txt.strip().splitlines()[-1]
        rc, txt = sh(["/venv/bin/python", os.path.join(d, "demo.py")], cwd=wt, env=env, timeout=1800)
        out["demo_exit_with_change"] = rc
        sh(["git", "checkout", "--", "."], cwd=wt)
        rc, txt = sh(["/venv/bin/python", os.path.join(d, "demo.py")], cwd=wt, env=env, timeout=1800)
        out["demo_exit_without_change"] = rc
    finally:
        sh(["git", "-C", "/repo", "worktree", "remove", "--force", wt])
    out["confirmed"] = bool(out.get("applies") and "266 passed" in out.get("tests_with_change", "")
                            and out.get("demo_exit_with_change") == 1 and out.get("demo_exit_without_change") == 0)
    return out


def detect(d, props, tier="quick", seed="0"):
    d = os.path.abspath(d)
    res = {}
    rc, txt = sh(["git", "-C", "/repo", "status", "--porcelain"])
    assert txt.strip() == "", "/repo is not clean: " + txt
    rc, txt = sh(["git", "-C", "/repo", "apply", os.path.join(d, "patch.diff")])
    assert rc == 0, txt
    try:
        for p in props:
            env = dict(os.environ, VERIF_SEED=seed)
            rc, txt = sh([os.path.join(VERIF, "vcheck"), p, "--tier", tier], cwd=VERIF, env=env)
            lines = [l for l in txt.splitlines() if l.startswith(("VIOLATION", "KNOWN-FINDING", "INFRA", p))]
            res[p] = {"exit": rc, "lines": lines[-4:]}
            # keep the replay of a detection next to the seed
            for l in lines:
                if l.startswith("VIOLATION") and "replay=" in l:
                    rp = l.split("replay=")[1].split()[0]
                    try:
                        res[p]["replay"] = json.load(open(rp))
                        for k in ("build_log_tail", "request", "impl", "model"):
                            res[p]["replay"].pop(k, None)
                    except Exception:  # noqa: BLE001
                        pass
    finally:
        sh(["git", "-C", "/repo", "checkout", "--", "."])
        # regenerate the generated model from the restored source
        sh([sys.executable, os.path.join(VERIF, "tools", "extract.py")])
    return res


if __name__ == "__main__":
    if sys.argv[1] == "confirm":
        print(json.dumps(confirm(sys.argv[2]), indent=1))
    else:
        res = detect(sys.argv[2], sys.argv[3:])
        for p, r in res.items():
            print(p, "exit", r["exit"])
            for l in r["lines"]:
                print("   ", l[:220])
            rp = r.get("replay", {})
            print("    kind:", rp.get("kind"), "|", rp.get("predicate"), "|", str(rp.get("detail"))[:200])
            print("    py:", (rp.get("python") or "").splitlines()[-1:] )
