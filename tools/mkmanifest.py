#!/usr/bin/env python3
"""Regenerate MANIFEST.json from the registry below (claimed checks) and properties.jsonl (the rest → not_applicable)."""
import json
import os

VERIF = os.path.dirname(os.path.dirname(os.path.abspath(__file__)))

NOTE = ("Trusted: Lean 4.33 kernel (axioms propext, Classical.choice, Quot.sound only; no native_decide/bv_decide/sorry), "
        "tools/extract.py (source -> ValidaGen), the primitive semantics lean/Valida/Py (validated differentially), the "
        "hand-written control-flow model lean/Valida (validated by the correspondence run), the harness generators. "
        "Modelled, not verified: CPython primitives on the JSON/YAML value domain; printf-style `str % x` on strings "
        "containing `%` is over-approximated (pseudo-outcome fmt); operations on an unresolved DataPath object are "
        "`unmodelled` (skipped and counted).")

CLAIMS = {
    "C01": ("43 theorems (ValidaProofs/C01.lean): every callable generated from valida/callables.py returns a bool or raises an "
            "exception contained in the except-tuple generated from Condition._filter; one flag triple per item; the partition "
            "identities; and the documented meaning (ValidaSpec/Meaning.lean) of the comparisons incl. range, divisibility, key-set, "
            "counting and items_contain callables. Tied to the source by regenerating ValidaGen on every run and by the differential "
            "run (implementation vs model) plus an independent Python oracle of the documented meaning as failing-input search.",
            "DESIGN.md section 7 C01"),
    "C02": ("17 theorems (ValidaProofs/C02.lean, C02Spec.lean, Stateless.lean): `C02_conditions_write_nothing` - no function of conditions.py (constructors, flatten, filter, the operators) has a write that outlives the call, decided against the writers table regenerated from the source; `C02_spec_list_pointwise` - a spec list {op: [s1..sn]} whose items parse to non-null conditions parses to a condition whose filter result is, item by item, the left fold of op over the operands' results; pointwise Boolean combination at any depth, null identity, key/index mixing refused, "
            "no tree aborts; object level: Heap.construct under type.__call__ never writes an existing object, keeps the heap acyclic and "
            "every older object's denotation, for every history (induction over the operation list); the __init__ guard is read from the "
            "source. Differential run over trees and object histories (identity-aware).",
            "DESIGN.md section 7 C02"),
    "C03": ("16 theorems (ValidaProofs/C03.lean, C03Entry.lean): entry points - a path bound to a truthy document resolves in it whatever the argument, a falsy bound document falls back to the argument, no document at all is a ValueError; the level-by-level frontier walk of DataPath.get_data with its two parallel lists equals "
            "the depth-first part-by-part walk (ValidaSpec/Walk.lean) for every path length and fan-out (induction over the parts, "
            "generalised over the frontier), the lock-step index never fails, inapplicable parts match nothing, a step raises nothing, "
            "primitive parts match by key/index equality. The except-tuple of get_data is generated from the source. Differential run "
            "through all entry points plus an independent Python reference walk.", "DESIGN.md section 7 C03"),
    "C04": ("14 theorems (ValidaProofs/C04.lean, C04Modifiers.lean): headline `C04_get_data_modifiers` - get_data(return_paths=True) with ANY datum and multiplicity modifier is the depth-first walk, the datum modifier applied to each node, each value paired with the path of that node, then the multiplicity modifier on the pairs; `C04_first_last_pairing` (first() / last() return the value with the path of the node it was computed from) and `C04_pairs_truthful` (on well-formed documents every reported path, looked up in the document, gives the node whose datum the value is); every (value, path) of the walk indexes the document to that value, paths pairwise "
            "distinct, same values with and without paths, datum / multiplicity modifiers by definition, both application orders "
            "commute, multiplicity refused on concrete paths. Differential run over every datum x multiplicity modifier in both orders.",
            "DESIGN.md section 7 C04"),
    "C05": ("6 theorems (ValidaProofs/C05.lean, C05Walk.lean). Headline `C05_valid_iff_every_selected_node_satisfies`: for every rule in "
            "the domain and every document, tested iff the reference walk selects a node, valid iff every selected node satisfies the "
            "condition, and the failures are exactly the failing nodes, in walk order, each with its walk path and a reason. Also: filtering the selection with paths equals filtering the plain values for every tree "
            "shape (paths extracted once, at the left-most leaf), a false item always has a reason, untested/valid when nothing is "
            "selected, the verdict and the exact failure list. Differential run of Rule.test plus an independent reference verdict.",
            "DESIGN.md section 7 C05"),
    "C06": ("13 theorems (ValidaProofs/C06.lean, C06Report.lean): aggregates, stable sort by path length (sort key read from the source), "
            "cast-free rules judged independently, permutation invariance of validity / failure count / tested count; the textual report "
            "is modelled with its literal text regenerated from the source (ValidaGen/ReportFmt): it exists for every validation that "
            "returned, is the one-line form when valid, starts with the failure and tested counts otherwise, names every failure of every "
            "rule test (path and value as repr prints them), has one numbered section per invalid rule and at least one reason line per "
            "failure. Differential run incl. the whole report text and repr() at primitive level.", "DESIGN.md section 7 C06"),
    "C07": ("7 theorems (ValidaProofs/C07.lean, C07Casts.lean). Headline `C07_validate_total`: for every schema of modifier-free paths, "
            "value-kind literal-argument conditions and casts declared from `str`, and every well-formed document (hashable, pairwise "
            "unequal mapping keys), `validate` raises nothing - casts included: the write-back into the working copy cannot fail because "
            "the copy keeps the document's shape (invariant `Rel`). Also: the walk, the selection, a rule test and a declared cast raise "
            "nothing (except-tuple of Rule.test generated from the source). Differential run and a direct never-raises predicate on "
            "type-hostile documents.", "DESIGN.md section 7 C07"),
    "C15": ("13 theorems (ValidaProofs/C15.lean, C07Casts.lean). `C15_cast_selection_in_document`: the nodes a rule casts are those its path selects in the document it was given, whatever earlier rules wrote into the shared copy (from the generated flag castSelectsInDocument). Headline `C15_cast_data_is_document_with_casts`: every node of the "
            "document is found at the same path in the cast data, unchanged unless it is a string, and then either unchanged or the result of "
            "one of the declared casts on that string; with no casts the cast data equals the document. Also: cast tables of the source, cast_string_to_bool, uncastable types untouched, a failing cast "
            "leaves the node, the rule is judged on the copy, one-level write semantics, nothing castable leaves the copy unchanged, cast data "
            "is the copy after all rules. The model is purely functional: that the caller's document is untouched is checked on the "
            "implementation (C08). Differential run over castable/uncastable strings under keys of every type.",
            "DESIGN.md section 7 C15"),
    "C08": ("13 theorems (ValidaProofs/C08.lean, C08Threads.lean, Stateless.lean): `C08_only_known_writers` - the functions of the library with a write that can outlive the call (regenerated from the source: attribute / item stores on parameters or non-local objects, mutating calls on module-level objects, global, setattr, cache-like decorators) are exactly the eight the model accounts for; headline `C08_interleaving_same_results` / `C08_interleaving_callers_cells` / "
            "`C08_schedule_independent`: any number of validations, each the program `allocate the copy, then the cast write-backs`, interleaved "
            "in ANY schedule over one store, never write a cell the caller had, and every validation's working copy ends up denoting exactly the "
            "value it denotes when run alone. Also: documents as a store of cells – validation works on a deep copy (read from the source) "
            "whose cells are all fresh, a write through the copy's root only rewrites cells reachable from it, hence for every sequence of "
            "cast write-backs the caller's cells are untouched; conditions as objects – no construction during any history of calls writes "
            "an existing condition (C02); repeatability by purity of the model. The interpreter itself is not modelled (allocation and write "
            "actions are the atomic steps of the schedule theorem). Identity-aware snapshots of documents, rules, paths, parts and conditions after every "
            "call of generated histories on the implementation.", "DESIGN.md section 7 C08"),
    "C09": ("18 theorems (ValidaProofs/C09.lean, C09Spec.lean, Stateless.lean): `C09_parsing_keeps_no_state` - no function of the parsers' modules writes into a module-level object, an argument or a class (what a spec parses to cannot depend on the specs parsed before); headline `C09_spec_is_dsl` (C09Spec.lean): for every class, every constructor of the generated tables (aliases included), every spelling of the key (any letter case; type/dtype, len/length, in/in_) and every argument form the signature admits (scalar; list, tuple or mapping for several parameters; list for *args; mapping for **kwargs; type names for types), the spec parses to exactly the leaf the DSL call builds; `C09_spec_tree`: operator lists parse to the DSL-built tree. Also: the constructor tables generated from GeneralCallables / MapCallables bind correctly "
            "against the signatures generated from callables.py (what not_in_range violated), alias and type-name tables, null spec, and/or/xor "
            "fold, case-insensitivity of the key, representative spec = DSL rows per signature branch. Every (class, constructor) pair and "
            "spelling is exercised differentially (parser model vs implementation, constructor table vs DSL objects).",
            "DESIGN.md section 7 C09"),
    "C10": ("22 theorems (ValidaProofs/C10.lean, C10Spec.lean): headline `C10_part_spec_is_api`: for every part kind, a mapping spec with the type, at most one key, one index and one value entry (long form or dotted shorthand) and a label, in ANY order of its entries, parses to the part the constructor builds from the same conditions (identical up to the order of the two operands of the top `&`; `==` whenever the API part equals itself); `C10_path_spec_is_api` / `C10_path_spec_suffixes_is_api` lift this to lists of part specs and to the modifier suffixes, `C10_rule_spec_is_api` to rule specs. With three or more components equality is false (D26, kernel-checked example). Also: bare parts, long form = dotted shorthand, key/index equality specs equal the API parts, "
            "primitive part specs = DataPath(*prims), mapping parts make the path non-concrete, suffix tokens = modifier methods in both orders "
            "with aliases, path strings, rule fields and casts, doc normalisation. YAML text is loaded by ruamel (a parameter) and fed to the "
            "same parser in the differential run.", "DESIGN.md section 7 C10"),
    "C11": ("15 theorems (ValidaProofs/C11.lean, C11Round.lean): headline `C11_leaf_roundtrip` / `_types` (C11Round.lean): every DSL condition with scalar literal arguments (named types for the dtype classes and instance tests), for every class and constructor of the generated tables, is written and read back as exactly the same condition; `C11_tree_roundtrip` lifts this to well-formed trees. Also: serialiser branch (callable signature) and parser branch (constructor signature) agree for "
            "every constructor, single parameters are stored by keyword, type names invert, every emitted key parses back to the same class "
            "and callable, null / combination / scalar-leaf / representative-row round trips. Known findings D10 (DataPath argument emitted "
            "as an object) and D11 (path-like literal mapping not escaped) are listed, not repaired.", "DESIGN.md section 7 C11"),
    "C12": ("6 theorems (ValidaProofs/C12.lean): to_part_specs refuses modifiers / bound data, whatever it emits describes part by part an "
            "equal part (plain key / index rebuilt to exactly that part, or a bare part spec), refusal examples, round trip through "
            "from_part_specs with pairwise-equal parts, plain-key paths always serialise.", "DESIGN.md section 7 C12"),
    "C13": ("31 theorems (ValidaProofs/C13.lean, C13Schema.lean, C13Behave.lean, C13FloatText.lean): `C13_float_text_round_trip` - the text `repr` writes for any double in fixed notation (what a YAML/JSON file holds) is read back by the float parser as exactly the same double, via `C13_float_digits_read_back` (the shortest-digits search only returns digit strings that round to the double, carry case included); `C13_schema_roundtrip_same_validation` - the rebuilt schema validates every document exactly as the original (verdict, failure and tested counts, cast data, every rule test; `validate rs' doc = validate rs doc`), `C13_roundtrip_same_test` for single rules, `C13_roundtrip_path_selection`; headline `C13_schema_roundtrip` (C13Schema.lean): a sorted schema whose rules have round-tripping conditions (C11), serialisable paths built by the constructor (C12) and casts from the library's table is written and parsed back to an equal schema (`schemaEq`), casts included; `C13_rule_roundtrip_eq` for single rules. Also: cast tables invert, shape of a serialised rule, cast round trip for both declared casts, "
            "rule round trip from the condition and path round trips, re-sorting a sorted rule list is the identity.",
            "DESIGN.md section 7 C13"),
    "C14": ("27 theorems (ValidaProofs/C14.lean, C14Behave.lean, C14Paths.lean, Stateless.lean): `C14_validate_writes_no_schema_state` - use does not change what a schema is equal to (validate writes no attribute; add_schema is the only writer of schema.py); lifted to parts, paths and rules (`C14_path_same_selection`: the same paths select the same nodes with the same concrete paths through every entry point, and compare equal; `C14_rule_same_verdict`: the same rules give the same rule test on every document); headline `C14_same_behaviour` / `C14_same_is_equal` / `C14_same_equiv`: conditions that are the same up to the order of the operands of any combination and the order of the keyword arguments of any single condition (identical arguments) compare equal AND give the same booleans, error flags, stripped data and paths on all data, with and without paths (guard `filterUnpacksValuesOnly = true` read from the source; the attempt to prove this found defect D32). Also: condition / part / path / rule equality is reflexive, symmetric and transitive wherever "
            "Python == is an equivalence on the stored values (proved for hashable values) and keyword names are distinct (as in every real "
            "object; counterexamples without that hypothesis are kernel-checked), commuted operands compare equal and filter identically, "
            "sensitivity to class / callable / operator / kind / list and map conditions. Known finding D16 (numerically equal arguments of "
            "different type compare equal but behave differently) is listed.", "DESIGN.md section 7 C14"),
    "C16": ("6 theorems (ValidaProofs/C16.lean): the five places that rewrote the caller's structure work on copies (flags derived from the "
            "source by the translator), un-escaping and pop are functional, a re-parse gives an equal object, the outcome of a successful "
            "parse does not depend on fuel. The no-mutation half is decided on the implementation by type-exact identity-aware snapshots.",
            "DESIGN.md section 7 C16"),
    "C17": ("8 theorems (ValidaProofs/C17.lean): resolution of path arguments against the source document, substituting the selected values "
            "gives the same resolved condition and rule test in every leaf at any depth, absent paths resolve to None / [], a resolution error "
            "fails the item (except-tuple generated from the source), escaped keys are literal, un-escaped ones are paths. Known finding D18 "
            "(paths nested inside list / mapping arguments are never resolved) is listed. The harness's expected values come from an "
            "independent reference walk.", "DESIGN.md section 7 C17"),
    "C18": ("12 theorems (ValidaProofs/C18.lean, C05Walk.lean, Stateless.lean). `C18_validate_writes_no_schema_state`: an addition takes effect whatever was validated before it (validate keeps nothing on the schema). Headline `C18_rerooted_rule_judges_subdocument`: a re-rooted rule judges "
            "the whole document exactly as the original rule judges the sub-document at the root (same tested / valid / failing values, "
            "paths prefixed), and is untested and valid when the root is absent. Also: add_schema builds new rules (read from the source), the extended rule list is the stable "
            "sort of S plus the re-rooted rules, additions are independent, walking a concatenated path = walking the root then the rest "
            "with prefixed concrete paths, cast-free judgement counts add up.", "DESIGN.md section 7 C18"),
    "C19": ("16 theorems (ValidaProofs/C19.lean): for EVERY structure handed to the condition / path / part-list / part / rule parsers the "
            "outcome is acceptance or one of the allowed spec errors (mutual induction on fuel over the five parsers; guards read from the "
            "source), KeyError only for a missing path / condition, plus ten families of definite errors rejected.",
            "DESIGN.md section 7 C19"),
    "C20": ("43 theorems (ValidaProofs/C20.lean, C20TypeFmt.lean, C20Tree.lean): headline `C20_tree` - for a prefix-closed schema with one rule per path the flat tree is produced without error, every rule appears exactly once at its own path with its display path, every node's parent is -1 or an earlier node that is its path prefix, the nested form has the same nodes, and a key node is required / optional / unflagged exactly according to the always-applicable required_keys / allowed_keys conditions that name it (`C20_tree_required_iff`, without any hypothesis on the schema); `C20_tree_total_iff` gives the exact condition for totality; sub-tree roots (`C20_subtree_*`). the formatter of type-like conditions (model Valida.TypeFmt) returns a text "
            "for every non-empty list of type / length / membership conditions of the domain, names the library's types, joins with ', '; parents precede and are path prefixes, totality for prefix-closed keys, each rule's node "
            "carries it, keys unique, a key named by an always-applicable required_keys is flagged required whatever else names it, conditions "
            "under or / xor flag nothing, flat and nested forms have the same nodes; HTML: html.escape leaves no < > quote, the back-tick "
            "scanner emits balanced code tags, every rendering is well-formed (Dyck) and schema text only occurs in escaped tokens. The tree "
            "and the exact HTML string are compared with the implementation; type texts and str() of parts are inputs.",
            "DESIGN.md section 7 C20"),
}


def main():
    props = [json.loads(l) for l in open(os.path.join(VERIF, "properties.jsonl"))]
    checks = []
    na = []
    reasons = {}
    rp = os.path.join(VERIF, "tools", "not_applicable_reasons.json")
    if os.path.exists(rp):
        reasons = json.load(open(rp))
    for p in props:
        pid = p["id"]
        if pid in CLAIMS:
            text, ref = CLAIMS[pid]
            checks.append({
                "property_id": pid,
                "quick_cmd": f"./vcheck {pid} --tier quick",
                "thorough_cmd": f"./vcheck {pid} --tier thorough",
                "evidence_file": f"/verif/evidence/{pid}.json",
                "replay_cmd_template": "/venv/bin/python /verif/tools/replay.py {path}",
                "engine": "lean4-proof+correspondence",
                "level_claimed": {"category": "proof", "text": text, "design_ref": ref},
                "level_note": NOTE,
                "technique": "Lean 4 theorems about an executable model regenerated from / differentially tied to the source",
            })
        else:
            na.append({"property_id": pid, "reason": reasons.get(pid, "check not built yet (build in progress; see DESIGN.md section 7)")})
    m = {
        "version": 1,
        "setup_cmd": "./setup.sh",
        "hooks": {"guard": "VALIDA_VERIF", "enable": "no source hook is used; checks import /repo's working tree in-process",
                  "baseline_off_cmd": "cd /repo && /venv/bin/python -m pytest -q -p no:cacheprovider", "source_commits": [],
                  "add_only": True},
        "engines": [{"name": "lean4-proof+correspondence", "path": "/verif/vcheck",
                     "serves_properties": sorted(CLAIMS),
                     "kind_free_text": "Lean 4 model + theorems (lean/), translator tools/extract.py, differential harness tools/harness"}],
        "checks": checks,
        "not_applicable": na,
        "notes": "Lean 4 proof + correspondence framework; see DESIGN.md",
    }
    with open(os.path.join(VERIF, "MANIFEST.json"), "w") as fh:
        json.dump(m, fh, indent=1)
    print(f"MANIFEST: {len(checks)} checks, {len(na)} not_applicable")


if __name__ == "__main__":
    main()
