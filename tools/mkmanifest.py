#!/usr/bin/env python3
"""Regenerate MANIFEST.json from the registry below (claimed checks) and properties.jsonl (the rest → not_applicable)."""
import json
import os

VERIF = os.path.dirname(os.path.dirname(os.path.abspath(__file__)))

NOTE = ("Trusted: Lean 4.33 kernel (axioms propext, Classical.choice, Quot.sound only; no native_decide/bv_decide/sorry), "
        "tools/extract.py (source -> ValidaGen), the primitive semantics lean/Valida/Py (validated differentially), the "
        "hand-written control-flow model lean/Valida (validated by the correspondence run), the harness generators. "
        "Modelled, not verified: CPython primitives on the JSON/YAML value domain; printf-style `str % x` on strings "
        "containing `%` is over-approximated (pseudo-outcome fmt); operations on an unresolved DataPath object are "
        "`unmodelled` (skipped and counted).")

CLAIMS = {
    "C01": ("43 theorems (ValidaProofs/C01.lean): every callable generated from valida/callables.py returns a bool or raises an "
            "exception contained in the except-tuple generated from Condition._filter; one flag triple per item; the partition "
            "identities; and the documented meaning (ValidaSpec/Meaning.lean) of the comparisons incl. range, divisibility, key-set, "
            "counting and items_contain callables. Tied to the source by regenerating ValidaGen on every run and by the differential "
            "run (implementation vs model) plus an independent Python oracle of the documented meaning as failing-input search.",
            "DESIGN.md section 7 C01"),
    "C02": ("15 theorems (ValidaProofs/C02.lean): pointwise Boolean combination at any depth, null identity, key/index mixing refused, "
            "no tree aborts; object level: Heap.construct under type.__call__ never writes an existing object, keeps the heap acyclic and "
            "every older object's denotation, for every history (induction over the operation list); the __init__ guard is read from the "
            "source. Differential run over trees and object histories (identity-aware).",
            "DESIGN.md section 7 C02"),
    "C03": ("13 theorems (ValidaProofs/C03.lean): the level-by-level frontier walk of DataPath.get_data with its two parallel lists equals "
            "the depth-first part-by-part walk (ValidaSpec/Walk.lean) for every path length and fan-out (induction over the parts, "
            "generalised over the frontier), the lock-step index never fails, inapplicable parts match nothing, a step raises nothing, "
            "primitive parts match by key/index equality. The except-tuple of get_data is generated from the source. Differential run "
            "through all entry points plus an independent Python reference walk.", "DESIGN.md section 7 C03"),
    "C04": ("11 theorems (ValidaProofs/C04.lean): every (value, path) of the walk indexes the document to that value, paths pairwise "
            "distinct, same values with and without paths, datum / multiplicity modifiers by definition, both application orders "
            "commute, multiplicity refused on concrete paths. Differential run over every datum x multiplicity modifier in both orders.",
            "DESIGN.md section 7 C04"),
    "C05": ("5 theorems (ValidaProofs/C05.lean): filtering the selection with paths equals filtering the plain values for every tree "
            "shape (paths extracted once, at the left-most leaf), a false item always has a reason, untested/valid when nothing is "
            "selected, the verdict and the exact failure list. Differential run of Rule.test plus an independent reference verdict.",
            "DESIGN.md section 7 C05"),
    "C06": ("6 theorems (ValidaProofs/C06.lean): aggregates, stable sort by path length (sort key read from the source), cast-free rules "
            "judged independently, permutation invariance of validity / failure count / tested count. The textual report is checked on the "
            "implementation only (always a str naming every failing path).", "DESIGN.md section 7 C06"),
    "C07": ("6 theorems (ValidaProofs/C07.lean): for modifier-free paths and value-kind literal-argument conditions, the walk, the "
            "selection, a rule test and a whole cast-free validation raise nothing whatever the document; a declared cast raises nothing "
            "(except-tuple of Rule.test generated from the source). PARTIAL for schemas with casts: the write-back `setAt` is shown not to "
            "fail only by the differential run and the direct never-raises predicate on type-hostile documents, not by a theorem.",
            "DESIGN.md section 7 C07"),
    "C15": ("10 theorems (ValidaProofs/C15.lean): cast tables of the source, cast_string_to_bool, uncastable types untouched, a failing cast "
            "leaves the node, the rule is judged on the copy, one-level write semantics, nothing castable leaves the copy unchanged, cast data "
            "is the copy after all rules. The model is purely functional: that the caller's document is untouched is checked on the "
            "implementation (C08). Differential run over castable/uncastable strings under keys of every type.",
            "DESIGN.md section 7 C15"),
}


def main():
    props = [json.loads(l) for l in open(os.path.join(VERIF, "properties.jsonl"))]
    checks = []
    na = []
    reasons = {}
    rp = os.path.join(VERIF, "tools", "not_applicable_reasons.json")
    if os.path.exists(rp):
        reasons = json.load(open(rp))
    for p in props:
        pid = p["id"]
        if pid in CLAIMS:
            text, ref = CLAIMS[pid]
            checks.append({
                "property_id": pid,
                "quick_cmd": f"./vcheck {pid} --tier quick",
                "thorough_cmd": f"./vcheck {pid} --tier thorough",
                "evidence_file": f"/verif/evidence/{pid}.json",
                "replay_cmd_template": "cat {path}",
                "engine": "lean4-proof+correspondence",
                "level_claimed": {"category": "proof", "text": text, "design_ref": ref},
                "level_note": NOTE,
                "technique": "Lean 4 theorems about an executable model regenerated from / differentially tied to the source",
            })
        else:
            na.append({"property_id": pid, "reason": reasons.get(pid, "check not built yet (build in progress; see DESIGN.md section 7)")})
    m = {
        "version": 1,
        "setup_cmd": "./setup.sh",
        "hooks": {"guard": "VALIDA_VERIF", "enable": "no source hook is used; checks import /repo's working tree in-process",
                  "baseline_off_cmd": "cd /repo && /venv/bin/python -m pytest -q -p no:cacheprovider", "source_commits": [],
                  "add_only": True},
        "engines": [{"name": "lean4-proof+correspondence", "path": "/verif/vcheck",
                     "serves_properties": sorted(CLAIMS),
                     "kind_free_text": "Lean 4 model + theorems (lean/), translator tools/extract.py, differential harness tools/harness"}],
        "checks": checks,
        "not_applicable": na,
        "notes": "Lean 4 proof + correspondence framework; see DESIGN.md",
    }
    with open(os.path.join(VERIF, "MANIFEST.json"), "w") as fh:
        json.dump(m, fh, indent=1)
    print(f"MANIFEST: {len(checks)} checks, {len(na)} not_applicable")


if __name__ == "__main__":
    main()
