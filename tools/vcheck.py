#!/venv/bin/python
"""vcheck – decide one property:  ./vcheck Cxx [--tier quick|thorough]

 1. extract    regenerate lean/ValidaGen/*.lean from /repo's working tree (tools/extract.py)
 2. build      lake build ValidaProofs.Cxx driver   (the kernel re-checks the theorems against what the code says now)
 3. audit      forbidden tokens; axioms of every property theorem (tools/Audit.lean); thorough: leanchecker
 4. harness    corpus + generated cases: implementation vs model (K), direct property predicates (M)
 5. verdict    DESIGN.md §5; evidence/Cxx.json; exit 0 / 1 (VIOLATION line) / 2 (infrastructure)
"""
import argparse
import fcntl
import importlib
import json
import os
import random
import re
import subprocess
import sys
import time
import traceback

HERE = os.path.dirname(os.path.abspath(__file__))
VERIF = os.path.dirname(HERE)
LEAN = os.path.join(VERIF, "lean")
sys.path.insert(0, os.path.join(HERE, "harness"))
sys.path.insert(0, "/repo")

ALLOWED_AXIOMS = {"propext", "Classical.choice", "Quot.sound"}
FORBIDDEN = re.compile(r"\b(sorry|admit|native_decide|bv_decide|implemented_by|unsafe)\b|^\s*axiom\s|maxHeartbeats\s+0\b")

TRUSTED_BASE = [
    "Lean 4.33.0 kernel (thorough tier: re-checked by leanchecker); axioms propext, Classical.choice, Quot.sound only",
    "tools/extract.py: the generated Lean (ValidaGen) means what the Python source it read means",
    "lean/Valida/Py/*.lean: CPython 3.12 primitive semantics on the JSON/YAML value domain (validated differentially, not proved)",
    "hand-written model lean/Valida/*.lean of the control flow (validated by the correspondence run of this check)",
    "tools/harness: generators and canonicalisation of observables; what is not generated is not seen by the correspondence",
    "copy.deepcopy / ruamel.yaml / inspect.signature / repr treated as parameters (DESIGN.md section 6)",
]

# property registry: harness module, proof modules, theorem prefix, cases per tier
PROPS = {}


def register(pid, harness, lean_modules, quick_n, thorough_n, rule):
    PROPS[pid] = dict(harness=harness, lean=lean_modules, quick=quick_n, thorough=thorough_n, rule=rule)


register("C01", "props.c01", ["ValidaProofs.C01"], 2500, 60000,
         "one case = one DSL-built leaf condition (class x constructor x arguments, mostly of the expected kind, 12% of any kind) "
         "filtered over one generated document; distinct = distinct (class, callable, outcome kind) triples seen, outcome kind in "
         "{some item true, callable false, callable error, pre-processor error}; non-trivial = the result is not constant over the document")
register("C02", "props.c02", ["ValidaProofs.C02", "ValidaProofs.C02Spec", "ValidaProofs.Stateless"], 1500, 40000,
         "60% condition trees (depth<=3 quick / <=5 thorough; value-kind mixed with key- or index-kind; null operands in every "
         "position) filtered over a generated document, 40% object histories (2-9 constructions over shared operands, by operator "
         "and by class call, null operands, same-operator nesting); distinct = (depth, kinds, operators, some-true) resp. "
         "(#constructions, shared?, refused?) tuples; non-trivial = result not constant / at least two constructions")
register("C03", "props.c03", ["ValidaProofs.C03", "ValidaProofs.C03Entry"], 1500, 40000,
         "one case = a path of 0-4 (thorough 0-6) parts mixing primitive parts and map/list/map-or-list parts with key/index/value "
         "condition trees and labels, resolved on a document grown along the path (65%) or random (35%), through all entry points; "
         "distinct = (length, concrete?, none/one/many selected, modifiers) tuples; non-trivial = the selection is non-empty")
register("C04", "props.c04", ["ValidaProofs.C04", "ValidaProofs.C04Modifiers"], 1500, 40000,
         "as C03 plus a random datum modifier x multiplicity modifier applied in a random order; distinct = (length, concrete?, "
         "none/one/many, datum modifier, multiplicity modifier); non-trivial = the selection is non-empty")
register("C05", "props.c05", ["ValidaProofs.C05", "ValidaProofs.C05Walk"], 1500, 40000,
         "one case = a rule (path of 0-3 parts, value-kind condition tree of depth<=2, no cast) tested on a document grown along "
         "its path; distinct = (#parts, tested, valid, min(#failures,3), cast) tuples; non-trivial = tested and not valid")
register("C06", "props.c06", ["ValidaProofs.C06", "ValidaProofs.C06Report"], 1000, 25000,
         "one case = a cast-free schema of 0-5 (thorough 0-8) generated rules validated on a document grown along one rule's path, "
         "and the same rules in a seeded permutation; distinct = (#rules, valid, min(#failures,3), min(#tested,3)); "
         "non-trivial = at least two rules of which some but not all are valid")
register("C07", "props.c07", ["ValidaProofs.C07", "ValidaProofs.C07Casts"], 1000, 25000,
         "as C06 with 40% of the rules declaring str->bool / str->int casts, callable arguments of the expected kinds, and half of "
         "the documents drawn independently of the rules (type-hostile: strings where numbers are expected, None, empty containers, "
         "uncastable strings, nodes inside lists); distinct as C06 plus cast?; non-trivial as C06")
register("C15", "props.c15", ["ValidaProofs.C15", "ValidaProofs.C07Casts"], 1000, 25000,
         "half schema validations with 80% cast rules, half single rule tests with 90% cast rules, over documents holding castable and "
         "uncastable strings under keys of every type and list indices; distinct as C05/C06 tuples; non-trivial as there")
register("C09", "props.c09", ["ValidaProofs.C09", "ValidaProofs.C09Spec", "ValidaProofs.Stateless"], 1500, 40000,
         "one case = a DSL term (every class x constructor pair twice, then random leaves and trees of depth<=3) and one spelling of "
         "its spec (letter case, type/dtype len/length in/in_ eq/equal_to aliases, list vs mapping arguments, type names / map / type "
         "objects); distinct = (class, callable) pairs; non-trivial = the term has at least one non-null leaf")
register("C10", "props.c10", ["ValidaProofs.C10", "ValidaProofs.C10Spec"], 1200, 30000,
         "30% part specs (long / shorthand forms, labels), 25% path specs with datum / multiplicity suffixes in both orders, 10% path "
         "strings, 35% rule specs (cast, every doc shape) also pushed through YAML text; each compared with the API-built object "
         "(equality and behaviour on documents grown along the path); distinct = shape tuples; non-trivial = accepted spec")
register("C11", "props.c11", ["ValidaProofs.C11", "ValidaProofs.C11Round"], 1500, 40000,
         "one case = a condition tree of the fragment (all callables on value/key/index, length with numeric comparisons, type with "
         "equality / membership; JSON-like, type and data-path arguments incl. literal mappings with path-like keys) pushed through "
         "to_json_like, json.dumps/loads, from_json_like; distinct = (class, callable) pairs; non-trivial = every case")
register("C12", "props.c12", ["ValidaProofs.C12"], 1200, 30000,
         "one case = a path (45% of the serialisable shape: primitives and bare parts; 55% arbitrary parts, labels, modifiers) "
         "serialised, rebuilt and compared on three documents; distinct = (emitted/refused, length, concrete, has mapping spec); "
         "non-trivial = specs were emitted")
register("C13", "props.c13", ["ValidaProofs.C13", "ValidaProofs.C13Schema", "ValidaProofs.C13Behave", "ValidaProofs.C13FloatText"], 600, 15000,
         "one case = a schema of 0-4 rules in the serialisable fragment (C11 conditions, C12 paths, optional str->int / str->bool cast) "
         "through to_json_like, JSON text, from_json_like, compared by equality and by validating three documents; distinct = "
         "(#rules, casts?, longest path); non-trivial = at least one rule")
register("C14", "props.c14", ["ValidaProofs.C14", "ValidaProofs.C14Behave", "ValidaProofs.C14Paths", "ValidaProofs.Stateless"], 2000, 50000,
         "pairs (x, y) with y = x rebuilt, commuted or with one atom changed (argument, callable, class, operator, key, index, part "
         "kind, label, cast) for conditions, paths and rules, plus transitivity triples; distinct = (level, mutation kind); "
         "non-trivial = == returned")
register("C16", "props.c16", ["ValidaProofs.C16"], 1200, 30000,
         "one case = a well-formed condition / part / path / part-list / rule / schema spec (data-path arguments, escaped keys, "
         "shorthand forms, casts, doc blocks) parsed three times with a type-exact identity-aware snapshot before and after every "
         "parse; distinct = (parser, outcome); non-trivial = the spec parses")
register("C17", "props.c17", ["ValidaProofs.C17"], 1500, 40000,
         "one case = a rule whose condition tree has one or more path-valued arguments (positional, keyword, inside list / mapping "
         "arguments; concrete and not; with modifiers) tested on a mapping document and compared with the same rule with the "
         "resolved values substituted; plus escaped-key spellings; distinct = (valid, tested, #leaves); non-trivial = tested")
register("C19", "props.c19", ["ValidaProofs.C19"], 2500, 60000,
         "45% one definite error injected into a well-formed condition / part / path / rule spec (unknown datum kind, pre-processor, "
         "callable, type name, suffix, part type, cast type, part argument; wrong arity / argument shape; several keys; missing "
         "field), 55% 1-3 random structural mutations; distinct = (parser, injected error class, outcome); non-trivial = rejected")
register("C08", "props.c08", ["ValidaProofs.C08", "ValidaProofs.C08Threads", "ValidaProofs.Stateless"], 600, 12000,
         "one case = a history of 3-8 (thorough 4-16) validate / test / get_data / filter calls over one shared schema (1-4 rules, "
         "40% casts, map-or-list parts with list / map conditions) and 1-3 shared documents, with identity-aware snapshots of "
         "every document, rule, path, part and condition after every call and each call repeated on freshly built objects; "
         "distinct = (#rules, #docs, #calls, casts?); non-trivial = at least three calls")
register("C18", "props.c18", ["ValidaProofs.C18", "ValidaProofs.C05Walk", "ValidaProofs.Stateless"], 800, 20000,
         "one case = schemas S (0-3 rules) and T (1-3 rules), T added to S under 1-3 distinct concrete roots, then a document with "
         "sub-documents at the roots validated with the extended S and compared with S plus T-at-root; T snapshot (identity-aware) "
         "after every addition; distinct = (#S rules, #T rules, #roots, valid); non-trivial = some rule tested")
register("C20", "props.c20", ["ValidaProofs.C20", "ValidaProofs.C20TypeFmt", "ValidaProofs.C20Tree"], 600, 15000,
         "one case = a prefix-closed schema (depth<=3, string / integer keys incl. HTML metacharacters, bare map / list parts, "
         "type / length / membership / allowed / required-keys conditions combined with and (sometimes or / xor), doc blocks with "
         "HTML metacharacters and back-ticks), a sub-tree root (40%), an anchor root (50%): flat and nested tree compared with the "
         "model node by node, the HTML compared character by character and parsed with html.parser; distinct = (#rules, root "
         "depth, anchor?, required seen?, hoisted type seen?); non-trivial = more than one node")


def log(msg):
    print(msg, flush=True)


class Infra(Exception):
    pass


def sh(cmd, cwd=None, timeout=3600, env=None):
    p = subprocess.run(cmd, cwd=cwd, stdout=subprocess.PIPE, stderr=subprocess.STDOUT, timeout=timeout, env=env)
    return p.returncode, p.stdout.decode("utf-8", "replace")


def strip_comments(text):
    text = re.sub(r"/-.*?-/", "", text, flags=re.S)
    return "\n".join(line.split("--")[0] for line in text.splitlines())


def import_closure(modules):
    """project-local modules reachable through `import` lines from the given modules"""
    seen, todo = set(), list(modules)
    while todo:
        m = todo.pop()
        if m in seen:
            continue
        path = os.path.join(LEAN, *m.split(".")) + ".lean"
        if not os.path.exists(path):
            continue
        seen.add(m)
        for line in open(path).read().splitlines():
            mm = re.match(r"\s*(?:public\s+)?import\s+([A-Za-z0-9_.]+)", line)
            if mm:
                todo.append(mm.group(1))
    return sorted(seen)


def audit_tokens(modules):
    """forbidden tokens in every project file the property's proof modules (and the driver) depend on"""
    bad = []
    for m in import_closure(list(modules) + ["Driver"]):
        path = os.path.join(LEAN, *m.split(".")) + ".lean"
        for i, line in enumerate(strip_comments(open(path).read()).splitlines(), 1):
            if FORBIDDEN.search(line):
                bad.append(f"{os.path.relpath(path, LEAN)}:{i}: {line.strip()[:100]}")
    return bad


def build_and_audit(pid, tier):
    """returns dict(ok, extract_ok, build_ok, theorems{name:[axioms]}, problems[list of str], build_log)"""
    out = dict(ok=False, extract_ok=False, build_ok=False, theorems={}, problems=[], build_log="", driver_ok=False)
    cfg = PROPS[pid]
    os.makedirs(os.path.join(LEAN, ".lake"), exist_ok=True)
    with open(os.path.join(LEAN, ".lake", "vcheck.lock"), "w") as lock:
        fcntl.flock(lock, fcntl.LOCK_EX)
        gen_dir = os.path.join(LEAN, "ValidaGen")
        previous = {}
        for fn in sorted(os.listdir(gen_dir)) if os.path.isdir(gen_dir) else []:
            if fn.endswith(".lean"):
                previous[fn] = open(os.path.join(gen_dir, fn)).read()
        rc, txt = sh([sys.executable, os.path.join(HERE, "extract.py"), "/repo", gen_dir])
        if rc != 0:
            out["problems"].append("extractor: " + txt.strip()[-400:])
            # the generated files are left as they were (the model of the last extractable source)
        else:
            out["extract_ok"] = True
        rc, txt = sh(["lake", "build", "driver"], cwd=LEAN)
        if rc != 0 and previous:
            # the regenerated tables / callables do not fit the model any more: the tie is broken, but the
            # failing-input search still needs a driver - fall back to the previously generated files
            out["problems"].append("the model does not build with the regenerated ValidaGen: " + txt[-800:])
            out["extract_ok"] = False
            for fn, text in previous.items():
                with open(os.path.join(gen_dir, fn), "w") as fh:
                    fh.write(text)
            rc, txt = sh(["lake", "build", "driver"], cwd=LEAN)
        out["driver_ok"] = rc == 0
        if rc != 0:
            out["problems"].append("driver build failed: " + txt[-1500:])
        rc, txt = sh(["lake", "build"] + cfg["lean"], cwd=LEAN)
        out["build_log"] = txt[-6000:]
        if rc != 0:
            errs = [l for l in txt.splitlines() if l.startswith("error:")]
            out["problems"].append("lake build " + " ".join(cfg["lean"]) + " failed: " + " | ".join(errs[:8])[:1500])
        else:
            out["build_ok"] = True
    if out["build_ok"]:
        for mod in cfg["lean"]:
            rc, txt = sh(["lake", "env", "lean", "--run", "tools/Audit.lean", mod, pid + "_"], cwd=LEAN)
            if rc != 0:
                out["problems"].append(f"audit of {mod} failed: {txt[-400:]}")
                continue
            try:
                thms = json.loads(txt.strip().splitlines()[-1])
            except Exception:  # noqa: BLE001
                out["problems"].append(f"audit of {mod}: unreadable output {txt[-200:]}")
                continue
            out["theorems"].update(thms)
        for name, axs in out["theorems"].items():
            extra = [a for a in axs if a not in ALLOWED_AXIOMS]
            if extra:
                out["problems"].append(f"theorem {name} depends on {extra}")
        if not out["theorems"]:
            out["problems"].append("no property theorem found")
        bad = audit_tokens(cfg["lean"])
        if bad:
            out["problems"].append("forbidden tokens: " + "; ".join(bad[:6]))
        if tier == "thorough" and not out["problems"]:
            rc, txt = sh(["lake", "env", "leanchecker"] + cfg["lean"], cwd=LEAN, timeout=3000)
            if rc != 0:
                out["problems"].append("leanchecker: " + txt[-400:])
            out["leanchecker"] = rc == 0
    out["ok"] = out["extract_ok"] and out["build_ok"] and not out["problems"]
    return out


def load_known(pid):
    path = os.path.join(VERIF, "known_findings.json")
    if not os.path.exists(path):
        return []
    data = json.load(open(path))
    return [e for e in data.get("findings", []) if e.get("property") == pid and e.get("status", "open") == "open"]


def write_replay(pid, seed, n, payload):
    d = os.path.join(VERIF, "replays")
    os.makedirs(d, exist_ok=True)
    path = os.path.join(d, f"{pid}-{seed}-{n}.json")
    with open(path, "w") as fh:
        json.dump(payload, fh, indent=1, ensure_ascii=False, default=str)
    return path


def main():
    ap = argparse.ArgumentParser()
    ap.add_argument("pid")
    ap.add_argument("--tier", default=os.environ.get("VERIF_TIER", "quick"))
    ap.add_argument("--cases", type=int, default=None)
    args = ap.parse_args()
    pid, tier = args.pid, args.tier
    if tier not in ("quick", "thorough"):
        tier = "quick"
    seed = int(os.environ.get("VERIF_SEED", "0") or 0)
    t0 = time.time()
    if pid not in PROPS:
        log(f"unknown property {pid}")
        return 2
    cfg = PROPS[pid]
    try:
        import core
        proofs = build_and_audit(pid, tier)
        if not proofs["driver_ok"]:
            raise Infra("the model driver does not build: " + "; ".join(proofs["problems"])[:800])
        mod = importlib.import_module(cfg["harness"])
        rng = random.Random(seed * 1000003 + int(pid[1:]))
        n = args.cases or cfg[tier]
        # where the source is not the one the model was audited against, explore more deeply (never a verdict by itself)
        try:
            import fingerprints
            changed_fns = fingerprints.changed("/repo")
        except Exception:  # noqa: BLE001
            changed_fns = []
        if changed_fns and not args.cases:
            n = n * (6 if tier == "quick" else 2)
            log(f"{pid}: the source differs from the audited baseline in {len(changed_fns)} definition(s) "
                f"({', '.join(changed_fns[:4])}{' …' if len(changed_fns) > 4 else ''}): exploring {n} cases")
        res = core.Results()
        cases = mod.generate(rng, n, tier)
        # run in chunks so that memory stays flat
        for i in range(0, len(cases), 5000):
            core.run_cases(cases[i:i + 5000], res)
        known = load_known(pid)
        matcher = getattr(mod, "matches_known", lambda entry, case, name, detail: False)
        known_hits = {}
        new_direct = []
        for (c, name, detail) in res.direct:
            hit = next((e for e in known if matcher(e, c, name, detail)), None)
            if hit:
                known_hits.setdefault(hit["id"], (hit, c, name, detail))
            else:
                new_direct.append((c, name, detail))
        # divergences whose case matches a known finding are the finding seen from the model's side
        new_div = []
        for dv in res.divergences:
            c = dv[0]
            hit = next((e for e in known if matcher(e, c, "correspondence", dv[5])), None)
            if hit:
                known_hits.setdefault(hit["id"], (hit, c, "correspondence", dv[5]))
            else:
                new_div.append(dv)
        searched = 0
        if (not proofs["ok"] or new_div) and not new_direct:
            # failing-input search: the property's targeted generator with a larger budget, predicates only
            log(f"{pid}: proof or correspondence broken – searching implementation for a failing input")
            search = getattr(mod, "search", None)
            budget = 20000 if tier == "quick" else 200000
            extra = search(rng, budget, tier) if search else mod.generate(rng, budget, tier)
            searched = len(extra)
            for c in extra:
                for (name, detail) in c.direct:
                    hit = next((e for e in known if matcher(e, c, name, detail)), None)
                    if not hit:
                        new_direct.append((c, name, detail))
                if new_direct:
                    break
        violations = 0
        lines = []
        for hid, (hit, c, name, detail) in sorted(known_hits.items()):
            lines.append(f"KNOWN-FINDING: property={pid} {hit['id']}: {hit['what']}")
        if new_direct:
            c, name, detail = new_direct[0]
            path = write_replay(pid, seed, 1, {
                "property": pid, "kind": "impl-violates-property", "predicate": name, "detail": detail,
                "case": c.desc, "python": c.py, "seed": seed, "tier": tier,
                "proof_problems": proofs["problems"], "other_violating_cases": len(new_direct) - 1,
            })
            lines.append(f"VIOLATION property={pid} replay={path}")
            violations = len(new_direct)
        elif not proofs["ok"] or new_div:
            payload = {"property": pid, "seed": seed, "tier": tier, "proof_problems": proofs["problems"],
                       "build_log_tail": proofs["build_log"][-3000:], "searched_cases": searched + res.cases}
            if new_div:
                c, label, req, impl, model, reason = new_div[0]
                payload.update({"kind": "correspondence", "operation": label, "reason": reason, "case": c.desc,
                                "python": c.py, "request": req, "impl": impl, "model": model,
                                "divergent_cases": len(new_div)})
            else:
                payload["kind"] = "proof"
            path = write_replay(pid, seed, 1, payload)
            lines.append(f"VIOLATION property={pid} replay={path} no-failing-input-found")
            violations = 1
        wall = time.time() - t0
        nthm = len(proofs["theorems"])
        discharged = nthm if proofs["ok"] else sum(
            1 for axs in proofs["theorems"].values() if all(a in ALLOWED_AXIOMS for a in axs)) if proofs["build_ok"] else 0
        evidence = {
            "property_id": pid, "tier": tier, "seed": seed, "level": "proof",
            "coverage": {
                "obligations": max(nthm, 1), "discharged": discharged if nthm else 0,
                "checker_cmd": "lake build " + " ".join(cfg["lean"]) + " && lake env lean --run tools/Audit.lean "
                               + cfg["lean"][0] + f" {pid}_" + (" && lake env leanchecker " + " ".join(cfg["lean"]) if tier == "thorough" else ""),
                "trusted_base": TRUSTED_BASE,
                "theorems": {k: v for k, v in sorted(proofs["theorems"].items())},
                "proof_problems": proofs["problems"],
                "evaluations": res.cases + searched,
                "distinct_nontrivial": len(res.features),
                "rule": cfg["rule"],
                "samples": res.samples[:6] or [c.desc for c in cases[:2]],
                "correspondence_requests": res.requests,
                "correspondence_skipped_unmodelled": res.skipped,
                "correspondence_divergences": len(res.divergences),
                "direct_predicate_failures": len(res.direct),
                "known_findings_seen": sorted(known_hits),
                "failing_input_search_cases": searched,
                "counters": dict(sorted(res.counters.items())),
                "source_definitions_changed_since_audit": changed_fns[:50],
                "exhaustive": False,
            },
            "assumptions": TRUSTED_BASE,
            "wall_s": round(wall, 2),
            "violations": violations,
        }
        getattr(mod, "extend_evidence", lambda ev, res: None)(evidence, res)
        os.makedirs(os.path.join(VERIF, "evidence"), exist_ok=True)
        with open(os.path.join(VERIF, "evidence", f"{pid}.json"), "w") as fh:
            json.dump(evidence, fh, indent=1, ensure_ascii=False, default=str)
        for l in lines:
            log(l)
        log(f"{pid} {tier} seed={seed}: theorems={nthm} proofs_ok={proofs['ok']} cases={res.cases} requests={res.requests} "
            f"divergences={len(res.divergences)} direct={len(res.direct)} known={len(known_hits)} wall={wall:.1f}s")
        return 1 if violations else 0
    except Infra as e:
        log(f"INFRASTRUCTURE-ERROR {pid}: {e}")
        return 2
    except subprocess.TimeoutExpired as e:
        log(f"INFRASTRUCTURE-ERROR {pid}: timeout {e}")
        return 2
    except Exception:  # noqa: BLE001
        tb = traceback.format_exc()
        frames = traceback.extract_tb(sys.exc_info()[2])
        if frames and frames[-1].filename.startswith("/repo/"):
            # the implementation itself raised where the harness did not expect it (e.g. while building
            # objects through the public API): that is an observation about /repo, not an infrastructure failure
            path = write_replay(pid, seed, 1, {"property": pid, "kind": "implementation-raised-in-harness",
                                               "traceback": tb[-4000:], "seed": seed, "tier": tier})
            log(f"VIOLATION property={pid} replay={path} no-failing-input-found")
            return 1
        log(f"INFRASTRUCTURE-ERROR {pid}: harness crashed\n" + tb[-3000:])
        return 2


if __name__ == "__main__":
    sys.exit(main())
