#!/usr/bin/env python3
"""Translator: /repo/valida/*.py  ->  /verif/lean/ValidaGen/*.lean   (standard `ast` only).

Regenerated on every run of every check, so the theorems of ValidaProofs are re-checked against
what the source says *now*.  Deliberately dumb: a closed vocabulary of shapes, loud failure on
anything else (ExtractError).  Output is deterministic.

Generated:
  Callables.lean  the functions of valida/callables.py as a shallow embedding in `Except Exc`,
                  their signatures, and the Python-faithful argument binder / dispatcher `callFn`
  Tables.lean     the DSL constructor tables (GeneralCallables / MapCallables), aliases, class table,
                  literal lookup tables of the spec parsers, and every `except` tuple the properties
                  hinge on
  Casting.lean    valida/casting.py
"""
import ast
import json
import os
import sys


class ExtractError(Exception):
    pass


def lstr(s):
    return json.dumps(s, ensure_ascii=False)


def lean_list(items):
    return "[" + ", ".join(items) + "]"


# --------------------------------------------------------------------------------------
# callables.py
# --------------------------------------------------------------------------------------


class FnCtx:
    def __init__(self, name, params, star, starstar, siblings):
        self.name = name
        self.params = params  # all plain params incl. first
        self.star = star
        self.starstar = starstar
        self.siblings = siblings
        self.locals = set()
        self.counter = 0

    def fresh(self):
        self.counter += 1
        return f"t{self.counter}"


def is_call_to(node, fname):
    return isinstance(node, ast.Call) and isinstance(node.func, ast.Name) and node.func.id == fname


class ExprTr:
    """Translate a Python expression to (statements, atom): the statements are `let x ← …` lines of
    a `do` block in `Except Exc`, the atom is a pure Lean term of type PyVal."""

    def __init__(self, ctx):
        self.ctx = ctx

    def action(self, node):
        """Return (stmts, action) where action : R is the last computation (not yet bound)."""
        c = self.ctx
        if isinstance(node, ast.Compare):
            if len(node.ops) != 1:
                raise ExtractError(f"{c.name}: chained comparison")
            op, left, right = node.ops[0], node.left, node.comparators[0]
            if isinstance(op, (ast.In, ast.NotIn)) and is_call_to(right, "range"):
                if len(right.args) != 2 or right.keywords:
                    raise ExtractError(f"{c.name}: range() with {len(right.args)} arguments")
                s0, a0 = self.atom(left)
                s1, a1 = self.atom(right.args[0])
                s2, a2 = self.atom(right.args[1])
                fn = "Py.inRange" if isinstance(op, ast.In) else "Py.notInRange"
                # NB: Python evaluates the left operand first, then range(l, u) (which raises
                # TypeError for non-integers), then the membership test
                return s0 + s1 + s2, f"{fn} {a0} {a1} {a2}"
            if isinstance(op, ast.Eq) and is_call_to(left, "set") and is_call_to(right, "set"):
                s0, a0 = self.atom(left)
                s1, a1 = self.atom(right)
                return s0 + s1, f"Py.setEq {a0} {a1}"
            table = {
                ast.Eq: "Py.eq", ast.NotEq: "Py.ne", ast.Lt: "Py.lt", ast.Gt: "Py.gt",
                ast.LtE: "Py.le", ast.GtE: "Py.ge", ast.In: "Py.contains", ast.NotIn: "Py.notContains",
            }
            if type(op) not in table:
                raise ExtractError(f"{c.name}: comparison operator {type(op).__name__}")
            s0, a0 = self.atom(left)
            s1, a1 = self.atom(right)
            return s0 + s1, f"{table[type(op)]} {a0} {a1}"
        if isinstance(node, ast.BinOp):
            both_sets = self.is_set_expr(node.left) and self.is_set_expr(node.right)
            s0, a0 = self.atom(node.left)
            s1, a1 = self.atom(node.right)
            if isinstance(node.op, ast.Mod):
                return s0 + s1, f"Py.mod {a0} {a1}"
            if isinstance(node.op, ast.Sub):
                return s0 + s1, (f"Py.setDiff {a0} {a1}" if both_sets else f"Py.sub {a0} {a1}")
            if isinstance(node.op, ast.BitAnd) and both_sets:
                return s0 + s1, f"Py.setInter {a0} {a1}"
            raise ExtractError(f"{c.name}: binary operator {type(node.op).__name__}")
        if isinstance(node, ast.UnaryOp) and isinstance(node.op, ast.Not):
            s0, a0 = self.atom(node.operand)
            return s0, f"Py.not {a0}"
        if isinstance(node, ast.Call):
            return self.call(node)
        if isinstance(node, ast.Subscript):
            s0, a0 = self.atom(node.value)
            s1, a1 = self.atom(node.slice)
            return s0 + s1, f"Py.getItem {a0} {a1}"
        # pure atoms
        s, a = self.atom(node)
        return s, f"pure {a}"

    def is_set_expr(self, node):
        return is_call_to(node, "set")

    def call(self, node):
        c = self.ctx
        f = node.func
        if node.keywords:
            raise ExtractError(f"{c.name}: keyword arguments in a call")
        if isinstance(f, ast.Name):
            if f.id in ("any", "all", "sum"):
                if len(node.args) != 1 or not isinstance(node.args[0], ast.GeneratorExp):
                    raise ExtractError(f"{c.name}: {f.id}() of a non-generator")
                g = node.args[0]
                if len(g.generators) != 1 or g.generators[0].ifs or g.generators[0].is_async:
                    raise ExtractError(f"{c.name}: generator with several clauses or conditions")
                comp = g.generators[0]
                if not isinstance(comp.target, ast.Name):
                    raise ExtractError(f"{c.name}: generator target is not a name")
                s0, a0 = self.atom(comp.iter)
                var = comp.target.id
                c.locals.add(var)
                bs, ba = self.action(g.elt)
                c.locals.discard(var)
                body = self.block(bs, ba)
                fn = {"any": "Py.anyM", "all": "Py.allM", "sum": "Py.sumM"}[f.id]
                it = c.fresh()
                return s0 + [f"let {it} ← Py.iter {a0}"], f"{fn} {it} (fun {var} => {body})"
            if f.id == "abs":
                s0, a0 = self.atom(node.args[0])
                return s0, f"Py.abs {a0}"
            if f.id == "set":
                s0, a0 = self.atom(node.args[0])
                return s0, f"Py.set {a0}"
            if f.id == "isinstance":
                s0, a0 = self.atom(node.args[0])
                s1, a1 = self.atom(node.args[1])
                return s0 + s1, f"Py.isinstance {a0} {a1}"
            if f.id in c.siblings:
                sig = c.siblings[f.id]
                stmts, atoms = [], []
                if sig["star"] or sig["starstar"]:
                    raise ExtractError(f"{c.name}: call to variadic sibling {f.id}")
                if len(node.args) != len(sig["params"]):
                    raise ExtractError(f"{c.name}: call to {f.id} with wrong arity")
                for a in node.args:
                    s, at = self.atom(a)
                    stmts += s
                    atoms.append(at)
                return stmts, f"{f.id} " + " ".join(atoms)
            raise ExtractError(f"{c.name}: call to unknown function {f.id}")
        if isinstance(f, ast.Attribute) and f.attr == "keys" and not node.args:
            s0, a0 = self.atom(f.value)
            return s0, f"Py.keys {a0}"
        raise ExtractError(f"{c.name}: unsupported call {ast.dump(f)}")

    def atom(self, node):
        c = self.ctx
        if isinstance(node, ast.Name):
            if node.id in c.params or node.id in c.locals:
                return [], node.id
            if node.id == c.star:
                return [], f"(PyVal.tuple {node.id})"
            raise ExtractError(f"{c.name}: unknown name {node.id}")
        if isinstance(node, ast.Constant):
            v = node.value
            if v is True or v is False:
                return [], f"(PyVal.bool {'true' if v else 'false'})"
            if isinstance(v, int):
                return [], f"(PyVal.int {v})" if v >= 0 else f"(PyVal.int ({v}))"
            if isinstance(v, str):
                return [], f"(PyVal.str {lstr(v)})"
            if v is None:
                return [], "PyVal.none"
            raise ExtractError(f"{c.name}: constant {v!r}")
        s, act = self.action(node)
        t = c.fresh()
        return s + [f"let {t} ← {act}"], t

    @staticmethod
    def block(stmts, act):
        if not stmts:
            return act
        return "do " + "; ".join(stmts + [act])


def fn_signature(fd):
    a = fd.args
    if a.posonlyargs or a.kwonlyargs or a.defaults or a.kw_defaults:
        raise ExtractError(f"{fd.name}: unsupported parameter kinds")
    return {
        "params": [x.arg for x in a.args],
        "star": a.vararg.arg if a.vararg else None,
        "starstar": a.kwarg.arg if a.kwarg else None,
    }


def strip_doc(body):
    if body and isinstance(body[0], ast.Expr) and isinstance(body[0].value, ast.Constant) \
            and isinstance(body[0].value.value, str):
        return body[1:]
    return body


def exc_names(node, where):
    if node is None:
        raise ExtractError(f"{where}: bare except")
    if isinstance(node, ast.Name):
        return [node.id]
    if isinstance(node, ast.Tuple) and all(isinstance(e, ast.Name) for e in node.elts):
        return [e.id for e in node.elts]
    raise ExtractError(f"{where}: unsupported except clause")


def translate_callables(src):
    tree = ast.parse(src)
    fns = [n for n in tree.body if isinstance(n, ast.FunctionDef)]
    others = [n for n in tree.body if not isinstance(n, ast.FunctionDef)]
    for o in others:
        if not (isinstance(o, ast.Expr) and isinstance(o.value, ast.Constant)):
            raise ExtractError(f"callables.py: unexpected top-level statement {type(o).__name__}")
    sigs = {fd.name: fn_signature(fd) for fd in fns}
    out = []
    for fd in fns:
        sig = sigs[fd.name]
        ctx = FnCtx(fd.name, sig["params"], sig["star"], sig["starstar"], sigs)
        body = strip_doc(fd.body)
        lean_params = " ".join(f"({p} : PyVal)" for p in sig["params"])
        if sig["star"]:
            lean_params += f" ({sig['star']} : List PyVal)"
        if sig["starstar"]:
            lean_params += f" ({sig['starstar']} : List (String × PyVal))"
        if len(body) == 1 and isinstance(body[0], ast.Return) and body[0].value is not None:
            stmts, act = ExprTr(ctx).action(body[0].value)
            lean_body = ExprTr.block(stmts, act)
        else:
            lean_body = translate_items_loop(ctx, body)
        out.append(f"def {fd.name} {lean_params} : R :=\n  {lean_body}\n")
    return fns, sigs, out


def translate_items_loop(ctx, body):
    """for k, v in <kw>.items(): try: if <test>: return False  except E: return False ; return True"""
    def is_ret(node, val):
        return isinstance(node, ast.Return) and isinstance(node.value, ast.Constant) and node.value.value is val

    ok = (
        len(body) == 2 and isinstance(body[0], ast.For) and is_ret(body[1], True)
        and not body[0].orelse
    )
    if ok:
        loop = body[0]
        it = loop.iter
        ok = (
            isinstance(loop.target, ast.Tuple) and len(loop.target.elts) == 2
            and all(isinstance(e, ast.Name) for e in loop.target.elts)
            and isinstance(it, ast.Call) and isinstance(it.func, ast.Attribute) and it.func.attr == "items"
            and isinstance(it.func.value, ast.Name) and it.func.value.id == ctx.starstar
            and len(loop.body) == 1 and isinstance(loop.body[0], ast.Try)
        )
    if ok:
        tr = loop.body[0]
        ok = (
            not tr.orelse and not tr.finalbody and len(tr.handlers) == 1
            and len(tr.handlers[0].body) == 1 and is_ret(tr.handlers[0].body[0], False)
            and len(tr.body) == 1 and isinstance(tr.body[0], ast.If) and not tr.body[0].orelse
            and len(tr.body[0].body) == 1 and is_ret(tr.body[0].body[0], False)
        )
    if not ok:
        raise ExtractError(f"{ctx.name}: function body is not one of the recognised shapes")
    kname, vname = (e.id for e in loop.target.elts)
    caught = exc_names(tr.handlers[0].type, ctx.name)
    ctx.locals.update({vname, "kS"})
    # the key is a Python str; in the body it is used as a value
    class KeyTr(ExprTr):
        def atom(self, node):
            if isinstance(node, ast.Name) and node.id == kname:
                return [], f"(PyVal.str {kname})"
            return super().atom(node)
    stmts, act = KeyTr(ctx).action(tr.body[0].test)
    blk = ExprTr.block(stmts, act)
    return (
        f"Py.allItemsM {ctx.starstar} (caughtBy {lean_list(lstr(c) for c in caught)})\n"
        f"    (fun {kname} {vname} => {blk})"
    )


def gen_callables(repo):
    src = open(os.path.join(repo, "valida", "callables.py")).read()
    fns, sigs, defs = translate_callables(src)
    lines = [
        "-- GENERATED by tools/extract.py from valida/callables.py — do not edit",
        "import Valida.Py.Ops",
        "import Valida.Py.Bind",
        "namespace ValidaGen",
        "open Valida",
        "namespace Callables",
        "",
    ]
    lines += defs
    lines.append("end Callables\n")
    lines.append("open Callables\n")
    lines.append("/-- names of the callables, in source order -/")
    lines.append("def callableNames : List String := " + lean_list(lstr(f.name) for f in fns) + "\n")
    lines.append("/-- signature of each callable (first parameter = trial datum) -/")
    lines.append("def sigOf : String → Option Sig")
    for fd in fns:
        s = sigs[fd.name]
        lines.append(
            f"  | {lstr(fd.name)} => some ⟨{lstr(s['params'][0])}, "
            f"{lean_list(lstr(p) for p in s['params'][1:])}, "
            f"{'true' if s['star'] else 'false'}, {'true' if s['starstar'] else 'false'}⟩"
        )
    lines.append("  | _ => none\n")
    lines.append("/-- apply callable `name` to already-bound arguments -/")
    lines.append("def applyFn (name : String) (datum : PyVal) (ps : List PyVal) (star : List PyVal)")
    lines.append("    (skw : List (String × PyVal)) : R :=")
    lines.append("  match name, ps with")
    for fd in fns:
        s = sigs[fd.name]
        ps = s["params"][1:]
        pat = lean_list(ps)
        call = f"{fd.name} datum " + " ".join(ps)
        if s["star"]:
            call += " star"
        if s["starstar"]:
            call += " skw"
        lines.append(f"  | {lstr(fd.name)}, {pat} => {call.strip()}")
    lines.append("  | _, _ => .error .unmodelled\n")
    lines.append("/-- `func(trial_datum, *args, **kwargs)` with Python's argument binding -/")
    lines.append("def callFn (name : String) (datum : PyVal) (pos : List PyVal) (kw : List (String × PyVal)) : R :=")
    lines.append("  match sigOf name with")
    lines.append("  | none => .error .unmodelled")
    lines.append("  | some sig => do")
    lines.append("      let bound ← bindArgs sig pos kw")
    lines.append("      applyFn name datum bound.params bound.star bound.kw\n")
    lines.append("end ValidaGen")
    return "\n".join(lines) + "\n"


# --------------------------------------------------------------------------------------
# conditions.py: DSL constructor tables, class table, lookup tables, except clauses
# --------------------------------------------------------------------------------------


def find_class(tree, name):
    for n in tree.body:
        if isinstance(n, ast.ClassDef) and n.name == name:
            return n
    raise ExtractError(f"class {name} not found")


def find_method(cls, name):
    for n in cls.body:
        if isinstance(n, ast.FunctionDef) and n.name == name:
            return n
    raise ExtractError(f"method {cls.name}.{name} not found")


def const_to_pyval(node, where):
    """A default value: exact double encoding for floats."""
    if isinstance(node, ast.Constant):
        v = node.value
        if v is None:
            return "PyVal.none"
        if v is True or v is False:
            return f"(PyVal.bool {'true' if v else 'false'})"
        if isinstance(v, int):
            return f"(PyVal.int {v})" if v >= 0 else f"(PyVal.int ({v}))"
        if isinstance(v, float):
            num, den = v.as_integer_ratio()
            k = num * 2**1074 // den
            assert k * den == num * 2**1074
            return f"(PyVal.float {k})" if k >= 0 else f"(PyVal.float ({k}))"
        if isinstance(v, str):
            return f"(PyVal.str {lstr(v)})"
    raise ExtractError(f"{where}: unsupported default value")


def ctor_table(cls):
    """classmethods of the form `return cls(call_funcs.X, <forwards>)` plus alias assignments."""
    ctors, aliases, other = [], [], []
    for n in cls.body:
        if isinstance(n, ast.FunctionDef):
            decs = [d.id for d in n.decorator_list if isinstance(d, ast.Name)]
            if decs != ["classmethod"]:
                raise ExtractError(f"{cls.name}.{n.name}: not a plain classmethod")
            a = n.args
            if a.posonlyargs or a.kwonlyargs:
                raise ExtractError(f"{cls.name}.{n.name}: unsupported parameter kinds")
            params = [x.arg for x in a.args]
            if not params or params[0] != "cls":
                raise ExtractError(f"{cls.name}.{n.name}: first parameter is not cls")
            params = params[1:]
            ndef = len(a.defaults)
            defaults = []
            for p, d in zip(params[len(params) - ndef:], a.defaults):
                defaults.append((p, const_to_pyval(d, f"{cls.name}.{n.name}")))
            body = strip_doc(n.body)
            if len(body) != 1 or not isinstance(body[0], ast.Return) or not isinstance(body[0].value, ast.Call):
                raise ExtractError(f"{cls.name}.{n.name}: body is not `return cls(...)`")
            call = body[0].value
            if not (isinstance(call.func, ast.Name) and call.func.id == "cls"):
                raise ExtractError(f"{cls.name}.{n.name}: does not call cls")
            if not call.args:
                raise ExtractError(f"{cls.name}.{n.name}: no callable")
            f0 = call.args[0]
            if not (isinstance(f0, ast.Attribute) and isinstance(f0.value, ast.Name) and f0.value.id == "call_funcs"):
                raise ExtractError(f"{cls.name}.{n.name}: first argument is not call_funcs.X")
            target = f0.attr
            fwd_pos, fwd_star = [], None
            for x in call.args[1:]:
                if isinstance(x, ast.Starred) and isinstance(x.value, ast.Name):
                    if fwd_star is not None:
                        raise ExtractError(f"{cls.name}.{n.name}: two starred forwards")
                    fwd_star = x.value.id
                elif isinstance(x, ast.Name):
                    if fwd_star is not None:
                        raise ExtractError(f"{cls.name}.{n.name}: positional after star")
                    fwd_pos.append(x.id)
                else:
                    raise ExtractError(f"{cls.name}.{n.name}: unsupported forward")
            fwd_kw, fwd_ss = [], None
            for k in call.keywords:
                if not isinstance(k.value, ast.Name):
                    raise ExtractError(f"{cls.name}.{n.name}: unsupported keyword forward")
                if k.arg is None:
                    fwd_ss = k.value.id
                else:
                    fwd_kw.append((k.arg, k.value.id))
            allowed = set(params) | ({a.vararg.arg} if a.vararg else set()) | ({a.kwarg.arg} if a.kwarg else set())
            for nm in fwd_pos + [v for _, v in fwd_kw] + [x for x in (fwd_star, fwd_ss) if x]:
                if nm not in allowed:
                    raise ExtractError(f"{cls.name}.{n.name}: forwards unknown name {nm}")
            if fwd_star and (not a.vararg or fwd_star != a.vararg.arg):
                raise ExtractError(f"{cls.name}.{n.name}: star forward of a non-star parameter")
            if fwd_ss and (not a.kwarg or fwd_ss != a.kwarg.arg):
                raise ExtractError(f"{cls.name}.{n.name}: ** forward of a non-** parameter")
            ctors.append({
                "name": n.name, "params": params, "defaults": defaults,
                "varPos": a.vararg.arg if a.vararg else None,
                "varKw": a.kwarg.arg if a.kwarg else None,
                "target": target, "fwdPos": fwd_pos, "fwdStar": fwd_star is not None,
                "fwdKw": fwd_kw, "fwdStarStar": fwd_ss is not None,
            })
        elif isinstance(n, ast.Assign) and len(n.targets) == 1 and isinstance(n.targets[0], ast.Name):
            if isinstance(n.value, ast.Name):
                aliases.append((n.targets[0].id, n.value.id))
            elif isinstance(n.value, ast.Dict) and n.targets[0].id == "OP_SYMBOL_MAP":
                other.append(n.targets[0].id)
            else:
                raise ExtractError(f"{cls.name}: unsupported assignment {n.targets[0].id}")
        elif isinstance(n, ast.Expr) and isinstance(n.value, ast.Constant):
            pass
        else:
            raise ExtractError(f"{cls.name}: unsupported member {type(n).__name__}")
    return ctors, aliases


def lean_ctor(c):
    opt = lambda x: f"some {lstr(x)}" if x else "none"
    return (
        "{ name := " + lstr(c["name"]) + ", params := " + lean_list(lstr(p) for p in c["params"])
        + ", defaults := " + lean_list(f"({lstr(p)}, {v})" for p, v in c["defaults"])
        + ", varPos := " + opt(c["varPos"]) + ", varKw := " + opt(c["varKw"])
        + ", target := " + lstr(c["target"]) + ", fwdPos := " + lean_list(lstr(p) for p in c["fwdPos"])
        + ", fwdStar := " + ("true" if c["fwdStar"] else "false")
        + ", fwdKw := " + lean_list(f"({lstr(k)}, {lstr(v)})" for k, v in c["fwdKw"])
        + ", fwdStarStar := " + ("true" if c["fwdStarStar"] else "false") + " }"
    )


TYPE_NAMES = {"int": "int", "float": "float", "str": "str", "list": "list", "dict": "dict",
              "bool": "bool", "tuple": "tuple"}


def type_expr(node, where):
    if isinstance(node, ast.Name) and node.id in TYPE_NAMES:
        return "PyType." + TYPE_NAMES[node.id]
    if isinstance(node, ast.Attribute) and isinstance(node.value, ast.Name) \
            and node.value.id == "pathlib" and node.attr == "Path":
        return "PyType.path"
    raise ExtractError(f"{where}: not a type expression: {ast.dump(node)}")


def find_assign(body, name):
    for n in body:
        if isinstance(n, ast.Assign) and len(n.targets) == 1 and isinstance(n.targets[0], ast.Name) \
                and n.targets[0].id == name:
            return n.value
    raise ExtractError(f"assignment to {name} not found")


def walk_assign(fn, name):
    for n in ast.walk(fn):
        if isinstance(n, ast.Assign) and len(n.targets) == 1 and isinstance(n.targets[0], ast.Name) \
                and n.targets[0].id == name:
            return n.value
    raise ExtractError(f"{fn.name}: assignment to {name} not found")


def tries_in(fn):
    """Try nodes of a function in source order (pre-order)."""
    out = []

    def rec(node):
        for ch in ast.iter_child_nodes(node):
            if isinstance(ch, ast.Try):
                out.append(ch)
            rec(ch)
    rec(fn)
    return out


def class_attr(cls, name):
    for n in cls.body:
        if isinstance(n, ast.Assign) and len(n.targets) == 1 and isinstance(n.targets[0], ast.Name) \
                and n.targets[0].id == name:
            return n.value
    return None


_MUTATORS = {"append", "extend", "insert", "pop", "remove", "clear", "update", "setdefault", "popitem", "sort", "reverse",
             "add", "discard", "__setitem__"}


def _root_name(n):
    while isinstance(n, (ast.Attribute, ast.Subscript)):
        n = n.value
    return n.id if isinstance(n, ast.Name) else None


def _writes_of(mod_tree, fn):
    """syntactic writes of one function that can outlive the call: stores into attributes / items of a parameter or
    of a name the function does not bind, mutating calls on module-level objects, global / nonlocal, setattr,
    and decorators other than classmethod / staticmethod / property (a cache would be one)"""
    params = {a.arg for a in fn.args.posonlyargs + fn.args.args + fn.args.kwonlyargs}
    if fn.args.vararg:
        params.add(fn.args.vararg.arg)
    if fn.args.kwarg:
        params.add(fn.args.kwarg.arg)
    modlevel = set()
    for st in mod_tree.body:
        if isinstance(st, ast.Assign):
            modlevel.update(t.id for t in st.targets if isinstance(t, ast.Name))
        elif isinstance(st, ast.AnnAssign) and isinstance(st.target, ast.Name):
            modlevel.add(st.target.id)
    local = {n.id for n in ast.walk(fn) if isinstance(n, ast.Name) and isinstance(n.ctx, ast.Store)}
    out = []
    is_setter = any(ast.unparse(d).endswith(".setter") for d in fn.decorator_list)
    for d in fn.decorator_list:
        txt = ast.unparse(d)
        if txt not in ("classmethod", "staticmethod", "property") and not txt.endswith(".setter"):
            out.append(f"decorator {txt}")
    for n in ast.walk(fn):
        if isinstance(n, (ast.Global, ast.Nonlocal)):
            out.append("global " + ",".join(n.names))
        elif isinstance(n, ast.Attribute) and isinstance(n.ctx, (ast.Store, ast.Del)):
            r = _root_name(n)
            if r in params and not (r == "self" and (fn.name == "__init__" or is_setter)):
                out.append(f"attribute {ast.unparse(n)}")
            elif r is not None and r not in local and r not in params:
                out.append(f"attribute {ast.unparse(n)}")
        elif isinstance(n, ast.Subscript) and isinstance(n.ctx, (ast.Store, ast.Del)):
            r = _root_name(n)
            if r in params or (r is not None and r not in local):
                out.append(f"item {ast.unparse(n.value)}[..]")
        elif isinstance(n, ast.Call) and isinstance(n.func, ast.Attribute) and n.func.attr in _MUTATORS:
            r = _root_name(n.func.value)
            if r in modlevel and r not in local and r not in params:
                out.append(f"call {ast.unparse(n.func)}")
        elif isinstance(n, ast.Call) and isinstance(n.func, ast.Name) and n.func.id in ("setattr", "delattr"):
            out.append(n.func.id)
    return sorted(set(out))


def writers_table(repo):
    """every function of the library that has such a write: (file, qualified name, writes)"""
    rows = []
    for fname in ("callables.py", "casting.py", "conditions.py", "data.py", "datapath.py", "rules.py", "schema.py", "utils.py"):
        tree = ast.parse(open(os.path.join(repo, "valida", fname)).read())

        def visit(body, prefix):
            for st in body:
                if isinstance(st, ast.ClassDef):
                    visit(st.body, prefix + st.name + ".")
                elif isinstance(st, (ast.FunctionDef, ast.AsyncFunctionDef)):
                    w = _writes_of(tree, st)
                    if w:
                        rows.append((fname, prefix + st.name, w))
                    visit(st.body, prefix + st.name + ".")
        visit(tree.body, "")
    return rows


def gen_tables(repo):
    csrc = open(os.path.join(repo, "valida", "conditions.py")).read()
    ctree = ast.parse(csrc)
    gen_c, gen_alias = ctor_table(find_class(ctree, "GeneralCallables"))
    map_c, map_alias = ctor_table(find_class(ctree, "MapCallables"))
    L = [
        "-- GENERATED by tools/extract.py from valida/conditions.py, datapath.py, rules.py — do not edit",
        "import Valida.Py.Ops",
        "import Valida.Py.Bind",
        "namespace ValidaGen",
        "open Valida",
        "",
        "/-- `GeneralCallables`: one entry per classmethod `return cls(call_funcs.X, …)` -/",
        "def generalCtors : List Ctor := [",
        ",\n".join("  " + lean_ctor(c) for c in gen_c),
        "]",
        "def generalAliases : List (String × String) := " + lean_list(f"({lstr(a)}, {lstr(b)})" for a, b in gen_alias),
        "",
        "/-- `MapCallables` -/",
        "def mapCtors : List Ctor := [",
        ",\n".join("  " + lean_ctor(c) for c in map_c),
        "]",
        "def mapAliases : List (String × String) := " + lean_list(f"({lstr(a)}, {lstr(b)})" for a, b in map_alias),
        "",
    ]

    # AllCallables bases
    allc = find_class(ctree, "AllCallables")
    bases = [b.id for b in allc.bases if isinstance(b, ast.Name)]
    if bases != ["GeneralCallables", "MapCallables"] or any(not isinstance(n, ast.Pass) for n in allc.body):
        raise ExtractError("AllCallables is not `(GeneralCallables, MapCallables): pass`")

    # class table: name -> (datum kind, pre-processor, general?, map?, js_like_label)
    def bases_of(name):
        return [b.id for b in find_class(ctree, name).bases if isinstance(b, ast.Name)]

    def datum_type_of(name):
        cls = find_class(ctree, name)
        v = class_attr(cls, "DATUM_TYPE")
        if v is not None:
            if isinstance(v, ast.Attribute) and isinstance(v.value, ast.Name) and v.value.id == "FilterDatumType":
                return v.attr
            raise ExtractError(f"{name}.DATUM_TYPE unsupported")
        for b in bases_of(name):
            if b in ("Condition", "ConditionLike"):
                continue
            try:
                r = datum_type_of(b)
            except ExtractError:
                continue
            if r:
                return r
        return None

    def preproc_of(name):
        cls = find_class(ctree, name)
        v = class_attr(cls, "PRE_PROCESSOR")
        if v is not None:
            if isinstance(v, ast.Name) and v.id in ("len", "type"):
                return v.id
            if isinstance(v, ast.Constant) and v.value is None:
                return None
            raise ExtractError(f"{name}.PRE_PROCESSOR unsupported")
        for b in bases_of(name):
            if b == "ConditionLike":
                continue
            r = preproc_of(b)
            if r:
                return r
        return None

    def has_base(name, target):
        if name == target:
            return True
        try:
            return any(has_base(b, target) for b in bases_of(name))
        except ExtractError:
            return False

    fdt = find_class(ctree, "FilterDatumType")
    fdt_vals = {}
    for n in fdt.body:
        if isinstance(n, ast.Assign):
            fdt_vals[n.targets[0].id] = n.value.value
    if fdt_vals != {"KEYS": "keys", "VALUES": "values"}:
        raise ExtractError(f"FilterDatumType changed: {fdt_vals}")

    L.append("/-- the condition classes: (name, like, reads keys?, pre-processor, general callables?, map callables?, js_like_label) -/")
    L.append("def condClasses : List CondClassInfo := [")
    rows = []
    for name in ["Value", "ValueLength", "ValueDataType", "Key", "KeyLength", "KeyDataType", "Index", "NullCondition"]:
        cls = find_class(ctree, name)
        like = "value" if has_base(name, "ValueLike") else "key" if has_base(name, "KeyLike") else \
            "index" if has_base(name, "IndexLike") else "null"
        dt = datum_type_of(name)
        if dt not in ("KEYS", "VALUES"):
            raise ExtractError(f"{name}: no DATUM_TYPE")
        pre = preproc_of(name)
        label = class_attr(cls, "js_like_label")
        label_s = label.value if isinstance(label, ast.Constant) else ""
        rows.append(
            "  { name := " + lstr(name) + ", like := " + lstr(like)
            + ", readsKeys := " + ("true" if dt == "KEYS" else "false")
            + ", pre := " + lstr(pre or "") + ", general := " + ("true" if has_base(name, "GeneralCallables") else "false")
            + ", map := " + ("true" if has_base(name, "MapCallables") else "false")
            + ", label := " + lstr(label_s) + " }"
        )
    L.append(",\n".join(rows))
    L.append("]\n")

    # classproperty attributes length / dtype
    L.append("/-- `classproperty` attributes: (class, attribute, class returned) -/")
    rows = []
    for name in ["Value", "Key", "Index", "ValueLength", "ValueDataType", "KeyLength", "KeyDataType"]:
        cls = find_class(ctree, name)
        for n in cls.body:
            if isinstance(n, ast.FunctionDef) and [d.id for d in n.decorator_list if isinstance(d, ast.Name)] == ["classproperty"]:
                body = strip_doc(n.body)
                if len(body) == 1 and isinstance(body[0], ast.Return) and isinstance(body[0].value, ast.Name):
                    rows.append(f"({lstr(name)}, {lstr(n.name)}, {lstr(body[0].value.id)})")
                else:
                    raise ExtractError(f"{name}.{n.name}: unsupported classproperty")
    L.append("def classProps : List (String × String × String) := " + lean_list(rows) + "\n")

    # except clauses of Condition._filter
    cond = find_class(ctree, "Condition")
    filt = find_method(cond, "_filter")
    tr = tries_in(filt)
    if len(tr) != 2:
        raise ExtractError(f"Condition._filter: expected 2 try blocks, found {len(tr)}")
    for t in tr:
        if len(t.handlers) != 1 or t.orelse or t.finalbody:
            raise ExtractError("Condition._filter: unsupported try shape")
    L.append("/-- `except` clause around the pre-processor call in `Condition._filter` -/")
    L.append("def catchesFilterPreproc : List String := " + lean_list(lstr(x) for x in exc_names(tr[0].handlers[0].type, "_filter")))
    L.append("/-- `except` clause around the callable call in `Condition._filter` -/")
    L.append("def catchesFilterCallable : List String := " + lean_list(lstr(x) for x in exc_names(tr[1].handlers[0].type, "_filter")))
    L.append("")

    # INV_DTYPE_LOOKUP
    inv = find_assign(ctree.body, "INV_DTYPE_LOOKUP")
    if not isinstance(inv, ast.Dict):
        raise ExtractError("INV_DTYPE_LOOKUP is not a dict literal")
    L.append("def invDtypeLookup : List (PyType × String) := " + lean_list(
        f"({type_expr(k, 'INV_DTYPE_LOOKUP')}, {lstr(v.value)})" for k, v in zip(inv.keys, inv.values)) + "\n")

    # tables inside ConditionLike.from_spec
    cl = find_class(ctree, "ConditionLike")
    fs = find_method(cl, "from_spec")

    def str_table(name, val_kind):
        d = walk_assign(fs, name)
        if not isinstance(d, ast.Dict):
            raise ExtractError(f"{name} is not a dict literal")
        rows = []
        for k, v in zip(d.keys, d.values):
            if not (isinstance(k, ast.Constant) and isinstance(k.value, str)):
                raise ExtractError(f"{name}: non-string key")
            if val_kind == "name":
                if not isinstance(v, ast.Name):
                    raise ExtractError(f"{name}: value is not a name")
                rows.append(f"({lstr(k.value)}, {lstr(v.id)})")
            else:
                if not (isinstance(v, ast.Constant) and isinstance(v.value, str)):
                    raise ExtractError(f"{name}: value is not a string")
                rows.append(f"({lstr(k.value)}, {lstr(v.value)})")
        return lean_list(rows)

    src_from_spec = ast.unparse(fs)
    L.append("/-- the callable token is looked up (lower-cased) among the classmethods of GeneralCallables / MapCallables -/")
    ci = ("name.lower(): name" in src_from_spec and "isinstance(attr, classmethod)" in src_from_spec
          and "getattr(cls, callable_names[cond_call_str])" in src_from_spec)
    L.append(f"def callableFromCtorTables : Bool := {'true' if ci else 'false'}")
    L.append("/-- the pre-processor token must be a key of PRE_PROC_LOOKUP -/")
    L.append(f"def preProcStrict : Bool := {'true' if 'PRE_PROC_LOOKUP[pre_proc_str]' in src_from_spec else 'false'}")
    L.append("/-- a non-string specification key is rejected before `.split` -/")
    L.append(f"def condKeyStrGuard : Bool := {'true' if 'if not isinstance(spec_key, str):' in src_from_spec else 'false'}")
    L.append("/-- data-path sniffing works on copies of list / mapping arguments -/")
    a_ok = "spec_val = dict(spec_val)" in src_from_spec and "items = list(spec_val)" in src_from_spec \
        and "spec_val[idx] =" not in src_from_spec
    L.append(f"def condArgsCopied : Bool := {'true' if a_ok else 'false'}")
    L.append("def binaryOps : List (String × String) := " + str_table("BINARY_OPS", "name"))
    L.append("def conditionDatumTypes : List (String × String) := " + str_table("CONDITION_DATUM_TYPES", "name"))
    L.append("def callableLookup : List (String × String) := " + str_table("CALLABLE_LOOKUP", "str"))
    L.append("def preProcLookup : List (String × String) := " + str_table("PRE_PROC_LOOKUP", "str"))
    d = walk_assign(fs, "DTYPE_LOOKUP")
    srows, trows = [], []
    for k, v in zip(d.keys, d.values):
        if isinstance(k, ast.Constant) and isinstance(k.value, str):
            srows.append(f"({lstr(k.value)}, {type_expr(v, 'DTYPE_LOOKUP')})")
        else:
            trows.append(f"({type_expr(k, 'DTYPE_LOOKUP')}, {type_expr(v, 'DTYPE_LOOKUP')})")
    L.append("def dtypeLookupStr : List (String × PyType) := " + lean_list(srows))
    L.append("def dtypeLookupType : List (PyType × PyType) := " + lean_list(trows))
    L.append("")

    # FLATTEN_SYMBOL of the three binary classes
    rows = []
    for name in ["ConditionAnd", "ConditionOr", "ConditionXor"]:
        v = class_attr(find_class(ctree, name), "FLATTEN_SYMBOL")
        if not (isinstance(v, ast.Constant) and isinstance(v.value, str)):
            raise ExtractError(f"{name}.FLATTEN_SYMBOL")
        # operator passed to super()._filter
        m = find_method(find_class(ctree, name), "_filter")
        ops = [n.attr for n in ast.walk(m) if isinstance(n, ast.Attribute) and isinstance(n.value, ast.Name) and n.value.id == "operator"]
        if len(ops) != 1:
            raise ExtractError(f"{name}._filter: operator not found")
        rows.append(f"({lstr(name)}, {lstr(v.value)}, {lstr(ops[0])})")
    L.append("/-- (class, FLATTEN_SYMBOL, operator applied to the children's filtered data) -/")
    L.append("def binaryClasses : List (String × String × String) := " + lean_list(rows) + "\n")

    # ConditionBinaryOp.__new__ / __init__
    cbo = find_class(ctree, "ConditionBinaryOp")
    new = find_method(cbo, "__new__")
    nb = strip_doc(new.body)
    ok_new = (
        len(nb) == 1 and isinstance(nb[0], ast.Return) and isinstance(nb[0].value, ast.BoolOp)
        and isinstance(nb[0].value.op, ast.Or) and len(nb[0].value.values) == 2
        and is_call_to(nb[0].value.values[0], "null_condition_binary_check")
    )
    if not ok_new:
        raise ExtractError("ConditionBinaryOp.__new__: not `return null_condition_binary_check(*conditions) or super().__new__(cls)`")
    init = find_method(cbo, "__init__")
    ib = strip_doc(init.body)
    guard = False
    if ib and isinstance(ib[0], ast.If):
        t = ib[0].test
        guard = (
            isinstance(t, ast.Compare) and len(t.ops) == 1 and isinstance(t.ops[0], ast.IsNot)
            and is_call_to(t.left, "null_condition_binary_check")
            and isinstance(t.comparators[0], ast.Constant) and t.comparators[0].value is None
            and len(ib[0].body) == 1 and isinstance(ib[0].body[0], ast.Return) and ib[0].body[0].value is None
            and not ib[0].orelse
        )
        if not guard:
            raise ExtractError("ConditionBinaryOp.__init__: unrecognised leading `if`")
    rest = ib[1:] if guard else ib
    assigns_children = any(
        isinstance(n, ast.Assign) and len(n.targets) == 1 and isinstance(n.targets[0], ast.Attribute)
        and n.targets[0].attr == "children" and isinstance(n.value, ast.Name) and n.value.id == init.args.vararg.arg
        for n in rest
    )
    raises_type_error = any(
        isinstance(n, ast.Raise) and isinstance(n.exc, ast.Call) and isinstance(n.exc.func, ast.Name)
        and n.exc.func.id == "TypeError" for n in ast.walk(init)
    )
    if not assigns_children:
        raise ExtractError("ConditionBinaryOp.__init__: `self.children = conditions` not found")
    L.append("/-- `ConditionBinaryOp.__init__` starts with `if null_condition_binary_check(*conditions) is not None: return` -/")
    L.append(f"def binopInitGuard : Bool := {'true' if guard else 'false'}")
    L.append("/-- `ConditionBinaryOp.__init__` raises TypeError when key-like and index-like conditions are mixed -/")
    L.append(f"def binopMixCheck : Bool := {'true' if raises_type_error else 'false'}")
    nf = None
    usrc = open(os.path.join(repo, "valida", "utils.py")).read()
    for n in ast.parse(usrc).body:
        if isinstance(n, ast.FunctionDef) and n.name == "null_condition_binary_check":
            nf = n
    if nf is None:
        raise ExtractError("utils.null_condition_binary_check not found")
    nbody = strip_doc(nf.body)
    # return cond_1 if cond_2.is_null else (cond_2 if cond_1.is_null else None)
    def is_null_attr(x, nm):
        return isinstance(x, ast.Attribute) and x.attr == "is_null" and isinstance(x.value, ast.Name) and x.value.id == nm
    a1, a2 = [x.arg for x in nf.args.args]
    r = nbody[0].value if len(nbody) == 1 and isinstance(nbody[0], ast.Return) else None
    ok = (
        isinstance(r, ast.IfExp) and is_null_attr(r.test, a2) and isinstance(r.body, ast.Name) and r.body.id == a1
        and isinstance(r.orelse, ast.IfExp) and is_null_attr(r.orelse.test, a1)
        and isinstance(r.orelse.body, ast.Name) and r.orelse.body.id == a2
        and isinstance(r.orelse.orelse, ast.Constant) and r.orelse.orelse.value is None
    )
    if not ok:
        raise ExtractError("utils.null_condition_binary_check: unrecognised body")
    L.append("")

    # datapath.py
    dsrc = open(os.path.join(repo, "valida", "datapath.py")).read()
    dtree = ast.parse(dsrc)
    dp = find_class(dtree, "DataPath")
    gd = find_method(dp, "get_data")
    tr = tries_in(gd)
    if len(tr) != 1 or len(tr[0].handlers) != 1:
        raise ExtractError("DataPath.get_data: expected one try block")
    h = tr[0].handlers[0]
    if not (len(h.body) == 1 and isinstance(h.body[0], ast.Continue)):
        raise ExtractError("DataPath.get_data: handler is not `continue`")
    L.append("/-- `except` clause around `part.filter(datum)` in `DataPath.get_data` (handler: continue) -/")
    L.append("def catchesGetData : List String := " + lean_list(lstr(x) for x in exc_names(h.type, "get_data")))

    def enum_table(name):
        cls = find_class(dtree, name)
        rows = []
        for n in cls.body:
            if isinstance(n, ast.Assign) and isinstance(n.value, ast.Constant):
                v = n.value.value
                rows.append(f"({lstr(n.targets[0].id)}, {'none' if v is None else 'some ' + str(v)})")
        return lean_list(rows)

    L.append("def dataPathDatumTypes : List (String × Option Nat) := " + enum_table("DataPathDatumType"))
    L.append("def dataPathMultiTypes : List (String × Option Nat) := " + enum_table("DataPathMultiType"))

    fsp = find_method(dp, "from_spec")
    d = walk_assign(fsp, "DATUM_TYPE_MULTI_TYPE_LOOKUP")
    L.append("def datumMultiLookup : List (String × String) := " + lean_list(
        f"({lstr(k.value)}, {lstr(v.value)})" for k, v in zip(d.keys, d.values)))
    # modifier methods: name -> (kind, enum member)
    rows = []
    for n in dp.body:
        if isinstance(n, ast.FunctionDef):
            body = strip_doc(n.body)
            body = [b for b in body if not (isinstance(b, ast.Expr) and isinstance(b.value, ast.Constant))]
            if len(body) == 1 and isinstance(body[0], ast.Return) and isinstance(body[0].value, ast.Call):
                c = body[0].value
                if isinstance(c.func, ast.Attribute) and c.func.attr in ("_copy_with_datum_type", "_copy_with_multi_type") \
                        and len(c.args) == 1 and isinstance(c.args[0], ast.Attribute):
                    kind = "datum" if c.func.attr == "_copy_with_datum_type" else "multi"
                    rows.append(f"({lstr(n.name)}, {lstr(kind)}, {lstr(c.args[0].attr)})")
    L.append("/-- modifier methods of DataPath: (method, kind, enum member) -/")
    L.append("def pathModifiers : List (String × String × String) := " + lean_list(rows))
    # DataPath.from_spec: suffix tokens are checked against the enum member names before getattr
    whitelist = False
    for n in ast.walk(fsp):
        if isinstance(n, ast.If):
            src_t = ast.unparse(n.test)
            if "DataPathDatumType.__members__" in src_t and "DataPathMultiType.__members__" in src_t \
                    and ".upper() not in" in src_t and any(isinstance(b, ast.Raise) for b in n.body):
                whitelist = True
    L.append("/-- `DataPath.from_spec` checks a suffix token against the DATUM_TYPE / MULTI_TYPE member names before calling it -/")
    L.append(f"def pathSuffixWhitelist : Bool := {'true' if whitelist else 'false'}")
    # DataPath.from_spec: an empty mapping is refused; escaped keys give a fresh mapping
    src_fs = ast.unparse(fsp)
    L.append(f"def pathSpecRefusesEmpty : Bool := {'true' if 'not isinstance(spec, dict) or not spec' in src_fs else 'false'}")
    L.append("/-- DataPath.from_spec does not write to the mapping it is given (no pop / item assignment on `spec`) -/")
    L.append(f"def pathSpecPure : Bool := {'false' if ('spec.pop(' in src_fs or 'spec[' in src_fs) else 'true'}")
    cv = find_class(dtree, "ContainerValue")
    cfs = find_method(cv, "from_spec")
    src_cfs = ast.unparse(cfs)
    first_pop = src_cfs.find("spec.pop(")
    copy_at = src_cfs.find("spec = dict(spec)")
    L.append("/-- ContainerValue.from_spec copies the mapping before popping its items -/")
    L.append(f"def partSpecCopied : Bool := {'true' if 0 <= copy_at < first_pop else 'false'}")
    L.append("/-- the shorthand-key scan of ContainerValue.from_spec guards `startswith` with `isinstance(i, str)` -/")
    L.append(f"def partSpecStrGuard : Bool := {'true' if 'isinstance(i, str) and i.startswith' in src_cfs and 'if i.startswith' not in src_cfs else 'false'}")
    d = walk_assign(cfs, "CLS_LOOKUP")
    L.append("def clsLookup : List (String × String) := " + lean_list(
        f"({lstr(k.value)}, {lstr(v.id)})" for k, v in zip(d.keys, d.values)))
    L.append("")

    # rules.py
    rsrc = open(os.path.join(repo, "valida", "rules.py")).read()
    rtree = ast.parse(rsrc)
    rule = find_class(rtree, "Rule")
    rt = find_method(rule, "test")
    tr = tries_in(rt)
    if len(tr) != 1 or len(tr[0].handlers) != 1:
        raise ExtractError("Rule.test: expected one try block")
    rfs = ast.unparse(find_method(rule, "from_spec"))
    L.append("/-- Rule.from_spec works on copies of `doc` and `cast` -/")
    L.append(f"def ruleSpecCopied : Bool := {'true' if ('copy.deepcopy(spec.get(' in rfs and 'cast = dict(cast)' in rfs) else 'false'}")
    L.append("/-- Rule.from_spec rejects mis-shaped `cast` / `doc` with MalformedRuleSpec -/")
    L.append(f"def ruleSpecShapeChecks : Bool := {'true' if ('if not isinstance(cast, dict):' in rfs and 'isinstance(i, str) for i in doc[doc_key]' in rfs) else 'false'}")
    L.append("/-- `except` clause around the cast call in `Rule.test` -/")
    L.append("def catchesCast : List String := " + lean_list(lstr(x) for x in exc_names(tr[0].handlers[0].type, "Rule.test")))
    L.append("")

    # schema.py: the sort key
    ssrc = open(os.path.join(repo, "valida", "schema.py")).read()
    stree = ast.parse(ssrc)
    sch = find_class(stree, "Schema")
    keys = []
    for m in ("__init__", "add_schema"):
        for n in ast.walk(find_method(sch, m)):
            if is_call_to(n, "sorted"):
                kw = {k.arg: k.value for k in n.keywords}
                key = kw.get("key")
                rev = kw.get("reverse")
                ok = (
                    isinstance(key, ast.Lambda) and is_call_to(key.body, "len")
                    and isinstance(key.body.args[0], ast.Attribute) and key.body.args[0].attr == "path"
                    and rev is None
                )
                keys.append((m, "len_path" if ok else "other"))
    tt_src = ast.unparse(find_method(sch, "to_tree"))
    L.append("/-- `to_tree`: a key stays required once an always-applicable `required_keys` names it (`.get('required', False) or …`) -/")
    sticky = "items[path_i_str].get('required', False) or key_cnd.callable.name == 'required_keys'" in tt_src
    L.append(f"def treeRequiredSticky : Bool := {'true' if sticky else 'false'}")
    L.append("/-- `to_tree`: the implicit parent type is only looked up for map / list parts -/")
    L.append(f"def treeImplicitTypeGuard : Bool := {'true' if 'par_implicit_type in IMP_TYPE_LOOKUP' in tt_src else 'false'}")
    L.append("/-- `to_tree`: the sub-tree root is compared through the string forms of its *parts* -/")
    L.append(f"def treeFromPathViaParts : Bool := {'true' if 'tuple((str(i) for i in DataPath(*from_path).parts))' in tt_src else 'false'}")
    # `Data.__init__`: which values are filterable at all
    data_src = open(os.path.join(repo, "valida", "data.py")).read()
    data_tree = ast.parse(data_src)
    data_cls = find_class(data_tree, "Data")
    data_init = find_method(data_cls, "__init__") if data_cls is not None else None
    if data_init is None:
        raise ExtractError("Data.__init__ not found")
    body = strip_doc(data_init.body)
    EXC = {"TypeError": ".typeError", "ValueError": ".valueError"}

    def raised(stmts):
        if len(stmts) == 1 and isinstance(stmts[0], ast.Raise):
            r = stmts[0].exc
            nm = r.func.id if isinstance(r, ast.Call) and isinstance(r.func, ast.Name) else getattr(r, "id", None)
            return EXC.get(nm)
        return None

    def not_isinstance(t):
        if (isinstance(t, ast.UnaryOp) and isinstance(t.op, ast.Not) and isinstance(t.operand, ast.Call)
                and isinstance(t.operand.func, ast.Name) and t.operand.func.id == "isinstance" and len(t.operand.args) == 2
                and isinstance(t.operand.args[0], ast.Name) and t.operand.args[0].id == "data"):
            ty = t.operand.args[1]
            return ty.elts if isinstance(ty, ast.Tuple) else [ty]
        return None

    def not_data(t):
        return isinstance(t, ast.UnaryOp) and isinstance(t.op, ast.Not) and isinstance(t.operand, ast.Name) and t.operand.id == "data"
    g_types = g_texc = g_eexc = None
    if body and isinstance(body[0], ast.If) and not body[0].orelse:
        t0 = body[0].test
        if isinstance(t0, ast.BoolOp) and isinstance(t0.op, ast.Or) and len(t0.values) == 2 and not_isinstance(t0.values[0]) and not_data(t0.values[1]):
            g_types, g_texc = not_isinstance(t0.values[0]), raised(body[0].body)
            g_eexc = g_texc
        elif not_isinstance(t0):
            g_types, g_texc = not_isinstance(t0), raised(body[0].body)
            if len(body) > 1 and isinstance(body[1], ast.If) and not body[1].orelse and not_data(body[1].test):
                g_eexc = raised(body[1].body)
                if g_eexc is None:
                    raise ExtractError("Data.__init__: the empty-data guard does not raise TypeError / ValueError")
    if g_types is None or g_texc is None:
        raise ExtractError("Data.__init__: the guard on the data's type was not recognised")
    L.append("/-- `Data.__init__`: the container types accepted, the exception for anything else, the exception for an empty container (if refused) -/")
    L.append("def dataGuardTypes : List PyType := " + lean_list(type_expr(x, "Data.__init__") for x in g_types))
    L.append(f"def dataGuardTypeExc : Exc := {g_texc}")
    L.append("def dataGuardEmptyExc : Option Exc := " + (f"some {g_eexc}" if g_eexc else "none"))
    # `DataPath.__init__`: what a plain key / index is coerced to (the isinstance chain over the parts)
    dp_cls = find_class(dtree, "DataPath")
    dp_init = find_method(dp_cls, "__init__") if dp_cls is not None else None
    if dp_init is None:
        raise ExtractError("DataPath.__init__ not found")
    loops = [n for n in dp_init.body if isinstance(n, ast.For)]
    chain = None
    for lp in loops:
        for st in lp.body:
            if isinstance(st, ast.If) and "ContainerValue" in ast.unparse(st.test) and st.orelse and isinstance(st.orelse[0], ast.If):
                chain = st.orelse[0]
    if chain is None:
        raise ExtractError("DataPath.__init__: the coercion chain over the parts was not recognised")
    coercions = []
    else_exc = None
    node = chain
    while isinstance(node, ast.If):
        t = node.test
        ok = (isinstance(t, ast.Call) and isinstance(t.func, ast.Name) and t.func.id == "isinstance" and len(t.args) == 2
              and isinstance(t.args[0], ast.Name) and len(node.body) == 1 and isinstance(node.body[0], ast.Assign)
              and isinstance(node.body[0].value, ast.Call) and isinstance(node.body[0].value.func, ast.Name))
        if not ok:
            raise ExtractError("DataPath.__init__: unsupported coercion branch")
        var = t.args[0].id
        types = t.args[1].elts if isinstance(t.args[1], ast.Tuple) else [t.args[1]]
        call = node.body[0].value
        ctor = call.func.id
        shape = ast.unparse(call)
        if ctor == "MapValue" and shape == f"MapValue({var})":
            form = "MapValue"
        elif ctor == "MapOrListValue" and shape == f"MapOrListValue(key={var}, index={var})":
            form = "MapOrListValue"
        elif ctor == "ListValue" and shape in (f"ListValue({var})", f"ListValue(index={var})"):
            form = "ListValue"
        else:
            raise ExtractError(f"DataPath.__init__: unsupported coercion {shape}")
        coercions.append("(" + lean_list(type_expr(x, "DataPath.__init__") for x in types) + ", " + lstr(form) + ")")
        if len(node.orelse) == 1 and isinstance(node.orelse[0], ast.If):
            node = node.orelse[0]
        else:
            for st in node.orelse:
                if isinstance(st, ast.Raise):
                    r = st.exc
                    else_exc = r.func.id if isinstance(r, ast.Call) else getattr(r, "id", None)
            node = None
    exc = {"TypeError": ".typeError", "ValueError": ".valueError"}.get(else_exc)
    if exc is None:
        raise ExtractError("DataPath.__init__: the coercion chain does not end in raise TypeError / ValueError")
    L.append("/-- `DataPath.__init__`: a plain part is coerced by the first entry one of whose types it is an instance of -/")
    L.append("def primCoercions : List (List PyType × String) := " + lean_list(coercions))
    L.append(f"def primCoercionElse : Exc := {exc}")
    # `Condition._filter`: with `data_has_paths` only the *values* are (value, path) pairs to unpack
    cond_cls = find_class(ctree, "Condition")
    flt_src = ast.unparse(find_method(cond_cls, "_filter"))
    L.append("/-- `Condition._filter` unpacks `datum, _ = datum` only when the condition reads the values -/")
    L.append(f"def filterUnpacksValuesOnly : Bool := {'true' if 'if data_has_paths and self.DATUM_TYPE is FilterDatumType.VALUES:' in flt_src else 'false'}")
    # names a `**items` keyword cannot have: the parameters it is forwarded past
    # (`Cls.items_contain(cls, **items)` -> `Condition.__init__(self, callable, *a, **kw)` ->
    #  `PreparedConditionCallable.__init__(self, func, *a, **kw)`); a clash is Python's TypeError
    reserved = ["cls"]
    for cname in ("Condition", "PreparedConditionCallable"):
        cc = find_class(ctree, cname)
        init = find_method(cc, "__init__") if cc is not None else None
        if init is None:
            raise ExtractError(f"{cname}.__init__ not found")
        for a in init.args.posonlyargs + init.args.args + init.args.kwonlyargs:
            if a.arg not in reserved:
                reserved.append(a.arg)
    L.append("/-- keyword names that clash with a parameter on the way from a `**kwargs` constructor to the stored callable -/")
    L.append("def reservedKwNames : List String := " + lean_list(lstr(x) for x in reserved))
    vd = find_class(stree, "ValidatedData")
    vd_src = ast.unparse(find_method(vd, "__init__"))
    rt_src = ast.unparse(rt)
    L.append("/-- `ValidatedData.__init__` validates on `copy.deepcopy(self.data.get_original())`, and `Rule.test` on `_data_copy or copy.deepcopy(data.get_original())` -/")
    deep = "copy.deepcopy(self.data.get_original())" in vd_src and "_data_copy or copy.deepcopy(data.get_original())" in rt_src
    L.append(f"def validateDeepCopies : Bool := {'true' if deep else 'false'}")
    L.append("/-- `Rule.test` writes cast values into the private copy only (`parent = data_copy`) -/")
    L.append(f"def castWritesToCopy : Bool := {'true' if ('parent = data_copy' in rt_src and 'parent[datum_path[-1]] = datum' in rt_src) else 'false'}")
    L.append("/-- `Rule.test` looks the nodes to cast up in the document it was given (`self.path.get_data(data, ...)`), not in the working copy earlier rules have written into -/")
    sel_doc = ("sub_data = self.path.get_data(data, return_paths=True)" in rt_src
               and "self.path.get_data(data_copy" not in rt_src)
    L.append(f"def castSelectsInDocument : Bool := {'true' if sel_doc else 'false'}")
    # `Schema.validate` and `ValidatedData.__init__` keep nothing on the schema: a validation is a function of the
    # schema's rules and the document (no attribute of anything but the new result object is written)
    val = find_method(sch, "validate")
    vinit = find_method(vd, "__init__")

    def attr_stores(fn):
        return [n for n in ast.walk(fn) if isinstance(n, ast.Attribute) and isinstance(n.ctx, (ast.Store, ast.Del))]

    def calls_named(fn, names):
        return [n for n in ast.walk(fn) if isinstance(n, ast.Call) and isinstance(n.func, ast.Name) and n.func.id in names]
    stateless = (
        val is not None and vinit is not None
        and not attr_stores(val) and not calls_named(val, ("setattr", "delattr"))
        and not any(isinstance(n, (ast.Global, ast.Nonlocal)) for n in ast.walk(val))
        and ast.unparse(val.body[-1]) == "return ValidatedData(self, data)"
        and all(isinstance(n.value, ast.Name) and n.value.id == "self" for n in attr_stores(vinit))
        and not calls_named(vinit, ("setattr", "delattr")))
    L.append("/-- `Schema.validate` writes no attribute (it returns a new `ValidatedData(self, data)`), and `ValidatedData.__init__` writes attributes of the new object only -/")
    L.append(f"def validateStateless : Bool := {'true' if stateless else 'false'}")
    L.append("/-- every function of the library with a write that can outlive the call (stores into attributes / items of a")
    L.append("    parameter or a non-local object, mutating calls on module-level objects, `global`, `setattr`, decorators other")
    L.append("    than classmethod / staticmethod / property): (file, qualified name, writes). The functional model has no place")
    L.append("    for any other state -/")
    L.append("def writers : List (String × String × List String) := " + lean_list(
        "(" + lstr(f) + ", " + lstr(q) + ", " + lean_list(lstr(x) for x in w) + ")" for f, q, w in writers_table(repo)))
    add = find_method(sch, "add_schema")
    add_src = ast.unparse(add)
    writes_rule = any(
        isinstance(n, (ast.Assign, ast.AugAssign)) and any(
            isinstance(t, ast.Attribute) and isinstance(t.value, ast.Name) and t.value.id == "rule"
            for t in (n.targets if isinstance(n, ast.Assign) else [n.target]))
        for n in ast.walk(add))
    builds_new = "Rule(" in add_src and "root_path / rule.path" in add_src
    L.append("/-- `Schema.add_schema` builds new Rule objects (path = root_path / rule.path, same condition, cast, doc) and never assigns to an attribute of the added schema's rules -/")
    L.append(f"def addSchemaBuildsNewRules : Bool := {'true' if (builds_new and not writes_rule) else 'false'}")
    dsrc2 = open(os.path.join(repo, "valida", "datapath.py")).read()
    td = find_method(find_class(ast.parse(dsrc2), "DataPath"), "__truediv__")
    td_src = ast.unparse(td)
    L.append("/-- `DataPath.__truediv__(other: DataPath)` is `DataPath(*self.parts, *other.parts)` -/")
    L.append(f"def truedivConcatenatesParts : Bool := {'true' if 'DataPath(*self.parts, *other.parts)' in td_src else 'false'}")
    L.append("/-- sort keys used by Schema.__init__ / add_schema (`len_path` = `sorted(rules, key=lambda i: len(i.path))`) -/")
    L.append("def schemaSortKeys : List (String × String) := " + lean_list(f"({lstr(a)}, {lstr(b)})" for a, b in keys))
    L.append("")
    L.append("end ValidaGen")
    return "\n".join(L) + "\n"


# --------------------------------------------------------------------------------------
# casting.py
# --------------------------------------------------------------------------------------


def gen_casting(repo):
    src = open(os.path.join(repo, "valida", "casting.py")).read()
    tree = ast.parse(src)
    L = [
        "-- GENERATED by tools/extract.py from valida/casting.py — do not edit",
        "import Valida.Py.Ops",
        "namespace ValidaGen",
        "open Valida",
        "",
    ]
    fns = [n for n in tree.body if isinstance(n, ast.FunctionDef)]
    if [f.name for f in fns] != ["cast_string_to_bool"]:
        raise ExtractError("casting.py: expected exactly cast_string_to_bool")
    f = fns[0]
    # if s.lower() == "true": return True / elif s.lower() == "false": return False / else: raise TypeError
    branches = []
    node = f.body[0] if len(strip_doc(f.body)) == 1 else None
    node = strip_doc(f.body)[0] if node is not None else None
    raise_name = None
    while isinstance(node, ast.If):
        t = node.test
        ok = (
            isinstance(t, ast.Compare) and len(t.ops) == 1 and isinstance(t.ops[0], ast.Eq)
            and isinstance(t.left, ast.Call) and isinstance(t.left.func, ast.Attribute)
            and t.left.func.attr == "lower" and isinstance(t.left.func.value, ast.Name)
            and t.left.func.value.id == f.args.args[0].arg
            and isinstance(t.comparators[0], ast.Constant) and isinstance(t.comparators[0].value, str)
            and len(node.body) == 1 and isinstance(node.body[0], ast.Return)
            and isinstance(node.body[0].value, ast.Constant) and isinstance(node.body[0].value.value, bool)
        )
        if not ok:
            raise ExtractError("cast_string_to_bool: unsupported branch")
        branches.append((t.comparators[0].value, node.body[0].value.value))
        if len(node.orelse) == 1 and isinstance(node.orelse[0], ast.If):
            node = node.orelse[0]
        elif len(node.orelse) == 1 and isinstance(node.orelse[0], ast.Raise):
            r = node.orelse[0].exc
            raise_name = r.func.id if isinstance(r, ast.Call) else r.id
            node = None
        else:
            raise ExtractError("cast_string_to_bool: unsupported else")
    if raise_name is None:
        raise ExtractError("cast_string_to_bool: no final raise")
    exc = {"TypeError": ".typeError", "ValueError": ".valueError"}.get(raise_name)
    if exc is None:
        raise ExtractError(f"cast_string_to_bool raises {raise_name}")
    L.append("/-- `cast_string_to_bool(s)` for a str `s`: (lower-cased literal, result) branches, else raise -/")
    L.append("def castStringToBoolBranches : List (String × Bool) := " + lean_list(
        f"({lstr(a)}, {'true' if b else 'false'})" for a, b in branches))
    L.append(f"def castStringToBoolElse : Exc := {exc}")
    d = find_assign(tree.body, "CAST_DTYPE_LOOKUP")
    L.append("def castDtypeLookup : List (String × PyType) := " + lean_list(
        f"({lstr(k.value)}, {type_expr(v, 'CAST_DTYPE_LOOKUP')})" for k, v in zip(d.keys, d.values)))
    d = find_assign(tree.body, "CAST_LOOKUP")
    rows = []
    for k, v in zip(d.keys, d.values):
        if not (isinstance(k, ast.Tuple) and len(k.elts) == 2 and isinstance(v, ast.Name)):
            raise ExtractError("CAST_LOOKUP: unsupported entry")
        rows.append(f"(({type_expr(k.elts[0], 'CAST_LOOKUP')}, {type_expr(k.elts[1], 'CAST_LOOKUP')}), {lstr(v.id)})")
    L.append("def castLookup : List ((PyType × PyType) × String) := " + lean_list(rows))
    L.append("")
    L.append("end ValidaGen")
    return "\n".join(L) + "\n"


# --------------------------------------------------------------------------------------
# the failure report: data.py / rules.py / schema.py
# --------------------------------------------------------------------------------------
# The three functions that build the report are straight-line string builders.  Their *shape*
# (statements, loops, conditions, the formatted holes such as `{fail.path!r}`) must be exactly the
# recorded skeleton (tools/skeletons.json; record with `extract.py --record-skeletons`); their string
# literals are read from the source, in order, and become the constants of ValidaGen/ReportFmt.lean
# the model of the report is built from.  A reworded message follows into the model; a change of
# shape is an extraction error (the tie to the source is then reported as broken).

SKELETON_FILE = os.path.join(os.path.dirname(os.path.abspath(__file__)), "skeletons.json")

REPORT_FUNCTIONS = [
    # (file, class, method, names of the string literals in source order)
    ("data.py", "FilteredDataLike", "get_failure_by_index",
     ["msgPreErr", "msgCErr", "msgCFalse", "skipRowA", "skipRowB"]),
    ("rules.py", "RuleTest", "get_failures_string",
     ["ruleOutInit", "ruleValidMsg", "failPathPrefix", "failValuePrefix", "failReasonsHeader",
      "reasonPrefix", "reasonSuffix"]),
    ("schema.py", "ValidatedData", "get_failures_string",
     ["repOutInit", "testedSep", "testedSuffix", "validPrefix", "validSuffix", "headerRule", "headerPlural",
      "headerSingular", "headerFailed", "headerSuffix", "sectionPrefix", "sectionTitleEnd", "underlineChar",
      "underlineEnd", "sectionEnd"]),
]


def skeleton_of(fn):
    """(shape of the body with every str literal blanked, the str literals in source order)"""
    import copy
    lits = []

    class Blank(ast.NodeTransformer):
        def visit_Constant(self, node):
            if isinstance(node.value, str):
                lits.append(node.value)
                return ast.Constant(value="\u00a7")
            return node

    mod = ast.Module(body=copy.deepcopy(strip_doc(fn.body)), type_ignores=[])
    mod = Blank().visit(mod)
    return ast.dump(mod), lits


def report_skeletons(repo):
    out = {}
    for fname, cls, meth, _names in REPORT_FUNCTIONS:
        tree = ast.parse(open(os.path.join(repo, "valida", fname)).read())
        c = find_class(tree, cls)
        fn = find_method(c, meth) if c is not None else None
        if fn is None:
            raise ExtractError(f"{fname}: {cls}.{meth} not found")
        out[f"{cls}.{meth}"] = skeleton_of(fn)
    return out


def gen_report(repo):
    import json
    try:
        recorded = json.load(open(SKELETON_FILE))
    except FileNotFoundError:
        raise ExtractError("tools/skeletons.json missing")
    sk = report_skeletons(repo)
    L = [
        "-- GENERATED by tools/extract.py from valida/data.py, valida/rules.py, valida/schema.py — do not edit",
        "namespace ValidaGen",
        "namespace ReportFmt",
        "",
    ]
    for fname, cls, meth, names in REPORT_FUNCTIONS:
        key = f"{cls}.{meth}"
        dump, lits = sk[key]
        if dump != recorded.get(key):
            raise ExtractError(f"{fname}: the shape of {key} is not the recorded one (string literals apart); "
                               "the report model cannot be regenerated from it")
        if len(lits) != len(names):
            raise ExtractError(f"{key}: {len(lits)} string literals, expected {len(names)}")
        L.append(f"-- {fname}: {key}")
        for nm, lit in zip(names, lits):
            if nm.startswith("msg"):
                # a `str.format` template with exactly one positional field
                if lit.count("{}") != 1 or lit.replace("{}", "").count("{") or lit.replace("{}", "").count("}"):
                    raise ExtractError(f"{key}: message template {lit!r} is not `…{{}}…`")
                pre, post = lit.split("{}")
                L.append(f"def {nm} : String × String := ({lstr(pre)}, {lstr(post)})")
            else:
                L.append(f"def {nm} : String := {lstr(lit)}")
        L.append("")
    L.append("end ReportFmt")
    L.append("end ValidaGen")
    return "\n".join(L) + "\n"


def write_if_changed(path, text):
    try:
        if open(path).read() == text:
            return False
    except FileNotFoundError:
        pass
    tmp = path + ".tmp"
    with open(tmp, "w") as fh:
        fh.write(text)
    os.replace(tmp, path)
    return True


def main(argv):
    if len(argv) > 1 and argv[1] == "--record-skeletons":
        import json
        repo = argv[2] if len(argv) > 2 else "/repo"
        with open(SKELETON_FILE, "w") as fh:
            json.dump({k: v[0] for k, v in report_skeletons(repo).items()}, fh, indent=1, sort_keys=True)
            fh.write("\n")
        print("recorded", SKELETON_FILE)
        return 0
    repo = argv[1] if len(argv) > 1 else "/repo"
    outdir = argv[2] if len(argv) > 2 else os.path.join(os.path.dirname(os.path.abspath(__file__)), "..", "lean", "ValidaGen")
    os.makedirs(outdir, exist_ok=True)
    try:
        files = {
            "Callables.lean": gen_callables(repo),
            "Tables.lean": gen_tables(repo),
            "Casting.lean": gen_casting(repo),
            "ReportFmt.lean": gen_report(repo),
        }
    except (ExtractError, SyntaxError) as e:
        print(f"EXTRACT-ERROR: {e}")
        return 3
    changed = [n for n, t in files.items() if write_if_changed(os.path.join(outdir, n), t)]
    print("extract: ok" + (f" (changed: {', '.join(changed)})" if changed else " (unchanged)"))
    return 0


if __name__ == "__main__":
    sys.exit(main(sys.argv))
